"""Row-by-row comparison of wild's folded relocation tables with the oracles."""
import os
import sys

sys.path.insert(0, os.path.join(os.path.dirname(os.path.dirname(os.path.abspath(__file__))), "oracles"))
import fold
import tables

FNS = {"x86_64": "linker_utils::x86_64::relocation_from_raw", "aarch64": "linker_utils::aarch64::relocation_type_from_raw"}
FLOORS = {"x86_64": 37, "aarch64": 114}


def load(F):
    FD = fold.Folder(F)
    import x86_64 as OX
    import aarch64 as OA
    out = {}
    for arch, fn in FNS.items():
        t = tables.table(FD, fn)
        b = F.hir_body(fn)
        out[arch] = (t, (OX.ROWS if arch == "x86_64" else OA.ROWS), b["file"] if b else None)
    return out, FD


def attr_mismatches(arch, r, o):
    """yield (attribute, ok, detail) for one row"""
    # kind
    kind = r["kind"]
    yield "kind", kind == o["kind"], f"wild computes {kind}; the psABI operation corresponds to {o['kind']}"
    if arch == "x86_64":
        n = r["size"].get("bytes") if r["size"] else None
        yield "size", n == o["bytes"], f"field is {o['bytes']} bytes wide in the psABI; wild writes {n}"
        return
    # aarch64
    yield "mask", r["mask"] == o["mask"], f"page mask {r['mask']} vs {o['mask']}"
    f = o["field"]
    if f[0] == "bytes":
        n = r["size"].get("bytes") if r["size"] else None
        yield "size", n == f[1], f"data field is {f[1]} bytes wide in the psABI; wild writes {n} bytes" + (" (overwriting the bytes that follow)" if (n or 0) > f[1] else "")
    else:
        sz = r["size"] or {}
        got = (sz.get("start"), sz.get("end"))
        yield "bits", got == f, f"psABI places bits [{f[1]-1}:{f[0]}] of X; wild extracts [{got[1] - 1 if got[1] else None}:{got[0]}]"
        yield "insn", sz.get("insn") in o["insn"], f"instruction class {sz.get('insn')} vs psABI {sorted(o['insn'])} (field position differs)"
        yield "align", r["alignment"] == o["align"], f"alignment {r['alignment']} vs 2^lo = {o['align']}"
