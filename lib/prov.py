"""Interprocedural, field-aware provenance: where can the value of an operand come from?

Roots:
  ('call', key)                      result of a non-transparent call (accessor, constructor, env)
  ('derived', key, frozenset(roots)) result of a path-deriving call applied to something with `roots`
  ('const', text)                    literal
  ('entry-param', body_key, i)       parameter of a body nobody calls (public API)
  ('unresolved', why)                the chain could not be followed (fail closed: never allowed)
"""
import re

from facts import norm_path
from mir import (callee_key, declared_key, is_transparent, op_place, place_chain, stable)

PATH_DERIVERS = {
    "std::path::Path::with_extension", "std::path::Path::with_file_name", "std::path::Path::with_added_extension",
    "std::path::Path::join", "std::path::PathBuf::push", "std::path::PathBuf::set_extension",
    "std::path::PathBuf::set_file_name", "std::path::Path::parent", "std::path::Path::file_name",
    "std::path::Path::strip_prefix", "std::ffi::OsString::push",
}

MAX_DEPTH = 8


def base_type(ty):
    ty = ty.strip()
    while ty.startswith("&"):
        ty = ty[1:].strip()
        if ty.startswith("mut "):
            ty = ty[4:]
        if ty.startswith("'"):
            ty = ty.split(" ", 1)[1] if " " in ty else ty
    return norm_path(ty)


class Prov:
    def __init__(self, prog):
        self.P = prog
        self.F = prog.facts
        self._agg_index = None
        self._callers = {}
        self._closure_makers = None

    # -- indexes ---------------------------------------------------------------------------------
    def agg_index(self):
        """field name -> list of (body, bb, adt, operand)"""
        if self._agg_index is None:
            idx = {}
            for b in self.F.all_bodies:
                for bi, blk in enumerate(b.blocks):
                    if blk.get("cleanup"):
                        continue
                    for s in blk["s"]:
                        if s["k"] == "assign" and s["rv"]["k"] == "agg" and s["rv"]["ak"] == "adt":
                            rv = s["rv"]
                            for name, op in zip(rv["fields"], rv["ops"]):
                                idx.setdefault(name, []).append((b, bi, norm_path(rv["adt"]), op))
                        # direct field stores  `(*_1).field = x`
                        if s["k"] == "assign" and s["p"][1]:
                            last = s["p"][1][-1]
                            if last.startswith(".") and s["rv"]["k"] in ("use", "cast"):
                                idx.setdefault(last[1:], []).append((b, bi, None, s["rv"]["a"]))
            self._agg_index = idx
        return self._agg_index

    def closure_makers(self):
        """closure key -> list of (parent body, operands)"""
        if self._closure_makers is None:
            m = {}
            for b in self.F.all_bodies:
                for blk in b.blocks:
                    if blk.get("cleanup"):
                        continue
                    for s in blk["s"]:
                        if s["k"] == "assign" and s["rv"]["k"] == "agg" and s["rv"]["ak"] == "closure":
                            m.setdefault(norm_path(s["rv"]["closure"]), []).append((b, s["rv"]["ops"]))
            self._closure_makers = m
        return self._closure_makers

    def callers(self, key):
        if key not in self._callers:
            self._callers[key] = self.P.callers_of(lambda k: k == key)
        return self._callers[key]

    # -- resolution -------------------------------------------------------------------------------
    def roots(self, body, op, depth=0, seen=None):
        if seen is None:
            seen = set()
        out = set()
        if op[0] == "k":
            c = op[1]
            if "fnref" in c:
                out.add(("fnref", callee_key(c["fnref"])))
            else:
                out.add(("const", c.get("text")))
            return out
        if depth > MAX_DEPTH:
            return {("unresolved", "depth")}
        flow = self.P.flow(body)
        fields, _ = place_chain(flow, op)
        named = [f for f in fields if not f.isdigit() and not f.startswith("@")]
        for o in flow.origins(op):
            kind = o[0]
            if kind == "const":
                out.add(("const", o[2]))
            elif kind == "call":
                key = o[1]
                if key is None:
                    out.add(("unresolved", "indirect-call"))
                elif is_transparent(key):
                    continue
                elif key in PATH_DERIVERS:
                    # roots of the receiver
                    t = body.blocks[o[2]]["t"]
                    inner = set()
                    if t["args"]:
                        inner = self.roots(body, t["args"][0], depth + 1, seen)
                    out.add(("derived", key, frozenset(inner)))
                else:
                    out.add(("call", key))
            elif kind == "param":
                out |= self._param_roots(body, o[1], fields, named, depth, seen)
            elif kind == "agg":
                pass  # containment; operands are traversed by origins()
            elif kind == "undef":
                pass
        return out

    def _param_roots(self, body, i, fields, named, depth, seen):
        key = (body.key, i, tuple(fields))
        if key in seen:
            return set()
        seen = seen | {key}
        out = set()
        # closure environment
        if body.d["kind"] == "Closure" and i == 1:
            ups = [f for f in fields if f.isdigit()]
            makers = self.closure_makers().get(body.key, [])
            if not makers:
                return {("unresolved", f"closure-maker:{stable(body.key)}")}
            if not ups:
                return {("unresolved", f"closure-env-whole:{stable(body.key)}")}
            k = int(ups[-1])  # projection nearest the root
            for parent, ops in makers:
                if k < len(ops):
                    out |= self.roots(parent, ops[k], depth + 1, seen)
            return out
        # field of a struct parameter
        if named:
            pty = base_type(body.locals[i])
            idx = self.agg_index()
            for fname in named:
                cands = idx.get(fname, [])
                crate = pty.split("::")[0]
                cands = [c for c in cands if c[0].key.split("::")[0].lstrip("<") == crate or True]
                # prefer aggregates of the parameter's own type
                own = [c for c in cands if c[2] == pty]
                use = own or [c for c in cands if c[2] is not None and c[2].rsplit("::", 1)[0] == pty.rsplit("::", 1)[0]]
                if use:
                    for b2, _bi, _adt, op2 in use:
                        out |= self.roots(b2, op2, depth + 1, seen)
                    return out
            return {("unresolved", f"field:{pty}.{'.'.join(named)}")}
        # plain parameter: look at the callers
        sites = self.callers(body.key)
        # closure passed as a callback: parameters come from the callee that invokes it -> unresolved
        if body.d["kind"] == "Closure":
            return {("unresolved", f"closure-param:{stable(body.key)}:{i}")}
        if not sites:
            return {("entry-param", body.key, i)}
        for cb, _bi, t in sites:
            if i - 1 < len(t["args"]):
                out |= self.roots(cb, t["args"][i - 1], depth + 1, seen)
        return out


def fmt_root(r):
    if r[0] == "derived":
        return f"derived({r[1].split('::')[-1]} of {sorted(fmt_root(x) for x in r[2])})"
    return ":".join(str(x) for x in r)
