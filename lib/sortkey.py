"""Sort-key facts for `*_by_key` sorts: the components of the tuple the key closure returns (MIR expression trees)."""
from mir import callee_key, declared_key, expr_tree, render


def by_key_sorts(F, P, body_key):
    """[(sort callee tail, [rendered key components], closure body, line)] for every *sort*_by_key call in the named body."""
    b = F.body(body_key)
    if b is None:
        return None
    flow = P.flow(b)
    out = []
    closures = {c.key: c for c in F.closures_of(body_key)}
    for bi, t in flow.calls():
        ck = callee_key(t["f"]) or declared_key(t["f"]) or ""
        tail = ck.split("::")[-1]
        if "sort" not in tail:
            continue
        comps = None
        cl = None
        # the closure argument: an aggregate of a closure type defined in this body
        for a in t["args"][1:]:
            for o in flow.origins(a):
                if o[0] == "agg" and o[1] in closures:
                    cl = closures[o[1]]
            if cl is None and a[0] in ("c", "m"):
                ty = b.locals[a[1][0]]
                for k, c in closures.items():
                    if k.split("::")[-1] in ty or k in ty:
                        cl = c
        if cl is not None:
            cf = P.flow(cl)
            comps = []
            for _bi, si, proj, payload in cf.defs.get(0, []):
                if si == "call":
                    comps.append(render(expr_tree(P, cl, ("c", (0, [])), depth=6, expand_params=0)))
                elif payload["k"] == "agg" and payload.get("ak") == "tuple":
                    comps = [render(expr_tree(P, cl, o, depth=6, expand_params=0)) for o in payload["ops"]]
                else:
                    comps.append(render(expr_tree(P, cl, ("c", (0, [])), depth=6, expand_params=0)))
        out.append((tail, comps, cl, t["l"]))
    return out


def gnu_hash_sort_is_total(F, P):
    """(ok, detail): create_gnu_hash_layout sorts the dynamic symbols by a key whose first component is bucket_for_hash(..hash)
    and which also contains the symbol's name (so equal buckets are ordered by name: a total, schedule-independent order)."""
    sorts = by_key_sorts(F, P, "libwild::elf::create_gnu_hash_layout")
    if sorts is None:
        return None, "libwild::elf::create_gnu_hash_layout not found"
    if not sorts:
        return False, "no sort in create_gnu_hash_layout"
    for tail, comps, _cl, _l in sorts:
        if comps and comps[0].startswith("bucket_for_hash(") and ".hash" in comps[0] and any(c.endswith(".name") for c in comps[1:]):
            return True, f"{tail} key = ({', '.join(comps)})"
    return False, f"sort key(s) found: {[(t, c) for t, c, _x, _l in sorts]} — need (bucket_for_hash(hash), .., name)"
