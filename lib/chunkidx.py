"""resolve_symbols visits an object's symbols in chunks; inside its closure the enumerate() index is relative to the chunk.
`uses(F, P)` lists every use of that chunk-relative index and says whether it goes through `start_symbol_offset + index`
(robust to hoisting the sum into a local, unlike rendering a bounded expression tree)."""
from mir import callee_key, op_place, stable, _operands_of_rvalue

RS = "libwild::resolution::resolve_symbols"


def _reads_place(rv, local):
    out = []
    for o in _operands_of_rvalue(rv):
        pl = op_place(o)
        if pl and pl[0] == local:
            out.append(pl)
    if rv["k"] in ("ref", "rawptr", "discr") and rv["p"][0] == local:
        out.append((rv["p"][0], rv["p"][1]))
    return out


def analyse(F, P):
    """-> dict(cap=index of the captured start_symbol_offset, relative=bool|None, uses=[(closure, line, kind, ok, detail)]) or None"""
    rs = F.body(RS)
    cls = F.closures_of(RS)
    if rs is None or not cls:
        return None
    pflow = P.flow(rs)
    cap = None
    for blk in rs.blocks:
        for st in blk["s"]:
            if st["k"] == "assign" and st["rv"]["k"] == "agg" and st["rv"].get("ak") == "closure":
                for i_, o in enumerate(st["rv"]["ops"]):
                    if op_place(o) is not None and any(x[0] == "param" and (rs.local_name(x[1]) or "") == "start_symbol_offset" for x in pflow.origins(o)):
                        cap = i_
    relative = None
    for bi, t in pflow.calls():
        if (callee_key(t["f"]) or "").endswith("Iterator::enumerate") and t["args"]:
            relative = any(x[0] == "call" and (x[1] or "").endswith("Iterator::skip") for x in pflow.deep_origins(t["args"][0]))
    uses = []
    for c in cls:
        if c.key.count("{closure") != 1:
            continue
        flow = P.flow(c)
        # locals that hold the bare enumerate index: copies of (_2 .0 .0)
        idx = set()
        cap_locals = set()
        changed = True
        while changed:
            changed = False
            for blk in c.blocks:
                for st in blk["s"]:
                    if st["k"] != "assign" or st["p"][1]:
                        continue
                    rv = st["rv"]
                    if rv["k"] in ("use", "cast") and op_place(rv["a"]):
                        pl = op_place(rv["a"])
                        fields = [x for x in pl[1] if x != "*"]
                        if (pl[0] == 2 and fields == [".0", ".0"]) or (pl[0] in idx and not fields):
                            if st["p"][0] not in idx:
                                idx.add(st["p"][0]); changed = True
                        if cap is not None and ((pl[0] == 1 and fields == [f".{cap}"]) or (pl[0] in cap_locals and not fields)):
                            if st["p"][0] not in cap_locals:
                                cap_locals.add(st["p"][0]); changed = True
        if not idx:
            continue
        for blk in c.blocks:
            if blk.get("cleanup"):
                continue
            for st in blk["s"]:
                if st["k"] != "assign":
                    continue
                rv = st["rv"]
                hit = [pl for l in idx for pl in _reads_place(rv, l)]
                if not hit:
                    continue
                if rv["k"] in ("use", "cast") and not st["p"][1] and st["p"][0] in idx:
                    continue    # a plain copy, followed above
                if rv["k"] == "bin" and rv["op"].startswith("Add"):
                    other = rv["b"] if op_place(rv["a"]) and op_place(rv["a"])[0] in idx else rv["a"]
                    opl = op_place(other)
                    ok = opl is not None and ((opl[0] in cap_locals) or (opl[0] == 1 and f".{cap}" in opl[1]))
                    uses.append((c, st["l"], "add", ok, "start_symbol_offset + index" if ok else "index added to something that is not start_symbol_offset"))
                else:
                    uses.append((c, st["l"], rv["k"] + (":" + rv.get("op", "") if rv["k"] == "bin" else ""), False, f"the chunk-relative index is used directly ({rv['k']})"))
            t = blk["t"]
            if t["k"] == "call":
                for a in t["args"]:
                    pl = op_place(a)
                    if pl and pl[0] in idx:
                        uses.append((c, t["l"], "arg:" + (callee_key(t["f"]) or "?").split("::")[-1], False, f"the chunk-relative index is passed to {(callee_key(t['f']) or '?').split('::')[-1]}"))
            elif t["k"] == "switch":
                pl = op_place(t["d"])
                if pl and pl[0] in idx:
                    uses.append((c, t["l"], "switch", False, "the chunk-relative index is tested directly"))
    return {"cap": cap, "relative": relative, "uses": uses}
