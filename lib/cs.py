"""Critical sections: regions of a body during which a MutexGuard local is live, and the accesses to
the protected value made inside them."""
from mir import callee_key, declared_key, op_place, place_chain, _operands_of_rvalue

LOCKS = {"std::sync::Mutex::lock", "std::sync::Mutex::try_lock", "std::sync::RwLock::write", "std::sync::RwLock::read"}


class Region:
    def __init__(self, body, guard, lock_bb, start, drops, blocks, aliases, guard_ty):
        self.body = body
        self.guard = guard
        self.lock_bb = lock_bb
        self.start = start
        self.drops = drops
        self.blocks = blocks
        self.aliases = aliases  # locals holding &/&mut to the protected value
        self.guard_ty = guard_ty
        self.accesses = []  # (bb, field, kind, detail)

    def fields(self, kind=None):
        return {(a[1]) for a in self.accesses if kind is None or a[2] == kind}


def guard_regions(body, cfg, flow, ty_substr):
    """Regions for every local of type `MutexGuard<..ty_substr..>` in body."""
    out = []
    for li, ty in enumerate(body.locals):
        if not ty.startswith("std::sync::MutexGuard<") or ty_substr not in ty:
            continue
        defs = flow.defs.get(li, [])
        if not defs:
            continue
        for bi, si, proj, payload in defs:
            if proj:
                continue
            if si == "call":
                start = payload["to"]
                lock_bb = bi
                # walk back to the lock call if this is the unwrap
                ck = callee_key(payload["f"])
                if ck in ("std::result::Result::unwrap", "std::result::Result::expect") and payload["args"]:
                    pl = op_place(payload["args"][0])
                    if pl:
                        for bj, sj, pj, pay2 in flow.defs.get(pl[0], []):
                            if sj == "call" and callee_key(pay2["f"]) in LOCKS:
                                lock_bb = bj
            else:
                # moved from another guard local: treat the source's region as covering it
                start = bi
                lock_bb = bi
            if start is None:
                continue
            drops = [i for i in cfg.reach if body.blocks[i]["t"]["k"] == "drop" and body.blocks[i]["t"]["p"][0] == li and not body.blocks[i]["t"]["p"][1]]
            # explicit drop(guard) / moves out
            for bj, t in flow.calls():
                if callee_key(t["f"]) == "std::mem::drop" and t["args"] and op_place(t["args"][0]) and op_place(t["args"][0])[0] == li:
                    drops.append(bj)
            blocks = cfg.reachable_from(start, avoid=drops) | {d for d in drops if d in cfg.reach}
            r = Region(body, li, lock_bb, start, drops, blocks, set(), ty)
            _collect(r, cfg, flow)
            out.append(r)
    return out


def _collect(r, cfg, flow):
    body = r.body
    # aliases: results of Deref/DerefMut on &guard, and copies of those
    aliases = set()
    changed = True
    guard_refs = {r.guard}
    while changed:
        changed = False
        for bi in r.blocks:
            blk = body.blocks[bi]
            for s in blk["s"]:
                if s["k"] != "assign" or s["p"][1]:
                    continue
                rv = s["rv"]
                if rv["k"] in ("ref", "rawptr") and rv["p"][0] in guard_refs and (not rv["p"][1] or (rv["p"][1] == ["*"] and rv["p"][0] != r.guard)):
                    if s["p"][0] not in guard_refs:
                        guard_refs.add(s["p"][0])
                        changed = True
                if rv["k"] in ("use", "cast"):
                    pl = op_place(rv["a"])
                    if pl and not pl[1]:
                        if pl[0] in guard_refs and s["p"][0] not in guard_refs:
                            guard_refs.add(s["p"][0])
                            changed = True
                        if pl[0] in aliases and s["p"][0] not in aliases:
                            aliases.add(s["p"][0])
                            changed = True
                if rv["k"] in ("ref", "rawptr") and rv["p"][0] in aliases and rv["p"][1] == ["*"]:
                    if s["p"][0] not in aliases:
                        aliases.add(s["p"][0])
                        changed = True
            t = blk["t"]
            if t["k"] == "call":
                dk = declared_key(t["f"])
                if dk in ("std::ops::Deref::deref", "std::ops::DerefMut::deref_mut") and t["args"]:
                    pl = op_place(t["args"][0])
                    if pl and pl[0] in guard_refs and t["dest"][0] not in aliases:
                        aliases.add(t["dest"][0])
                        changed = True
    r.aliases = aliases

    def field_of(place):
        l, proj = place
        if l in aliases and len(proj) >= 2 and proj[0] == "*" and proj[1].startswith("."):
            return proj[1][1:]
        if l in aliases and proj == ["*"]:
            return "*"
        return None

    # field refs: locals holding &(*alias).field
    field_refs = {}
    for bi in sorted(r.blocks):
        blk = body.blocks[bi]
        for s in blk["s"]:
            if s["k"] != "assign":
                continue
            f = field_of(s["p"])
            if f:
                r.accesses.append((bi, f, "write", s["rv"]))
            rv = s["rv"]
            if rv["k"] in ("ref", "rawptr"):
                f = field_of(rv["p"])
                if f:
                    field_refs[s["p"][0]] = f
                elif rv["p"][0] in field_refs and rv["p"][1] == ["*"]:
                    field_refs[s["p"][0]] = field_refs[rv["p"][0]]  # reborrow
                continue
            for o in _operands_of_rvalue(rv):
                pl = op_place(o)
                if pl:
                    f = field_of(pl)
                    if f:
                        r.accesses.append((bi, f, "read", rv))
                    elif pl[0] in field_refs and not pl[1] and not s["p"][1]:
                        field_refs[s["p"][0]] = field_refs[pl[0]]
        t = blk["t"]
        if t["k"] == "call":
            for a in t["args"]:
                pl = op_place(a)
                if not pl:
                    continue
                f = field_of(pl)
                if f is None and pl[0] in field_refs and not pl[1]:
                    f = field_refs[pl[0]]
                if f:
                    r.accesses.append((bi, f, "call", t))
        elif t["k"] == "switch":
            pl = op_place(t["d"])
            if pl:
                f = field_of(pl)
                if f:
                    r.accesses.append((bi, f, "read", t))


def calls_in_region(r, flow):
    for bi, t in flow.calls():
        if bi in r.blocks and bi != r.lock_bb:
            yield bi, t
