"""Analyses over the MIR facts of one body: CFG, dominators, post-dominators, edge facts,
def-use origins, calls; and over all bodies: the call graph with class-hierarchy expansion."""
from facts import norm_path

# Calls that pass their receiver/first argument through (for origin tracing).
TRANSPARENT = {
    "<std::result::Result as std::ops::Try>::branch",
    "<std::option::Option as std::ops::Try>::branch",
    "std::ops::Try::branch",
    "<std::result::Result as std::ops::FromResidual>::from_residual",
    "<std::option::Option as std::ops::FromResidual>::from_residual",
    "std::ops::FromResidual::from_residual",
    "std::convert::From::from",
    "std::convert::Into::into",
    "<T as std::convert::Into>::into",
    "<T as std::convert::From>::from",
    "std::ops::Deref::deref",
    "std::ops::DerefMut::deref_mut",
    "std::clone::Clone::clone",
    "std::borrow::Borrow::borrow",
    "std::borrow::BorrowMut::borrow_mut",
    "std::convert::AsRef::as_ref",
    "std::convert::AsMut::as_mut",
    "std::option::Option::as_ref",
    "std::option::Option::as_mut",
    "std::option::Option::as_deref",
    "std::option::Option::unwrap",
    "std::option::Option::expect",
    "std::option::Option::copied",
    "std::option::Option::cloned",
    "std::result::Result::unwrap",
    "std::result::Result::expect",
    "std::result::Result::as_ref",
    "std::iter::IntoIterator::into_iter",
    "<I as std::iter::IntoIterator>::into_iter",
    "std::path::PathBuf::as_path",
    "std::path::Path::to_path_buf",
    "std::path::Path::to_owned",
    "std::borrow::ToOwned::to_owned",
    "std::sync::Arc::new",
    "std::boxed::Box::new",
    "std::option::Option::Some",
    "std::result::Result::Ok",
    "anyhow::Context::context",
    "anyhow::Context::with_context",
    "<std::result::Result as anyhow::Context>::context",
    "<std::result::Result as anyhow::Context>::with_context",
    "std::result::Result::map_err",
}


import re as _re0
_TRANSPARENT_IMPL = _re0.compile(
    r"^<.* as (std::clone::Clone|std::ops::Deref|std::ops::DerefMut|std::convert::From|std::convert::Into|"
    r"std::convert::AsRef|std::convert::AsMut|std::borrow::Borrow|std::borrow::BorrowMut|std::borrow::ToOwned)>::"
    r"(clone|deref|deref_mut|from|into|as_ref|as_mut|borrow|borrow_mut|to_owned)$")


def is_transparent(key):
    if key is None:
        return False
    if key in TRANSPARENT:
        return True
    m = _TRANSPARENT_IMPL.match(key)
    if m:
        return True
    # error-context adaptors of any crate (`anyhow::Context`, `libwild::error::Context`)
    if key.endswith("Context>::context") or key.endswith("Context>::with_context") or key.endswith("Context::context") or key.endswith("Context::with_context"):
        return True
    return False


def op_place(op):
    """(local, proj) of a copy/move operand, else None."""
    if op[0] in ("c", "m"):
        return op[1][0], op[1][1]
    return None


def op_const(op):
    if op[0] == "k":
        return op[1]
    return None


def callee_key(f):
    """Resolved callee if rustc resolved it, else the declared one. None for indirect calls."""
    if "fn" not in f:
        return None
    return norm_path(f.get("res") or f["fn"])


def declared_key(f):
    if "fn" not in f:
        return None
    return norm_path(f["fn"])


class Cfg:
    """CFG of one body, unwind edges and cleanup blocks removed."""

    def __init__(self, body):
        self.body = body
        blocks = body.blocks
        n = len(blocks)
        self.n = n
        self.succ = [[] for _ in range(n)]  # list of (label, target)
        for i, b in enumerate(blocks):
            if b.get("cleanup"):
                continue
            t = b["t"]
            k = t["k"]
            if k == "goto":
                self.succ[i].append(("goto", t["to"]))
            elif k == "switch":
                for v, tgt in t["arms"]:
                    self.succ[i].append((v, tgt))
                self.succ[i].append(("else", t["else"]))
            elif k in ("drop", "assert"):
                self.succ[i].append((k, t["to"]))
            elif k == "call":
                if t["to"] is not None:
                    self.succ[i].append(("call", t["to"]))
            elif k == "other":
                pass
        self.pred = [[] for _ in range(n)]
        for i in range(n):
            for lab, tgt in self.succ[i]:
                self.pred[tgt].append((lab, i))
        self.reach = self._reachable(0)
        self._dom = None
        self._pdom = None
        self._edge_facts = None

    def _reachable(self, start):
        seen = {start}
        st = [start]
        while st:
            x = st.pop()
            for _l, t in self.succ[x]:
                if t not in seen:
                    seen.add(t)
                    st.append(t)
        return seen

    def reachable_from(self, start, avoid=()):
        """Blocks reachable from `start` without entering any block in `avoid`."""
        avoid = set(avoid)
        if start in avoid:
            return set()
        seen = {start}
        st = [start]
        while st:
            x = st.pop()
            for _l, t in self.succ[x]:
                if t not in seen and t not in avoid:
                    seen.add(t)
                    st.append(t)
        return seen

    def reachable_avoiding_edges(self, start, avoid_edges, avoid_blocks=()):
        """Blocks reachable from `start` without taking any edge (block, label) in avoid_edges."""
        avoid_edges = set(avoid_edges)
        avoid_blocks = set(avoid_blocks)
        seen = {start}
        st = [start]
        while st:
            x = st.pop()
            for lab, t in self.succ[x]:
                if (x, lab) in avoid_edges or t in avoid_blocks:
                    continue
                if t not in seen:
                    seen.add(t)
                    st.append(t)
        return seen

    # --- dominators -----------------------------------------------------------------------
    def _dominators(self, succ, pred, roots, nodes):
        dom = {x: set(nodes) for x in nodes}
        for r in roots:
            dom[r] = {r}
        changed = True
        order = list(nodes)
        while changed:
            changed = False
            for x in order:
                if x in roots:
                    continue
                ps = [p for _l, p in pred[x] if p in dom]
                if not ps:
                    new = {x}
                else:
                    new = set.intersection(*(dom[p] for p in ps)) | {x}
                if new != dom[x]:
                    dom[x] = new
                    changed = True
        return dom

    def dom(self):
        """dom()[b] = set of blocks dominating b (within reachable blocks)."""
        if self._dom is None:
            nodes = [x for x in self._rpo()]
            self._dom = self._dominators(self.succ, self.pred, {0}, nodes)
        return self._dom

    def _rpo(self):
        seen = set()
        order = []

        def dfs(x):
            stack = [(x, iter(self.succ[x]))]
            seen.add(x)
            while stack:
                node, it = stack[-1]
                for _l, t in it:
                    if t not in seen:
                        seen.add(t)
                        stack.append((t, iter(self.succ[t])))
                        break
                else:
                    order.append(node)
                    stack.pop()
        dfs(0)
        order.reverse()
        return order

    def dominates(self, a, b):
        return a in self.dom().get(b, ())

    def exits(self):
        """Blocks ending in `return` (normal exits)."""
        return [i for i in self.reach if self.body.blocks[i]["t"]["k"] == "return"]

    def diverging(self):
        """Reachable blocks with no successors that are not returns (calls to `!` functions, unreachable)."""
        return [i for i in self.reach if not self.succ[i] and self.body.blocks[i]["t"]["k"] != "return"]

    def pdom(self):
        """pdom()[b] = set of blocks post-dominating b w.r.t. normal returns (virtual exit = -1)."""
        if self._pdom is None:
            EXIT = -1
            nodes = [x for x in self.reach] + [EXIT]
            rsucc = {x: [] for x in nodes}  # reversed graph: successors = original preds
            rpred = {x: [] for x in nodes}
            for x in self.reach:
                for lab, t in self.succ[x]:
                    rpred[x].append((lab, t))  # in reversed graph, pred of x = its original succ
            for e in self.exits():
                rpred[e].append(("exit", EXIT))
            # diverging blocks (panics, exit) are connected to the virtual exit too, so that
            # "post-dominates" means "on every path that ends, normally or not".
            for e in self.diverging():
                rpred[e].append(("diverge", EXIT))
            # order: reverse of rpo is fine
            order = [EXIT] + list(reversed(self._rpo()))
            dom = {x: set(nodes) for x in nodes}
            dom[EXIT] = {EXIT}
            changed = True
            while changed:
                changed = False
                for x in order:
                    if x == EXIT:
                        continue
                    ps = [p for _l, p in rpred[x]]
                    if not ps:
                        new = {x}
                    else:
                        new = set.intersection(*(dom[p] for p in ps)) | {x}
                    if new != dom[x]:
                        dom[x] = new
                        changed = True
            self._pdom = dom
        return self._pdom

    def postdominates(self, a, b):
        """a post-dominates b: every terminating path from b passes through a."""
        return a in self.pdom().get(b, ())

    # --- edge facts --------------------------------------------------------------------------
    def _phi_bools(self):
        """switch block -> {bool value: [def blocks]} for switches on a bool local whose every
        definition is a constant assignment (the lowering of `matches!`, `a && b` stored in a let)."""
        defs = {}
        bad = set()
        for bi, b in enumerate(self.body.blocks):
            if b.get("cleanup"):
                continue
            for s in b["s"]:
                if s["k"] != "assign":
                    continue
                l, proj = s["p"]
                if proj:
                    bad.add(l)
                    continue
                rv = s["rv"]
                if rv["k"] == "use" and rv["a"][0] == "k" and rv["a"][1].get("ty") == "bool" and rv["a"][1].get("val") in (0, 1):
                    defs.setdefault(l, []).append((bi, bool(rv["a"][1]["val"])))
                else:
                    bad.add(l)
            t = b["t"]
            if t["k"] == "call":
                bad.add(t["dest"][0])
        out = {}
        for sb in self.reach:
            t = self.body.blocks[sb]["t"]
            if t["k"] != "switch" or t["dty"] != "bool" or t["d"][0] == "k":
                continue
            l, proj = t["d"][1]
            if proj or l in bad or l not in defs or len(defs[l]) < 2:
                continue
            m = {}
            for bi, v in defs[l]:
                m.setdefault(v, []).append(bi)
            out[sb] = m
        return out

    def edge_facts(self):
        """For each reachable block: the set of switch edges (switch_block, label) that lie on every
        path from entry to the block (forward must-analysis; equals edge dominance), extended through
        materialised booleans: on the `true` edge of a switch on a bool that is only ever assigned
        constants, the facts common to the blocks that assign `true` hold."""
        if self._edge_facts is None:
            order = self._rpo()
            TOP = None
            IN = {x: TOP for x in order}
            IN[0] = frozenset()
            phi = self._phi_bools()

            def label_value(p, lab):
                t = self.body.blocks[p]["t"]
                listed = {v for v, _ in t["arms"]}
                if lab == 0:
                    return False
                if lab == 1:
                    return True
                if lab == "else":
                    if listed == {0}:
                        return True
                    if listed == {1}:
                        return False
                return None

            changed = True
            while changed:
                changed = False
                for x in order:
                    if x == 0:
                        new = frozenset()
                    else:
                        acc = TOP
                        for lab, p in self.pred[x]:
                            if p not in IN or IN[p] is TOP:
                                continue
                            out = IN[p]
                            if self.body.blocks[p]["t"]["k"] == "switch":
                                # the same target may be reached under several labels: then no fact
                                labs = [l for l, t in self.succ[p] if t == x]
                                if len(labs) > 1:
                                    out = out | {(p, ("any", tuple(sorted(map(str, labs)))))}
                                if len(labs) == 1:
                                    out = out | {(p, labs[0])}
                                    if p in phi:
                                        v = label_value(p, labs[0])
                                        srcs = phi[p].get(v, []) if v is not None else []
                                        srcs = [d for d in srcs if d in IN and IN[d] is not TOP]
                                        if srcs and len(srcs) == len(phi[p].get(v, [])):
                                            common = frozenset.intersection(*(IN[d] for d in srcs))
                                            out = out | common
                            acc = out if acc is TOP else (acc & out)
                        new = acc
                    if new is not TOP and new != IN[x]:
                        IN[x] = new
                        changed = True
            self._edge_facts = {x: (v if v is not None else frozenset()) for x, v in IN.items()}
        return self._edge_facts


_PROMOTED = _re0.compile(r"promoted\[(\d+)\]")


class Flow:
    """Def-use view of one body."""

    def __init__(self, body):
        self.body = body
        self.defs = {}  # local -> list of (bb, idx or 'call', kind, payload)
        for bi, b in enumerate(body.blocks):
            if b.get("cleanup"):
                continue
            for si, s in enumerate(b["s"]):
                if s["k"] == "assign":
                    l = s["p"][0]
                    self.defs.setdefault(l, []).append((bi, si, s["p"][1], s["rv"]))
            t = b["t"]
            if t["k"] == "call":
                l = t["dest"][0]
                self.defs.setdefault(l, []).append((bi, "call", t["dest"][1], t))

    def calls(self):
        for bi, b in enumerate(self.body.blocks):
            if b.get("cleanup"):
                continue
            t = b["t"]
            if t["k"] == "call":
                yield bi, t

    def origins(self, op, through=is_transparent, max_depth=40):
        """Leaves from which the operand's value derives (flow-insensitive, through copies, refs,
        casts, field projections, aggregates and `through` calls).

        Leaves: ('param', i) | ('const', val, text) | ('call', key, bb) | ('agg', name, bb)
                | ('op', opname, bb) | ('static', text) | ('undef', local)"""
        out = set()
        seen = set()

        def visit_local(l, depth):
            if (l,) in seen or depth > max_depth:
                return
            seen.add((l,))
            if 1 <= l <= self.body.d["argc"]:
                out.add(("param", l))
            ds = self.defs.get(l, [])
            if not ds and not (1 <= l <= self.body.d["argc"]):
                out.add(("undef", l))
            for bi, si, _proj, payload in ds:
                if si == "call":
                    t = payload
                    key = callee_key(t["f"])
                    out.add(("call", key, bi))
                    if through(key) or through(declared_key(t["f"])):
                        for a in t["args"][:1]:
                            visit_op(a, depth + 1)
                else:
                    visit_rv(payload, bi, depth + 1)

        def visit_op(o, depth):
            if o[0] in ("c", "m"):
                visit_local(o[1][0], depth)
            elif o[0] == "k":
                c = o[1]
                if "fnref" in c:
                    out.add(("fnref", callee_key(c["fnref"])))
                else:
                    out.add(("const", c.get("val"), c.get("text")))
                    m = _PROMOTED.search(c.get("text") or "")
                    if m:
                        for leaf in self._promoted_leaves(int(m.group(1))):
                            out.add(leaf)

        def visit_rv(rv, bi, depth):
            k = rv["k"]
            if k in ("use", "cast", "repeat"):
                visit_op(rv["a"], depth)
            elif k in ("ref", "rawptr", "discr"):
                visit_local(rv["p"][0], depth)
            elif k == "bin":
                out.add(("op", rv["op"], bi))
                visit_op(rv["a"], depth)
                visit_op(rv["b"], depth)
            elif k == "un":
                out.add(("op", rv["op"], bi))
                visit_op(rv["a"], depth)
            elif k == "agg":
                name = rv.get("adt") or rv.get("closure") or rv["ak"]
                if rv["ak"] == "adt":
                    name = norm_path(name) + "::" + rv["variant"]
                out.add(("agg", name, bi))
                for o in rv["ops"]:
                    visit_op(o, depth)
            else:
                out.add(("op", "other", bi))

        visit_op(op, 0)
        return out

    def _promoted_leaves(self, idx):
        """Aggregates and constants built inside promoted constant `idx` of this body."""
        out = []
        prom = self.body.d.get("promoted") or []
        if idx >= len(prom):
            return out
        for blk in prom[idx]:
            for st in blk["s"]:
                if st["k"] != "assign":
                    continue
                rv = st["rv"]
                if rv["k"] == "agg" and rv["ak"] == "adt":
                    out.append(("agg", norm_path(rv["adt"]) + "::" + rv["variant"], -1))
                for o in _rv_operands(rv):
                    if o[0] == "k" and "fnref" not in o[1]:
                        out.append(("const", o[1].get("val"), o[1].get("text")))
        return out

    def deep_origins(self, op, max_depth=60):
        """Like origins(), but follows *every* argument of *every* call (containment/derivation closure): the set of
        parameters, constants (promoted ones opened) and calls from which the operand's value can be derived."""
        out = set()
        seen = set()
        argc = self.body.d["argc"]

        def vl(l, d):
            if l in seen or d > max_depth:
                return
            seen.add(l)
            if 1 <= l <= argc:
                out.add(("param", l))
            for bi, si, _proj, payload in self.defs.get(l, []):
                if si == "call":
                    out.add(("call", callee_key(payload["f"]), bi))
                    for a in payload["args"]:
                        vo(a, d + 1)
                else:
                    for o in _rv_operands(payload):
                        vo(o, d + 1)
                    if payload["k"] in ("ref", "rawptr", "discr"):
                        vl(payload["p"][0], d + 1)

        def vo(o, d):
            if o[0] in ("c", "m"):
                vl(o[1][0], d)
            elif o[0] == "k":
                c = o[1]
                if "fnref" in c:
                    out.add(("fnref", callee_key(c["fnref"])))
                    return
                out.add(("const", c.get("val"), c.get("text")))
                m = _PROMOTED.search(c.get("text") or "")
                if m:
                    for leaf in self._promoted_leaves(int(m.group(1))):
                        out.add(leaf)
        vo(op, 0)
        return out

    def origin_calls(self, op, through=is_transparent):
        return {o[1] for o in self.origins(op, through) if o[0] == "call"}


def switch_predicate(body, flow, sb):
    """Describe what a `switch` block tests.

    Returns dict: {'calls': set of callee keys feeding the discriminant,
                   'flips': number of `Not`s on the way (mod 2, only for the direct chain),
                   'ops': set of binary op names, 'consts': set of constants compared,
                   'discr_of': local whose enum discriminant is read (or None)}"""
    t = body.blocks[sb]["t"]
    assert t["k"] == "switch"
    info = {"calls": set(), "flips": 0, "ops": set(), "consts": set(), "discr_of": None, "params": set()}
    # direct chain for flips and discriminant
    op = t["d"]
    depth = 0
    while depth < 20:
        depth += 1
        pl = op_place(op)
        if pl is None:
            break
        l, proj = pl
        ds = flow.defs.get(l, [])
        if len(ds) != 1:
            break
        bi, si, _p, payload = ds[0]
        if si == "call":
            break
        rv = payload
        if rv["k"] == "un" and rv["op"] == "Not":
            info["flips"] ^= 1
            op = rv["a"]
            continue
        if rv["k"] == "use":
            op = rv["a"]
            continue
        if rv["k"] == "discr":
            info["discr_of"] = rv["p"]
        break
    for o in flow.origins(t["d"]):
        if o[0] == "call":
            info["calls"].add(o[1])
        elif o[0] == "op":
            info["ops"].add(o[1])
        elif o[0] == "const":
            info["consts"].add(o[1])
        elif o[0] == "param":
            info["params"].add(o[1])
    return info


class Program:
    """Whole-program view: call graph over all bodies with CHA expansion of trait-method calls and
    may-call edges from a body to the closures it constructs."""

    def __init__(self, facts):
        self.facts = facts
        self.flows = {}
        self.cfgs = {}
        # trait method path -> impl method keys
        self.trait_impls = {}
        for imp in facts.impls():
            for m in imp["methods"]:
                if m.get("trait_item"):
                    self.trait_impls.setdefault(norm_path(m["trait_item"]), set()).add(norm_path(m["path"]))
        self._edges = None

    def flow(self, body):
        f = self.flows.get(id(body))
        if f is None:
            f = self.flows[id(body)] = Flow(body)
        return f

    def cfg(self, body):
        c = self.cfgs.get(id(body))
        if c is None:
            c = self.cfgs[id(body)] = Cfg(body)
        return c

    def callees_of_call(self, t):
        """Set of possible callee keys for a call terminator (CHA for unresolved trait calls)."""
        f = t["f"]
        if "fn" not in f:
            return set()
        res = f.get("res")
        if res:
            k = norm_path(res)
            # a resolved trait *declaration* (default method or unresolved) still needs CHA
            if f.get("trait") and norm_path(f["fn"]) == k and k in self.trait_impls:
                return {k} | self.trait_impls[k]
            return {k}
        k = norm_path(f["fn"])
        if f.get("trait"):
            return {k} | self.trait_impls.get(k, set())
        return {k}

    def edges(self):
        """caller key -> set of callee keys (including closures constructed and fn items referenced)."""
        if self._edges is None:
            e = {}
            for b in self.facts.all_bodies:
                s = e.setdefault(b.key, set())
                for blk in b.blocks:
                    t = blk["t"]
                    if t["k"] == "call":
                        s |= self.callees_of_call(t)
                        for a in t["args"]:
                            if a[0] == "k" and "fnref" in a[1]:
                                s |= self.callees_of_call({"f": a[1]["fnref"]})
                    for st in blk["s"]:
                        if st["k"] == "assign":
                            rv = st["rv"]
                            if rv["k"] == "agg" and rv["ak"] == "closure":
                                s.add(norm_path(rv["closure"]))
                            for o in _rv_operands(rv):
                                if o[0] == "k" and "fnref" in o[1]:
                                    s |= self.callees_of_call({"f": o[1]["fnref"]})
            self._edges = e
        return self._edges

    def reachable(self, roots, bound=None):
        """Keys reachable from `roots` through the call graph (depth-bounded if `bound`)."""
        e = self.edges()
        seen = {}
        frontier = [(r, 0) for r in roots]
        for r in roots:
            seen[r] = None
        while frontier:
            x, d = frontier.pop()
            if bound is not None and d >= bound:
                continue
            for y in e.get(x, ()):
                if y not in seen:
                    seen[y] = x
                    frontier.append((y, d + 1))
        return seen

    def path_to(self, seen, target):
        p = [target]
        while seen.get(p[-1]) is not None:
            p.append(seen[p[-1]])
        return list(reversed(p))

    def reaches(self, key, targets, bound=None, _memo=None):
        """Does `key` transitively call any of `targets` (a set of keys or a predicate)?"""
        pred = targets if callable(targets) else (lambda k: k in targets)
        seen = self.reachable([key], bound)
        for k in seen:
            if k != key and pred(k):
                return self.path_to(seen, k)
        return None

    def callers_of(self, pred):
        """[(body, bb, terminator)] for call sites whose possible callees satisfy pred."""
        out = []
        for b in self.facts.all_bodies:
            for bi, blk in enumerate(b.blocks):
                t = blk["t"]
                if t["k"] == "call":
                    ks = self.callees_of_call(t)
                    dk = declared_key(t["f"])
                    if dk:
                        ks = ks | {dk}
                    if any(pred(k) for k in ks):
                        out.append((b, bi, t))
        return out


def _rv_operands(rv):
    k = rv["k"]
    if k in ("use", "cast", "repeat", "un"):
        return [rv["a"]]
    if k == "bin":
        return [rv["a"], rv["b"]]
    if k == "agg":
        return rv["ops"]
    return []


# ------------------------------------------------------------------------------------------------
# Helpers shared by the property rules
# ------------------------------------------------------------------------------------------------
import re as _re


def stable(key):
    """Closure indices shift when closures are added above: key closures by their parent only."""
    return _re.sub(r"\{closure#\d+\}", "{closure}", key) if key else key


TRY_BRANCH = {"std::ops::Try::branch", "<std::result::Result as std::ops::Try>::branch",
              "<std::option::Option as std::ops::Try>::branch"}


def _operands_of_rvalue(rv):
    k = rv["k"]
    if k in ("use", "cast", "repeat", "un"):
        return [rv["a"]]
    if k == "bin":
        return [rv["a"], rv["b"]]
    if k == "agg":
        return list(rv["ops"])
    if k in ("ref", "rawptr", "discr"):
        return [["c", rv["p"]]]
    return []


def uses_of_local(body, local):
    """[(bb, kind)] for every read of `local` (not counting StorageDead / plain drop as 'read')."""
    out = []
    for bi, blk in enumerate(body.blocks):
        if blk.get("cleanup"):
            continue
        for s in blk["s"]:
            if s["k"] == "assign":
                for o in _operands_of_rvalue(s["rv"]):
                    pl = op_place(o)
                    if pl and pl[0] == local:
                        out.append((bi, "read"))
                # index projections on the lhs read the local too
                if s["p"][0] == local and s["p"][1]:
                    out.append((bi, "partial-write"))
        t = blk["t"]
        k = t["k"]
        if k == "call":
            for a in t["args"]:
                pl = op_place(a)
                if pl and pl[0] == local:
                    out.append((bi, "arg"))
            if "indirect" in t["f"]:
                pl = op_place(t["f"]["indirect"])
                if pl and pl[0] == local:
                    out.append((bi, "callee"))
        elif k == "switch":
            pl = op_place(t["d"])
            if pl and pl[0] == local:
                out.append((bi, "switch"))
        elif k == "drop":
            if t["p"][0] == local:
                out.append((bi, "drop"))
        elif k == "assert":
            pl = op_place(t["c"])
            if pl and pl[0] == local:
                out.append((bi, "assert"))
    if local == 0:
        out.append((-1, "return"))
    return out


def result_tests(body, flow, sb):
    """If switch `sb` tests the discriminant of a Result/Option/ControlFlow value: returns
    (kind, calls, labels) where calls = non-transparent calls that produced the value and
    labels maps each outgoing edge label to the set of discriminant values it admits."""
    t = body.blocks[sb]["t"]
    info = switch_predicate(body, flow, sb)
    if not info["discr_of"]:
        return None
    local = info["discr_of"][0]
    ty = body.locals[local]
    base = ty.lstrip("&").replace("mut ", "")
    if base.startswith("std::result::Result<"):
        kind = "Result"
    elif base.startswith("std::ops::ControlFlow<"):
        kind = "ControlFlow"
    elif base.startswith("std::option::Option<"):
        kind = "Option"
    else:
        return None
    calls = {c for c in flow.origin_calls(["c", [local, []]]) if not is_transparent(c) and c not in TRY_BRANCH}
    listed = {v for v, _ in t["arms"]}
    labels = {v: {v} for v in listed}
    labels["else"] = {0, 1} - listed
    return kind, calls, labels


def success_blocks(body, flow, cfg, callee_pred):
    """Blocks that are only reached after a call satisfying `callee_pred` returned Ok/Continue/Some
    (edge-dominated by the success edge of a discriminant test on that call's result)."""
    ef = cfg.edge_facts()
    succ_edges = set()
    fail_edges = set()
    for sb in cfg.reach:
        if body.blocks[sb]["t"]["k"] != "switch":
            continue
        rt = result_tests(body, flow, sb)
        if not rt:
            continue
        kind, calls, labels = rt
        if not any(callee_pred(c) for c in calls):
            continue
        okval = 1 if kind == "Option" else 0
        for lab, vals in labels.items():
            if vals == {okval}:
                succ_edges.add((sb, lab))
            elif vals and okval not in vals:
                fail_edges.add((sb, lab))
    ok = {b for b in cfg.reach if ef.get(b, frozenset()) & succ_edges}
    bad = {b for b in cfg.reach if ef.get(b, frozenset()) & fail_edges}
    return ok, bad


def bool_edge_blocks(body, flow, cfg, callee_pred):
    """(true_blocks, false_blocks): blocks edge-dominated by the true / false outcome of a switch on a
    bool whose value is the (possibly negated) result of a call satisfying callee_pred."""
    ef = cfg.edge_facts()
    t_edges, f_edges = set(), set()
    for sb in cfg.reach:
        t = body.blocks[sb]["t"]
        if t["k"] != "switch" or t["dty"] != "bool":
            continue
        info = switch_predicate(body, flow, sb)
        direct = direct_call_of_switch(body, flow, sb)
        if direct is None or not callee_pred(direct):
            continue
        flip = info["flips"]
        for lab, _tgt in cfg.succ[sb]:
            if lab == 0:
                val = False
            elif lab == 1:
                val = True
            elif lab == "else":
                listed = {v for v, _ in t["arms"]}
                if listed == {0}:
                    val = True
                elif listed == {1}:
                    val = False
                else:
                    continue
            else:
                continue
            if flip:
                val = not val
            (t_edges if val else f_edges).add((sb, lab))
    tb = {b for b in cfg.reach if ef.get(b, frozenset()) & t_edges}
    fb = {b for b in cfg.reach if ef.get(b, frozenset()) & f_edges}
    return tb, fb


def direct_call_of_switch(body, flow, sb):
    """The call whose result is switched on directly (through moves/copies/Not), else None."""
    if body.blocks[sb]["t"]["k"] != "switch":
        return None
    op = body.blocks[sb]["t"]["d"]
    for _ in range(20):
        pl = op_place(op)
        if pl is None:
            return None
        ds = flow.defs.get(pl[0], [])
        if len(ds) != 1:
            return None
        bi, si, _p, payload = ds[0]
        if si == "call":
            return callee_key(payload["f"])
        rv = payload
        if rv["k"] == "un" and rv["op"] == "Not":
            op = rv["a"]
            continue
        if rv["k"] == "use":
            npl = op_place(rv["a"])
            if npl and any(x.startswith(".") for x in npl[1]) and not all(x in ("*",) or x.startswith("@") or x == ".0" for x in npl[1]):
                return None  # a field read, not the call's result itself
            op = rv["a"]
            continue
        return None
    return None


def blocks_calling(body, prog, pred, transitive_bound=0):
    """Blocks of `body` whose call terminator may invoke a callee satisfying pred (directly, or
    transitively within `transitive_bound` levels)."""
    out = []
    for bi, blk in enumerate(body.blocks):
        if blk.get("cleanup"):
            continue
        t = blk["t"]
        if t["k"] != "call":
            continue
        ks = prog.callees_of_call(t)
        dk = declared_key(t["f"])
        if dk:
            ks = ks | {dk}
        hit = any(pred(k) for k in ks)
        if not hit and transitive_bound:
            for k in ks:
                if prog.reaches(k, pred, bound=transitive_bound):
                    hit = True
                    break
        if hit:
            out.append(bi)
    return out


def return_defs(body, flow):
    """Definitions of the return place _0: list of (bb, kind, payload)."""
    return flow.defs.get(0, [])


def place_chain(flow, op, max_depth=12):
    """Field names (and the root local) met while following an operand back through refs, derefs,
    copies and transparent calls: `&(*self).creator` -> (['creator'], root_local).
    Returns (fields_in_order_outer_to_inner, set_of_root_locals)."""
    fields = []
    roots = set()

    def walk(local, proj, depth):
        for p in proj:
            if p.startswith(".") or p.startswith("@"):
                fields.append(p[1:] if p.startswith(".") else p)
        if depth > max_depth:
            roots.add(local)
            return
        ds = flow.defs.get(local, [])
        if not ds:
            roots.add(local)
            return
        progressed = False
        for bi, si, lproj, payload in ds:
            if lproj:
                continue
            if si == "call":
                key = callee_key(payload["f"])
                if is_transparent(key) or is_transparent(declared_key(payload["f"])):
                    a = payload["args"][0] if payload["args"] else None
                    pl = op_place(a) if a else None
                    if pl:
                        progressed = True
                        walk(pl[0], pl[1], depth + 1)
                continue
            rv = payload
            if rv["k"] in ("ref", "rawptr"):
                progressed = True
                walk(rv["p"][0], rv["p"][1], depth + 1)
            elif rv["k"] in ("use", "cast"):
                pl = op_place(rv["a"])
                if pl:
                    progressed = True
                    walk(pl[0], pl[1], depth + 1)
        if not progressed:
            roots.add(local)

    pl = op_place(op)
    if pl:
        walk(pl[0], pl[1], 0)
    return fields, roots


def switch_bool_labels(body, flow, cfg, sb):
    """For a switch on a bool (possibly negated): {edge label: truth value of the un-negated source}."""
    t = body.blocks[sb]["t"]
    if t["k"] != "switch" or t["dty"] != "bool":
        return {}
    info = switch_predicate(body, flow, sb)
    out = {}
    listed = {v for v, _ in t["arms"]}
    for lab, _tgt in cfg.succ[sb]:
        if lab == 0:
            val = False
        elif lab == 1:
            val = True
        elif lab == "else":
            if listed == {0}:
                val = True
            elif listed == {1}:
                val = False
            else:
                continue
        else:
            continue
        if info["flips"]:
            val = not val
        out[lab] = val
    return out


def switch_source_call(body, flow, sb):
    """(callee key, call block, terminator) of the call whose result the switch tests directly."""
    if body.blocks[sb]["t"]["k"] != "switch":
        return None
    op = body.blocks[sb]["t"]["d"]
    for _ in range(20):
        pl = op_place(op)
        if pl is None:
            return None
        ds = flow.defs.get(pl[0], [])
        if len(ds) != 1:
            return None
        bi, si, _p, payload = ds[0]
        if si == "call":
            return callee_key(payload["f"]), bi, payload
        rv = payload
        if rv["k"] == "un" and rv["op"] == "Not":
            op = rv["a"]
            continue
        if rv["k"] == "use":
            npl = op_place(rv["a"])
            if npl and any(x.startswith(".") for x in npl[1]) and not all(x in ("*",) or x.startswith("@") or x == ".0" for x in npl[1]):
                return None  # a field read, not the call's result itself
            op = rv["a"]
            continue
        return None
    return None


# ---- type-aware helpers (need ADT headers) -------------------------------------------------------
def _strip_ref(ty):
    ty = ty.strip()
    changed = True
    while changed:
        changed = False
        if ty.startswith("&"):
            ty = ty[1:].lstrip()
            if ty.startswith("'"):
                ty = ty.split(" ", 1)[1] if " " in ty else ty
            if ty.startswith("mut "):
                ty = ty[4:]
            changed = True
        for w in ("std::boxed::Box<", "std::sync::Arc<", "std::rc::Rc<"):
            if ty.startswith(w) and ty.endswith(">"):
                ty = ty[len(w):-1]
                changed = True
    return ty


def _adt_lookup(facts, ty):
    return facts.adt(norm_path(_strip_ref(ty)))


def place_type(facts, body, place):
    """Type string of a place, following field projections through workspace ADT definitions."""
    local, proj = place
    ty = body.locals[local]
    variant = None
    for p in proj:
        if p == "*":
            ty = _strip_ref(ty) if ty.lstrip().startswith("&") or ty.startswith(("std::boxed::Box<", "std::sync::Arc<")) else ty
            continue
        if p.startswith("@"):
            variant = p[1:]
            continue
        if p.startswith("."):
            adt = _adt_lookup(facts, ty)
            if adt is None:
                return None
            vs = adt["variants"]
            v = None
            if variant is not None:
                v = next((x for x in vs if x["name"] == variant), None)
            elif len(vs) == 1:
                v = vs[0]
            if v is None:
                return None
            f = next((x for x in v["fields"] if x["name"] == p[1:]), None)
            if f is None:
                return None
            ty = f["ty"]
            variant = None
            continue
        return None
    return ty


def enum_switch(facts, body, flow, cfg, sb):
    """For a switch on the discriminant of a workspace enum (or Option/Result):
    (adt path, {edge label: frozenset(variant names)}) else None."""
    t = body.blocks[sb]["t"]
    if t["k"] != "switch":
        return None
    info = switch_predicate(body, flow, sb)
    if not info["discr_of"]:
        return None
    ty = place_type(facts, body, info["discr_of"])
    if ty is None:
        return None
    base = norm_path(_strip_ref(ty))
    if base == "std::option::Option":
        names = ["None", "Some"]
    elif base == "std::result::Result":
        names = ["Ok", "Err"]
    elif base == "std::ops::ControlFlow":
        names = ["Continue", "Break"]
    else:
        adt = facts.adt(base)
        if adt is None or adt["kind"] != "Enum":
            return None
        names = [v["name"] for v in adt["variants"]]
    listed = set()
    out = {}
    for v, _tgt in t["arms"]:
        if v < len(names):
            out[v] = frozenset([names[v]])
            listed.add(names[v])
    out["else"] = frozenset(n for n in names if n not in listed)
    return base, out


def variant_blocks(facts, body, flow, cfg, adt_path, variants):
    """Blocks only reached when a value of enum `adt_path` was matched as one of `variants`
    (edge-dominated by such an arm of some discriminant switch on that enum; arms sharing a target
    count when all of them are within `variants`)."""
    ef = cfg.edge_facts()
    edges = set()
    ok_labels = {}
    for sb in cfg.reach:
        es = enum_switch(facts, body, flow, cfg, sb)
        if not es or es[0] != adt_path:
            continue
        for lab, names in es[1].items():
            if names and names <= frozenset(variants):
                edges.add((sb, lab))
                ok_labels.setdefault(sb, set()).add(str(lab))
    out = set()
    for b in cfg.reach:
        fs = ef.get(b, frozenset())
        if fs & edges:
            out.add(b)
            continue
        for (sb, lab) in fs:
            if isinstance(lab, tuple) and lab and lab[0] == "any" and sb in ok_labels and set(lab[1]) <= ok_labels[sb]:
                out.add(b)
                break
    return out


# ---- unified switch-source resolution (handles `!x`, `anyhow::__private::not(x)`, copies) ----------
NOT_FNS = {"anyhow::__private::not", "std::ops::Not::not", "<bool as std::ops::Not>::not"}


def switch_chain(body, flow, sb):
    """-> (kind, payload, bb, flips): what the bool switched on in `sb` is, after stripping negations
    and copies. kind: 'call' (payload = terminator), 'bin' (payload = rvalue), 'place' (payload = place
    with field projections), None."""
    t = body.blocks[sb]["t"]
    if t["k"] != "switch":
        return None, None, None, 0
    op = t["d"]
    flips = 0
    for _ in range(24):
        pl = op_place(op)
        if pl is None:
            return None, None, None, flips
        if any(x.startswith(".") for x in pl[1]) and not all(x == "*" or x.startswith("@") or x == ".0" for x in pl[1]):
            return "place", pl, None, flips
        ds = flow.defs.get(pl[0], [])
        if len(ds) != 1:
            return None, None, None, flips
        bi, si, _p, payload = ds[0]
        if si == "call":
            key = callee_key(payload["f"])
            if key in NOT_FNS and payload["args"]:
                flips ^= 1
                op = payload["args"][0]
                continue
            return "call", payload, bi, flips
        rv = payload
        if rv["k"] == "un" and rv["op"] == "Not":
            flips ^= 1
            op = rv["a"]
            continue
        if rv["k"] == "use":
            op = rv["a"]
            continue
        if rv["k"] == "bin":
            return "bin", rv, bi, flips
        return None, None, None, flips
    return None, None, None, flips


def _switch_source_call2(body, flow, sb):
    k, payload, bi, _f = switch_chain(body, flow, sb)
    if k == "call":
        return callee_key(payload["f"]), bi, payload
    return None


def _direct_call_of_switch2(body, flow, sb):
    r = _switch_source_call2(body, flow, sb)
    return r[0] if r else None


def _switch_bool_labels2(body, flow, cfg, sb):
    t = body.blocks[sb]["t"]
    if t["k"] != "switch" or t["dty"] != "bool":
        return {}
    _k, _p, _b, flips = switch_chain(body, flow, sb)
    out = {}
    listed = {v for v, _ in t["arms"]}
    for lab, _tgt in cfg.succ[sb]:
        if lab == 0:
            val = False
        elif lab == 1:
            val = True
        elif lab == "else":
            if listed == {0}:
                val = True
            elif listed == {1}:
                val = False
            else:
                continue
        else:
            continue
        out[lab] = (not val) if flips else val
    return out


switch_source_call = _switch_source_call2
direct_call_of_switch = _direct_call_of_switch2
switch_bool_labels = _switch_bool_labels2


def bool_edge_blocks(body, flow, cfg, callee_pred):
    """(true_blocks, false_blocks): blocks edge-dominated by the true / false outcome of a call
    satisfying callee_pred whose (possibly negated) result is switched on."""
    ef = cfg.edge_facts()
    t_edges, f_edges = set(), set()
    for sb in cfg.reach:
        src = switch_source_call(body, flow, sb)
        if not src or not callee_pred(src[0]):
            continue
        for lab, v in switch_bool_labels(body, flow, cfg, sb).items():
            (t_edges if v else f_edges).add((sb, lab))
    tb = {b for b in cfg.reach if ef.get(b, frozenset()) & t_edges}
    fb = {b for b in cfg.reach if ef.get(b, frozenset()) & f_edges}
    return tb, fb


def bool_edges_of(body, flow, cfg, callee_pred):
    """(true_edges, false_edges): switch edges taken when a call satisfying callee_pred returned true / false."""
    t_edges, f_edges = set(), set()
    for sb in cfg.reach:
        src = switch_source_call(body, flow, sb)
        if not src or not callee_pred(src[0]):
            continue
        for lab, v in switch_bool_labels(body, flow, cfg, sb).items():
            (t_edges if v else f_edges).add((sb, lab))
    return t_edges, f_edges


def field_stores(body, field):
    """[(bb, stmt)] assignments whose destination's last projection is `.field`"""
    out = []
    for bi, blk in enumerate(body.blocks):
        if blk.get("cleanup"):
            continue
        for s in blk["s"]:
            if s["k"] == "assign" and s["p"][1] and s["p"][1][-1] == "." + field:
                out.append((bi, s))
    return out


# ---------------------------------------------------------------------------------------------------------------
# symbolic expression reconstruction (single-definition locals) and decision atoms

def expr_tree(program, body, op, depth=8, expand_params=2, _seen=None):
    """Reconstructs the expression an operand evaluates to as a nested tuple:
       ('k', value|text) | ('param', name, proj) | ('call', key, [args]) | ('bin', op, a, b) | ('un', op, a)
       | ('proj', inner, proj) | ('agg', name, [ops]) | ('phi',) | ('?',)
    Locals with exactly one definition are inlined; transparent calls (deref/into/clone/...) are skipped;
    a parameter is replaced by the caller's argument expression when the function has exactly one call
    site in the workspace (up to `expand_params` levels)."""
    flow = program.flow(body)
    if op[0] == "k":
        c = op[1]
        return ("k", c.get("val") if c.get("val") is not None else c.get("text"))
    local, proj = op[1]
    return _tree_place(program, body, flow, local, list(proj), depth, expand_params)


_ALTS = [False]


class alternatives:
    """with alternatives(): expr_tree also expands multi-definition locals and parameters of functions with up
    to four call sites into ('alt', name, [trees])"""

    def __enter__(self):
        self.prev = _ALTS[0]
        _ALTS[0] = True

    def __exit__(self, *a):
        _ALTS[0] = self.prev


def _fields(proj):
    return "".join(p for p in proj if p.startswith(".") or p.startswith("@"))


def _tree_place(program, body, flow, local, proj, depth, expand):
    if depth <= 0:
        return ("?",)
    argc = body.d["argc"]
    if 1 <= local <= argc and not flow.defs.get(local):
        name = body.local_name(local) or f"_{local}"
        if expand > 0 and body.d["kind"] != "Closure":
            sites = program.callers_of(lambda k, kk=body.key: k == kk)
            if 1 <= len(sites) <= (4 if _ALTS[0] else 1):
                alts = []
                for cb, cbi, ct in sites:
                    if local - 1 < len(ct["args"]):
                        alts.append(expr_tree(program, cb, ct["args"][local - 1], depth - 1, expand - 1))
                if len(alts) == len(sites):
                    inner = alts[0] if len(alts) == 1 else ("alt", name, alts)
                    f = _fields(proj)
                    return ("proj", inner, f) if f else inner
        return ("param", name, _fields(proj))
    ds = flow.defs.get(local, [])
    if len(ds) != 1:
        nm = body.local_name(local) or f"_{local}"
        if _ALTS[0] and 2 <= len(ds) <= 4 and depth > 2 and all(not d[2] for d in ds):
            alts = [_tree_def(program, body, flow, d, [], depth - 2, expand) for d in ds]
            f = _fields(proj)
            t = ("alt", nm, alts)
            return ("proj", t, f) if f else t
        return ("phi", nm, _fields(proj))
    return _tree_def(program, body, flow, ds[0], proj, depth, expand)


def _tree_def(program, body, flow, d, proj, depth, expand):
    bi, si, dproj, payload = d
    f = _fields(proj)

    def wrap(x):
        if not f:
            return x
        if x[0] == "agg":
            # field of a freshly built aggregate: pick the operand
            name, ops, fields = x[1], x[2], x[3] if len(x) > 3 else None
            first = [p for p in proj if p.startswith(".")][:1]
            if fields and first and first[0][1:] in fields:
                sub = ops[fields.index(first[0][1:])]
                rest = f[len(first[0]):] if f.startswith(first[0]) else ""
                return ("proj", sub, rest) if rest else sub
        if x[0] == "param":
            return ("param", x[1], x[2] + f)
        if x[0] == "proj":
            return ("proj", x[1], x[2] + f)
        return ("proj", x, f)
    if si == "call":
        t = payload
        key = callee_key(t["f"]) or declared_key(t["f"]) or "?"
        if (is_transparent(key) or is_transparent(declared_key(t["f"]))) and t["args"]:
            return wrap(expr_tree(program, body, t["args"][0], depth - 1, expand))
        return wrap(("call", key, [expr_tree(program, body, a, depth - 1, expand) for a in t["args"]]))
    rv = payload
    k = rv["k"]
    if k in ("use", "cast"):
        return wrap(expr_tree(program, body, rv["a"], depth - 1, expand))
    if k in ("ref", "rawptr"):
        return wrap(_tree_place(program, body, flow, rv["p"][0], list(rv["p"][1]), depth - 1, expand))
    if k == "discr":
        return ("un", "discr", _tree_place(program, body, flow, rv["p"][0], list(rv["p"][1]), depth - 1, expand))
    if k == "bin":
        return wrap(("bin", rv["op"], expr_tree(program, body, rv["a"], depth - 1, expand), expr_tree(program, body, rv["b"], depth - 1, expand)))
    if k == "un":
        return wrap(("un", rv["op"], expr_tree(program, body, rv["a"], depth - 1, expand)))
    if k == "agg":
        name = rv.get("adt") or rv.get("closure") or rv["ak"]
        return wrap(("agg", (norm_path(name) + "::" + str(rv.get("variant"))) if rv["ak"] == "adt" else name, [expr_tree(program, body, o, depth - 1, expand) for o in rv["ops"]], rv.get("fields")))
    return ("?",)


def simplify(t):
    """Sub(Add(a, b), a) -> b ; Add(Sub(a, b), b) -> a ; tuple field `.0` of checked ops."""
    if not isinstance(t, tuple):
        return t
    if t[0] == "bin":
        a, b = simplify(t[2]), simplify(t[3])
        op = t[1].replace("WithOverflow", "").replace("Unchecked", "")
        if op == "Sub" and a[0] == "bin" and a[1] in ("Add",):
            if render(a[2]) == render(b):
                return a[3]
            if render(a[3]) == render(b):
                return a[2]
        return ("bin", op, a, b)
    if t[0] == "proj":
        inner = simplify(t[1])
        if inner[0] == "bin" and t[2] == ".0":
            return inner
        if inner[0] == "param":
            return ("param", inner[1], inner[2] + t[2])
        return ("proj", inner, t[2])
    if t[0] == "call":
        return ("call", t[1], [simplify(x) for x in t[2]])
    if t[0] == "un":
        return ("un", t[1], simplify(t[2]))
    if t[0] == "agg":
        return ("agg", t[1], [simplify(x) for x in t[2]], t[3] if len(t) > 3 else None)
    if t[0] == "alt":
        return ("alt", t[1], [simplify(x) for x in t[2]])
    return t


def render(t):
    k = t[0]
    if k == "k":
        return str(t[1])
    if k == "param":
        return t[1] + t[2]
    if k == "call":
        return stable(t[1]).split("::")[-1] + "(" + ", ".join(render(x) for x in t[2]) + ")"
    if k == "bin":
        return f"{t[1]}({render(t[2])}, {render(t[3])})"
    if k == "un":
        return f"{t[1]}({render(t[2])})"
    if k == "proj":
        return render(t[1]) + t[2]
    if k == "agg":
        return str(t[1]).split("::")[-1] + "{" + ", ".join(render(x) for x in t[2]) + "}"
    if k == "phi":
        return f"phi:{t[1]}{t[2]}"
    if k == "alt":
        return "{" + " | ".join(render(x) for x in t[2]) + "}"
    return "?"


def tree_leaves(t, out=None):
    """[('call', key) | ('param', name+proj) | ('k', v) | ('phi', ..)] leaves and call nodes of the tree"""
    out = [] if out is None else out
    k = t[0]
    if k == "call":
        out.append(("call", t[1]))
        for x in t[2]:
            tree_leaves(x, out)
    elif k == "bin":
        tree_leaves(t[2], out); tree_leaves(t[3], out)
    elif k == "un":
        tree_leaves(t[2], out)
    elif k == "proj":
        if t[1][0] in ("call",):
            out.append(("field", t[2]))
        tree_leaves(t[1], out)
    elif k == "agg":
        for x in t[2]:
            tree_leaves(x, out)
    elif k == "param":
        out.append(("param", t[1] + t[2]))
    elif k == "k":
        out.append(("k", t[1]))
    elif k == "alt":
        for x in t[2]:
            tree_leaves(x, out)
    else:
        out.append((k,) + tuple(t[1:]))
    return out


def deciders(cfg, a_blocks, b_blocks):
    """Switch blocks at which the choice between reaching A and reaching B is made: blocks from which both are
    reachable and whose successors (ignoring those reaching neither) differ in which of A/B they can reach.
    -> [(switch_bb, {label: (reachesA, reachesB)})]"""
    a_blocks, b_blocks = set(a_blocks), set(b_blocks)
    memo = {}

    def can(b):
        if b not in memo:
            r = cfg.reachable_from(b)
            memo[b] = (bool(r & a_blocks), bool(r & b_blocks))
        return memo[b]
    out = []
    for sb in sorted(cfg.reach):
        if cfg.body.blocks[sb]["t"]["k"] != "switch":
            continue
        if sb in a_blocks or sb in b_blocks:
            pass
        ca = can(sb)
        if not (ca[0] and ca[1]):
            continue
        labs = {}
        for lab, tgt in cfg.succ[sb]:
            c = can(tgt)
            if c[0] or c[1]:
                labs[lab] = c
        if len(set(labs.values())) > 1:
            out.append((sb, labs))
    return out


def sccs(edges, nodes=None):
    """Tarjan (iterative). edges: node -> iterable of nodes. Returns list of components (lists)."""
    index = {}
    low = {}
    onstack = set()
    stack = []
    out = []
    counter = [0]
    nodes = list(edges.keys()) if nodes is None else list(nodes)
    for root in nodes:
        if root in index:
            continue
        work = [(root, iter(edges.get(root, ())))]
        index[root] = low[root] = counter[0]; counter[0] += 1
        stack.append(root); onstack.add(root)
        while work:
            v, it = work[-1]
            advanced = False
            for w in it:
                if w not in index:
                    index[w] = low[w] = counter[0]; counter[0] += 1
                    stack.append(w); onstack.add(w)
                    work.append((w, iter(edges.get(w, ()))))
                    advanced = True
                    break
                elif w in onstack:
                    low[v] = min(low[v], index[w])
            if advanced:
                continue
            work.pop()
            if work:
                u = work[-1][0]
                low[u] = min(low[u], low[v])
            if low[v] == index[v]:
                comp = []
                while True:
                    w = stack.pop(); onstack.discard(w); comp.append(w)
                    if w == v:
                        break
                out.append(comp)
    return out
