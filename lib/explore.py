#!/usr/bin/env python3
"""Exploration helper: ./lib/explore.py callers <regex> | body <key> | calls <key>"""
import sys, os, re, json
sys.path.insert(0, os.path.dirname(os.path.abspath(__file__)))
import facts, mir
f = facts.Facts(crates=tuple(os.environ.get("CRATES","libwild-lib,linker_utils-lib,wild-bin").split(",")))
P = mir.Program(f)
cmd = sys.argv[1]
if cmd == "callers":
    rx = re.compile(sys.argv[2])
    for b, bi, t in P.callers_of(lambda k: bool(rx.search(k))):
        print(f"{b.file}:{t['l']}  {b.key}  bb{bi} -> {mir.callee_key(t['f'])}")
elif cmd == "body":
    for b in f.bodies.get(sys.argv[2], []) or f.find(sys.argv[2]):
        print("==", b.key, b.file, b.line, "argc", b.d["argc"])
        for i, ty in enumerate(b.locals):
            print(f"  _{i}: {ty}  {b.local_name(i) or ''}")
        for bi, blk in enumerate(b.blocks):
            print(f" bb{bi}{' (cleanup)' if blk['cleanup'] else ''}:")
            for s in blk["s"]:
                print("    ", json.dumps(s)[:300])
            print("   T", json.dumps(blk["t"])[:600])
elif cmd == "calls":
    for b in f.bodies.get(sys.argv[2], []) or f.find(sys.argv[2]):
        print("==", b.key)
        for bi, blk in enumerate(b.blocks):
            t = blk["t"]
            if t["k"] == "call" and not blk["cleanup"]:
                print(f"  bb{bi} l{t['l']} {mir.callee_key(t['f'])}  decl={mir.declared_key(t['f'])} ->{t['to']}")
elif cmd == "keys":
    rx = re.compile(sys.argv[2])
    for k in f.bodies:
        if rx.search(k): print(k)
