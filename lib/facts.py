"""Fact base: runs the mirfacts driver over /repo's current working tree (cached by tree hash) and
loads the per-crate MIR/HIR facts.

Nothing here runs wild or any test: the driver is rustc with an `after_analysis` callback, under
`cargo +nightly check`.
"""
import fcntl
import hashlib
import json
import os
import pickle
import shutil
import subprocess
import sys
import time

VERIF = os.path.dirname(os.path.dirname(os.path.abspath(__file__)))
REPO = os.environ.get("WILD_REPO", "/repo")
CACHE = os.environ.get("VERIF_CACHE", os.path.join(VERIF, ".cache"))
DRIVER_DIR = os.path.join(VERIF, "engines", "mirfacts")
DRIVER = os.path.join(DRIVER_DIR, "target", "release", "mirfacts")

# Build configurations the repository defines. `default` is what ships.
CONFIGS = {
    "default": ["--workspace"],
    "plugins": ["--workspace", "--features", "libwild/plugins"],
    "nofork": ["-p", "libwild", "--no-default-features"],
}

EXPECTED_FILES = {
    "default": ["libwild-lib", "linker_utils-lib", "wild-bin", "linker_layout-lib", "linker_trace-lib", "linker_diff-lib"],
    "plugins": ["libwild-lib", "linker_utils-lib", "wild-bin"],
    "nofork": ["libwild-lib", "linker_utils-lib"],
}

SKIP_DIRS = {"target", ".git", "external_test_suites", "nix", "docker", "fakes", "fakes-debug"}


def _nightly_sysroot():
    return subprocess.check_output(["rustc", "+nightly", "--print", "sysroot"], text=True).strip()


def tree_hash(repo=None):
    """Hash of everything that can change the analysed program, plus the driver's own sources."""
    repo = repo or REPO
    h = hashlib.sha256()
    files = []
    for root, dirs, names in os.walk(repo):
        dirs[:] = sorted(d for d in dirs if d not in SKIP_DIRS)
        for n in sorted(names):
            if n.endswith(".rs") or n in ("Cargo.toml", "Cargo.lock", "build.rs") or n.endswith(".toml"):
                files.append(os.path.join(root, n))
    for f in files:
        h.update(os.path.relpath(f, repo).encode())
        h.update(b"\0")
        with open(f, "rb") as fh:
            h.update(fh.read())
        h.update(b"\0")
    for root, dirs, names in os.walk(os.path.join(DRIVER_DIR, "src")):
        for n in sorted(names):
            with open(os.path.join(root, n), "rb") as fh:
                h.update(fh.read())
    return h.hexdigest()[:20]


def build_driver():
    env = dict(os.environ, CARGO_NET_OFFLINE="true")
    r = subprocess.run(["cargo", "build", "--release", "--offline"], cwd=DRIVER_DIR, env=env,
                       stdout=subprocess.PIPE, stderr=subprocess.STDOUT, text=True)
    if r.returncode != 0 or not os.path.exists(DRIVER):
        sys.stderr.write(r.stdout)
        raise RuntimeError("mirfacts driver failed to build")


def _driver_stale():
    if not os.path.exists(DRIVER):
        return True
    t = os.path.getmtime(DRIVER)
    for root, _d, names in os.walk(os.path.join(DRIVER_DIR, "src")):
        for n in names:
            if os.path.getmtime(os.path.join(root, n)) > t:
                return True
    return False


class Lock:
    def __init__(self, name="lock"):
        os.makedirs(CACHE, exist_ok=True)
        self.path = os.path.join(CACHE, name)

    def __enter__(self):
        self.fh = open(self.path, "w")
        fcntl.flock(self.fh, fcntl.LOCK_EX)
        return self

    def __exit__(self, *a):
        fcntl.flock(self.fh, fcntl.LOCK_UN)
        self.fh.close()


def ensure_facts(config="default", repo=None):
    """Returns the directory holding the fact files for the current tree of `repo`."""
    repo = repo or REPO
    key = tree_hash(repo)
    out = os.path.join(CACHE, "facts", f"{key}-{config}")
    done = os.path.join(out, "DONE")
    if os.path.exists(done):
        return out
    with Lock():
        if os.path.exists(done):
            return out
        if _driver_stale():
            build_driver()
        if os.path.exists(out):
            shutil.rmtree(out)
        os.makedirs(out)
        target = os.path.join(CACHE, "target", config)
        os.makedirs(target, exist_ok=True)
        # cargo's freshness cache would skip the wrapper: drop the members' fingerprints.
        fp = os.path.join(target, "debug", ".fingerprint")
        if os.path.isdir(fp):
            for d in os.listdir(fp):
                if d.split("-")[0] in ("libwild", "linker", "wild", "benchmark") or d.startswith(("linker-", "wild-", "libwild-", "benchmark-")):
                    shutil.rmtree(os.path.join(fp, d), ignore_errors=True)
        env = dict(os.environ)
        env.update({
            "MIRFACTS_OUT": out,
            "LD_LIBRARY_PATH": os.path.join(_nightly_sysroot(), "lib"),
            "RUSTFLAGS": "-Zmir-opt-level=0 -Awarnings",
            "RUSTC_WORKSPACE_WRAPPER": DRIVER,
            "CARGO_TARGET_DIR": target,
            "CARGO_NET_OFFLINE": "true",
        })
        env.pop("RUSTC_WRAPPER", None)
        t0 = time.time()
        r = subprocess.run(["cargo", "+nightly", "check", "--offline"] + CONFIGS[config], cwd=repo, env=env,
                           stdout=subprocess.PIPE, stderr=subprocess.STDOUT, text=True)
        if r.returncode != 0:
            sys.stderr.write(r.stdout[-6000:])
            raise RuntimeError(f"fact extraction failed (cargo check exit {r.returncode}): the tree does not compile")
        for stem in EXPECTED_FILES[config]:
            for ext in (".mir.jsonl", ".hir.jsonl"):
                p = os.path.join(out, stem + ext)
                if not os.path.exists(p) or os.path.getsize(p) == 0:
                    raise RuntimeError(f"fact file missing after extraction: {p} (driver skipped?)")
        with open(done, "w") as fh:
            json.dump({"key": key, "config": config, "repo": repo, "wall_s": round(time.time() - t0, 1)}, fh)
        _prune_cache(keep=out)
    return out


def _prune_cache(keep, max_entries=12):
    base = os.path.join(CACHE, "facts")
    ents = [os.path.join(base, d) for d in os.listdir(base)]
    ents = [e for e in ents if e != keep]
    ents.sort(key=lambda p: os.path.getmtime(p))
    while len(ents) > max_entries:
        shutil.rmtree(ents.pop(0), ignore_errors=True)


def norm_path(p):
    """Strip generic arguments from a def-path string so keys survive generic-parameter edits:
    `a::B::<'x, T>::f` -> `a::B::f`; `<a::B<'x> as T<U>>::f` -> `<a::B as T>::f`."""
    if p is None:
        return None
    out = []
    i = 0
    n = len(p)
    # stack of booleans: True = kept angle (qualified-path opener), False = stripped generic list
    stack = []
    while i < n:
        c = p[i]
        if c == "<":
            prev = p[i - 1] if i > 0 else ""
            if i == 0 or prev in " (,&<[*":
                stack.append(True)
                if not any(s is False for s in stack[:-1]):
                    out.append(c)
            else:
                stack.append(False)
                # drop a preceding `::` (turbofish)
                if not any(s is False for s in stack[:-1]):
                    if len(out) >= 2 and out[-1] == ":" and out[-2] == ":":
                        out.pop()
                        out.pop()
            i += 1
            continue
        if c == ">" and stack and not (i > 0 and p[i - 1] == "-"):
            kept = stack.pop()
            if kept and not any(s is False for s in stack):
                out.append(c)
            i += 1
            continue
        if not any(s is False for s in stack):
            out.append(c)
        i += 1
    return "".join(out)


class Body:
    __slots__ = ("d", "key", "path", "crate", "blocks", "locals", "_preds", "_dom", "_names")

    def __init__(self, d):
        self.d = d
        self.path = d["path"]
        self.key = norm_path(d["path"])
        self.crate = d["crate"]
        self.blocks = d["blocks"]
        self.locals = d["locals"]
        self._preds = None
        self._dom = None
        self._names = None

    @property
    def file(self):
        return self.d["file"]

    @property
    def line(self):
        return self.d["line"]

    def names(self):
        """user variable name -> set of locals"""
        if self._names is None:
            m = {}
            for name, place in self.d["names"]:
                if not place[1]:
                    m.setdefault(name, set()).add(place[0])
            self._names = m
        return self._names

    def local_name(self, l):
        for name, place in self.d["names"]:
            if place[0] == l and not place[1]:
                return name
        return None


class Facts:
    """All bodies of the selected crates, keyed by normalised def-path."""

    def __init__(self, config="default", repo=None, crates=("libwild-lib", "linker_utils-lib", "wild-bin")):
        self.dir = ensure_facts(config, repo)
        self.config = config
        self.repo = repo or REPO
        crates = tuple(c for c in crates if c in EXPECTED_FILES[config])   # `nofork` builds libwild alone: no wild-bin
        self.crates = crates
        cache = os.path.join(self.dir, "index-" + "_".join(crates) + ".pickle")
        if os.path.exists(cache):
            with open(cache, "rb") as fh:
                data = pickle.load(fh)
        else:
            data = self._load()
            tmp = cache + f".{os.getpid()}.tmp"
            with open(tmp, "wb") as fh:
                pickle.dump(data, fh, protocol=pickle.HIGHEST_PROTOCOL)
            os.replace(tmp, cache)
        self.headers, bodies = data
        self.bodies = {}
        self.all_bodies = []
        for d in bodies:
            b = Body(d)
            self.all_bodies.append(b)
            self.bodies.setdefault(b.key, []).append(b)
        self._hir = None
        self._callers = None
        self._canonicalise_mir_names()

    def _canonicalise_mir_names(self):
        """The MIR debug names of locals follow the same reference naming as the HIR facts (see hir_body): for a function whose binding structure is
        unchanged, every renamed local is reported under its reference name. Only names are touched."""
        ref = _refnames()
        if not ref:
            return
        hir = self.hir()
        import re as _re
        maps = {}
        for b in self.all_bodies:
            fk = _re.sub(r"(::\{closure#\d+\})+$", "", b.key)
            if fk not in maps:
                m = None
                v = hir.get(fk)
                r = ref.get(fk)
                if v and r:
                    cur = [n for _i, n in hir_bindings(v[0])]
                    if len(cur) == len(r) and cur != list(r):
                        m = {}
                        bad = set()
                        curp = [(None, c) for c in cur]
                        for c, rr in zip(cur, r):
                            if not _is_rename(c, rr, curp, r):
                                continue
                            if c in m and m[c] != rr:
                                bad.add(c)
                            m[c] = rr
                        for c in bad:
                            m.pop(c, None)
                        m = {c: rr for c, rr in m.items() if c != rr} or None
                maps[fk] = m
            m = maps[fk]
            if m:
                b.d["names"] = [[m.get(name, name), place] for name, place in b.d["names"]]
                b._names = None

    def _load(self):
        headers = {}
        bodies = []
        for stem in self.crates:
            p = os.path.join(self.dir, stem + ".mir.jsonl")
            n = 0
            trailer = None
            with open(p) as fh:
                for line in fh:
                    d = json.loads(line)
                    if "header" in d:
                        headers[d["crate"]] = d
                    elif "trailer" in d:
                        trailer = d
                    else:
                        bodies.append(d)
                        n += 1
            if trailer is None or trailer["n_mir"] != n:
                raise RuntimeError(f"fact file {p} is truncated")
        return headers, bodies

    # --- lookup -------------------------------------------------------------------------------
    def body(self, key):
        """The unique body with this normalised path; None when absent."""
        bs = self.bodies.get(key)
        if not bs:
            return None
        return bs[0]

    def find(self, suffix):
        return [b for b in self.all_bodies if b.key.endswith(suffix)]

    def closures_of(self, key):
        return [b for b in self.all_bodies if b.d["kind"] == "Closure" and b.key.startswith(key + "::{closure")]

    def hir(self):
        if self._hir is None:
            cache = os.path.join(self.dir, "hir-" + "_".join(self.crates) + ".pickle")
            if os.path.exists(cache):
                with open(cache, "rb") as fh:
                    self._hir = pickle.load(fh)
            else:
                m = {}
                for stem in self.crates:
                    with open(os.path.join(self.dir, stem + ".hir.jsonl")) as fh:
                        for line in fh:
                            d = json.loads(line)
                            m.setdefault(norm_path(d["path"]), []).append(d)
                tmp = cache + f".{os.getpid()}.tmp"
                with open(tmp, "wb") as fh:
                    pickle.dump(m, fh, protocol=pickle.HIGHEST_PROTOCOL)
                os.replace(tmp, cache)
                self._hir = m
        return self._hir

    def hir_body(self, key, canonical=True):
        """HIR body facts of `key`. With canonical=True the *names* of local bindings are mapped back to the reference names recorded in
        lib/refnames.json when the function still has the same number of bindings (same binding structure): rules that read operator
        skeletons then do not depend on how locals are called - a pure rename is invisible to them. Any other change of the binding
        structure leaves the names as they are in the source."""
        v = self.hir().get(key)
        if not v:
            return None
        body = v[0]
        if not canonical:
            return body
        cache = self.__dict__.setdefault("_hir_canon", {})
        if key not in cache:
            cache[key] = _canonical_names(body, _refnames().get(key))
        return cache[key]

    def adt(self, path):
        for h in self.headers.values():
            for a in h["adts"]:
                if norm_path(a["path"]) == path:
                    return a
        return None

    def impls(self):
        for h in self.headers.values():
            for i in h["impls"]:
                yield i

    def consts(self):
        m = {}
        for h in self.headers.values():
            for c in h["consts"]:
                m[c["path"]] = c["val"]
        return m


_REFNAMES = None


def _refnames():
    global _REFNAMES
    if _REFNAMES is None and os.environ.get("VERIF_NO_REFNAMES"):
        _REFNAMES = {}          # development switch: measure which rules depend on names of locals
    if _REFNAMES is None:
        p = os.path.join(os.path.dirname(os.path.abspath(__file__)), "refnames.json")
        try:
            _REFNAMES = json.load(open(p))
        except (OSError, ValueError):
            _REFNAMES = {}
    return _REFNAMES


def _is_rename(cur_name, ref_name, cur, ref):
    """A binding counts as renamed when its current name does not occur in the reference naming of the function and the reference name at its
    position no longer occurs in the current one (so reordering two declarations is not mistaken for a rename)."""
    if cur_name == ref_name:
        return False
    cur_names = {n for _i, n in cur}
    return cur_name not in set(ref) and ref_name not in cur_names


def hir_bindings(body):
    """[(id, name)] of every local binding of a HIR body fact (parameters first, then patterns in source order)."""
    out = []
    seen = set()

    def walk(x):
        if isinstance(x, dict):
            if x.get("p") == "bind" and "id" in x and x["id"] not in seen:
                seen.add(x["id"])
                out.append((x["id"], x.get("name")))
            for v in x.values():
                walk(v)
        elif isinstance(x, list):
            for v in x:
                walk(v)
    walk(body.get("params"))
    walk(body.get("body"))
    return out


def _canonical_names(body, ref):
    if not ref:
        return body
    cur = hir_bindings(body)
    if len(cur) != len(ref) or [n for _i, n in cur] == list(ref):
        return body
    m = {i: r for (i, n), r in zip(cur, ref) if _is_rename(n, r, cur, ref)}
    if not m:
        return body

    def conv(x):
        if isinstance(x, dict):
            y = {k: conv(v) for k, v in x.items()}
            if x.get("p") == "bind" and x.get("id") in m:
                y["name"] = m[x["id"]]
            elif x.get("e") == "path" and x.get("res") == "Local" and x.get("id") in m:
                y["name"] = m[x["id"]]
            return y
        if isinstance(x, list):
            return [conv(v) for v in x]
        return x
    return conv(body)
