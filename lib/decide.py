"""Decision atoms: which predicate outcomes hold on every path to a block.

`atoms_at(P, body, block)` -> set of (atom, truth) for every boolean switch edge that dominates the block
(edge dominance, through materialised booleans: Cfg.edge_facts). An atom is a short stable description of
what the switch tested:
  call:<callee tail>[(<enum constant compared against>)]   e.g. call:Symbol::is_undefined, call:PartialEq::eq(Visibility::Hidden)
  place:<rendered place>                                     e.g. place:param4, place:(*_1).as_needed
  bin:<op>(<tree>,<tree>)
Enum-discriminant switches are reported as ('variant:<ADT>', frozenset(variant names)).
"""
from mir import (callee_key, enum_switch, expr_tree, op_place, render, simplify, stable, switch_bool_labels,
                 switch_chain)


def _tail(key, n=2):
    s = stable(key or "?")
    if s.startswith("<") and " as " in s:
        # <T as Trait>::method -> Trait::method
        tr = s[s.index(" as ") + 4:]
        tr = tr.replace(">::", "::", 1)
        s = tr
    parts = [p for p in s.split("::") if p]
    # drop generic args
    out = []
    for p in parts:
        if p.startswith("<"):
            continue
        out.append(p.split("<")[0])
    return "::".join(out[-n:])


def switch_atom(P, body, flow, sb):
    k, payload, _bi, _fl = switch_chain(body, flow, sb)
    if k == "call":
        key = callee_key(payload["f"]) or "?"
        name = _tail(key)
        extra = []
        for a in payload["args"]:
            for o in flow.origins(a):
                if o[0] == "agg" and o[2] == -1:
                    extra.append("::".join(o[1].split("::")[-2:]))
                elif o[0] == "agg":
                    extra.append("::".join(o[1].split("::")[-2:]))
        if name.endswith("PartialEq::eq") or name.endswith("PartialEq::ne") or extra:
            extra = sorted(set(extra))
            if extra:
                name += "(" + ",".join(extra) + ")"
        return "call:" + name
    if k == "place":
        pl = payload
        root = pl[0]
        nm = body.local_name(root) or (f"param{root}" if 1 <= root <= body.d["argc"] else f"_{root}")
        return "place:" + nm + "".join(x for x in pl[1] if x != "*")
    if k == "bin":
        tr = render(simplify(("bin", payload["op"], expr_tree(P, body, payload["a"], depth=5, expand_params=0),
                              expr_tree(P, body, payload["b"], depth=5, expand_params=0))))
        return "bin:" + tr
    # a bare local (parameter or copy of one)
    t = body.blocks[sb]["t"]
    pl = op_place(t["d"])
    if pl is not None:
        cur = pl
        for _ in range(12):
            root = cur[0]
            if 1 <= root <= body.d["argc"]:
                return "place:" + (body.local_name(root) or f"param{root}") + "".join(x for x in cur[1] if x != "*")
            ds = flow.defs.get(root, [])
            if len(ds) != 1 or ds[0][1] == "call":
                break
            rv = ds[0][3]
            if rv["k"] in ("use", "cast") and op_place(rv["a"]):
                cur = op_place(rv["a"])
                continue
            if rv["k"] == "un" and rv["op"] == "Not" and op_place(rv["a"]):
                cur = op_place(rv["a"])
                continue
            break
    return None


def all_edge_atoms(P, F, body):
    """{(switch block, label): (atom, truth)}"""
    flow, cfg = P.flow(body), P.cfg(body)
    out = {}
    for sb in cfg.reach:
        t = body.blocks[sb]["t"]
        if t["k"] != "switch":
            continue
        if t["dty"] == "bool":
            at = switch_atom(P, body, flow, sb)
            if at is None:
                continue
            for lab, v in switch_bool_labels(body, flow, cfg, sb).items():
                out[(sb, lab)] = (at, v)
        else:
            es = enum_switch(F, body, flow, cfg, sb)
            if es:
                adt, labs = es
                for lab, names in labs.items():
                    if names:
                        out[(sb, lab)] = ("variant:" + "::".join(adt.split("::")[-1:]), frozenset(names))
    return out


def atoms_at(P, F, body, block, _cache={}):
    ck = (id(P), body.key)
    if ck not in _cache:
        _cache[ck] = all_edge_atoms(P, F, body)
    ea = _cache[ck]
    ef = P.cfg(body).edge_facts().get(block, frozenset())
    return {ea[e] for e in ef if e in ea}


def const_returns(body, cfg):
    """[(block, value)] for every reachable assignment of a constant to the return place."""
    out = []
    for bi in sorted(cfg.reach):
        blk = body.blocks[bi]
        if blk.get("cleanup"):
            continue
        for s in blk["s"]:
            if s["k"] == "assign" and s["p"][0] == 0 and not s["p"][1] and s["rv"]["k"] == "use" and s["rv"]["a"][0] == "k":
                out.append((bi, s["rv"]["a"][1].get("val"), s["l"]))
    return out


def require(rep, rule, inst, have, need, detail, file, line):
    """need: iterable of (atom substring, truth). Each must be matched by some atom in `have`."""
    missing = []
    for sub, truth in need:
        if not any(sub in a and v == truth for a, v in have if isinstance(v, bool)):
            missing.append(f"{sub}={'true' if truth else 'false'}")
    rep.ob(rule, inst, not missing, detail + (f" — missing on some path: {', '.join(missing)}; have {sorted((a, v) for a, v in have if isinstance(v, bool))}" if missing else ""), file, line)
    return not missing


# ---------------------------------------------------------------------------------------------------------
# Boolean function of a loop-free body: path enumeration over decision atoms (finite abstraction, no solver).
class NotLoopFree(Exception):
    pass


def call_atom(P, body, flow, t):
    key = callee_key(t["f"]) or "?"
    name = _tail(key)
    args = []
    for a in t["args"]:
        if a[0] == "k":
            c = a[1]
            txt = (c.get("def") or c.get("text") or str(c.get("val")))
            m = None
            import re as _re
            m = _re.search(r"promoted\[(\d+)\]", c.get("text") or "")
            if m:
                leaves = [o[1] for o in flow._promoted_leaves(int(m.group(1))) if o[0] == "agg"]
                consts = [str(o[2] or o[1]) for o in flow._promoted_leaves(int(m.group(1))) if o[0] == "const"]
                txt = ",".join("::".join(x.split("::")[-2:]) for x in leaves) or ",".join(consts) or "promoted"
            else:
                txt = "::".join(str(txt).split("::")[-2:])
            args.append(txt)
        else:
            r = render(simplify(expr_tree(P, body, a, depth=4, expand_params=0)))

            def _prom(m):
                lv = flow._promoted_leaves(int(m.group(1)))
                ag = [o[1] for o in lv if o[0] == "agg"]
                ks = [str(o[2] or o[1]) for o in lv if o[0] == "const"]
                return ",".join("::".join(x.split("::")[-2:]) for x in ag) or ",".join(ks) or "promoted"
            import re as _re
            r = _re.sub(r"[^\s(),]*promoted\[(\d+)\]", _prom, r)
            args.append(r)
    return f"call:{name}({', '.join(args)})"


def _place_name(body, pl):
    root = pl[0]
    nm = body.local_name(root) or (f"param{root}" if 1 <= root <= body.d["argc"] else f"_{root}")
    return nm + "".join(x for x in pl[1] if x != "*")


def bool_paths(P, F, body, targets=None, max_paths=20000):
    """[(assignment {atom: value}, result)] over all acyclic entry→exit paths.
    result: True/False (constant returned), ('atom', name, polarity) (a predicate's value returned as is), ('?', why);
    with `targets` (set of blocks): result is True iff the path runs through one of them."""
    flow, cfg = P.flow(body), P.cfg(body)
    out = []
    ret_is_bool = body.locals[0].strip() == "bool"

    def val_of_op(env, op):
        if op[0] == "k":
            v = op[1].get("val")
            if op[1].get("ty") == "bool" and v is not None:
                return ("k", bool(v))
            return None
        pl = op[1]
        if pl[1] and not all(x == "*" for x in pl[1]):
            # field / variant projection: a named place atom
            return ("atom", "place:" + _place_name(body, resolve_alias(env, pl)), True)
        v = env.get(pl[0])
        if v is None and 1 <= pl[0] <= body.d["argc"] and body.locals[pl[0]].strip() in ("bool", "&bool"):
            return ("atom", "place:" + _place_name(body, (pl[0], [])), True)
        return v

    def resolve_alias(env, pl):
        v = env.get(("alias", pl[0]))
        if v is not None:
            return (v[0], list(v[1]) + [x for x in pl[1]])
        return pl

    def neg(v):
        if v is None:
            return None
        if v[0] == "k":
            return ("k", not v[1])
        return ("atom", v[1], not v[2])

    def step_stmt(env, s):
        if s["k"] != "assign":
            return
        dst, dproj = s["p"]
        if dproj:
            return
        rv = s["rv"]
        k = rv["k"]
        if k in ("use", "cast"):
            v = val_of_op(env, rv["a"])
            env[dst] = v
            pl = op_place(rv["a"])
            if pl is not None:
                env[("alias", dst)] = resolve_alias(env, pl)
        elif k == "ref":
            pl = rv["p"]
            env[("alias", dst)] = resolve_alias(env, (pl[0], list(pl[1])))
            env[dst] = val_of_op(env, ("c", pl))
        elif k == "un" and rv["op"] == "Not":
            env[dst] = neg(val_of_op(env, rv["a"]))
        elif k == "discr":
            pl = resolve_alias(env, (rv["p"][0], list(rv["p"][1])))
            nm = _place_name(body, pl)
            if nm.startswith("_") and not body.local_name(pl[0]):
                # an unnamed temporary: name it after the expression that produced it
                nm = render(simplify(expr_tree(P, body, ("c", (pl[0], [])), depth=3, expand_params=0))) + "".join(x for x in pl[1] if x != "*")
            env[dst] = ("discr", "variant:" + nm)
        elif k == "bin" and rv["op"] in ("Eq", "Ne", "Lt", "Le", "Gt", "Ge", "BitAnd", "BitOr"):
            a, b = val_of_op(env, rv["a"]), val_of_op(env, rv["b"])
            if rv["op"] in ("BitAnd", "BitOr") and a and b and a[0] == "k" and b[0] == "k":
                env[dst] = ("k", (a[1] and b[1]) if rv["op"] == "BitAnd" else (a[1] or b[1]))
            else:
                tr = render(simplify(("bin", rv["op"], expr_tree(P, body, rv["a"], depth=4, expand_params=0), expr_tree(P, body, rv["b"], depth=4, expand_params=0))))
                env[dst] = ("atom", "bin:" + tr, True)
        else:
            env[dst] = None

    def walk(bi, env, assign, onpath, hit):
        if len(out) > max_paths:
            raise NotLoopFree("too many paths")
        if bi in onpath:
            raise NotLoopFree(f"bb{bi} revisited")
        onpath = onpath | {bi}
        if targets is not None and bi in targets:
            hit = True
        blk = body.blocks[bi]
        env = dict(env)
        for s in blk["s"]:
            step_stmt(env, s)
        t = blk["t"]
        k = t["k"]
        if k == "return":
            if targets is not None:
                out.append((assign, hit))
            else:
                v = env.get(0)
                if v is None:
                    out.append((assign, ("?", "non-constant return")))
                elif v[0] == "k":
                    out.append((assign, v[1]))
                elif v[0] == "atom":
                    if v[1] in assign:
                        out.append((assign, assign[v[1]] == v[2]))
                    else:
                        out.append((assign, v))
                else:
                    out.append((assign, ("?", str(v))))
            return
        if k in ("goto", "drop", "assert", "falseedge", "yield"):
            nxt = t.get("to")
            if nxt is None:
                out.append((assign, ("?", "diverge")) if targets is None else (assign, hit))
                return
            walk(nxt, env, assign, onpath, hit)
            return
        if k == "call":
            key = callee_key(t["f"]) or ""
            dst, dproj = t["dest"]
            from mir import NOT_FNS, is_transparent
            if not dproj:
                if (key in NOT_FNS or key.endswith("as std::ops::Not>::not")) and t["args"]:
                    env[dst] = neg(val_of_op(env, t["args"][0]))
                elif (is_transparent(key) or key.endswith("::deref") or key.endswith("::borrow")) and t["args"] and val_of_op(env, t["args"][0]) is not None:
                    env[dst] = val_of_op(env, t["args"][0])
                elif body.locals[dst].strip() == "bool":
                    env[dst] = ("atom", call_atom(P, body, flow, t), True)
                else:
                    env[dst] = None
                    env.pop(("alias", dst), None)
            nxt = t.get("to")
            if nxt is None:
                out.append((assign, ("?", "diverge")) if targets is None else (assign, hit))
                return
            walk(nxt, env, assign, onpath, hit)
            return
        if k == "switch":
            pl = op_place(t["d"])
            v = val_of_op(env, t["d"]) if pl is not None else None
            succ = cfg.succ[bi]
            if t["dty"] == "bool":
                listed = {a for a, _ in t["arms"]}

                def truth(lab):
                    if lab == 0:
                        return False
                    if lab == 1:
                        return True
                    if lab == "else":
                        return True if listed == {0} else (False if listed == {1} else None)
                    return None
                if v is None:
                    v = ("atom", f"?bb{bi}", True)
                for lab, tgt in succ:
                    tv = truth(lab)
                    if tv is None:
                        continue
                    if v[0] == "k":
                        if v[1] == tv:
                            walk(tgt, env, assign, onpath, hit)
                        continue
                    name, pol = v[1], v[2]
                    want = tv if pol else (not tv)
                    if name in assign:
                        if assign[name] == want:
                            walk(tgt, env, assign, onpath, hit)
                        continue
                    a2 = dict(assign)
                    a2[name] = want
                    walk(tgt, env, a2, onpath, hit)
                return
            # enum / integer switch
            es = enum_switch(F, body, flow, cfg, bi)
            name = v[1] if (v is not None and v[0] == "discr") else f"switch:bb{bi}"
            for lab, tgt in succ:
                if es and es[1].get(lab):
                    val = "|".join(sorted(es[1][lab]))
                else:
                    val = f"={lab}"
                if name in assign:
                    if assign[name] == val:
                        walk(tgt, env, assign, onpath, hit)
                    continue
                a2 = dict(assign)
                a2[name] = val
                walk(tgt, env, a2, onpath, hit)
            return
        if k in ("unreachable", "resume", "abort"):
            return
        out.append((assign, ("?", f"terminator {k}")))

    import sys as _sys
    _sys.setrecursionlimit(10000)
    walk(0, {}, {}, frozenset(), False)
    return out


def table_atoms(paths):
    dom = {}
    for assign, res in paths:
        for a, v in assign.items():
            dom.setdefault(a, set()).add(v)
        if isinstance(res, tuple) and res[0] == "atom":
            dom.setdefault(res[1], set()).update({True, False})
    for a, vs in dom.items():
        if vs <= {True, False}:
            vs.update({True, False})
    return dom


def eval_table(paths, total):
    """Result of the (unique) path consistent with the total assignment."""
    for assign, res in paths:
        if all(total.get(a) == v for a, v in assign.items()):
            if isinstance(res, tuple) and res[0] == "atom":
                return total.get(res[1]) == res[2]
            return res
    return ("?", "no path")


def check_formula(paths, varmap, formula, free_ok=()):
    """varmap: {var: substring identifying exactly one atom}; formula: f(dict var->value) -> bool.
    Returns (ok, detail). Atoms not named in varmap must not influence the result (unless in free_ok, which are
    passed to the formula under their own names)."""
    import itertools
    dom = table_atoms(paths)
    names = {}
    for var, sub in varmap.items():
        m = [a for a in dom if sub in a]
        if len(m) != 1:
            return False, f"atom for `{var}` (containing `{sub}`) matched {len(m)} of {sorted(dom)}"
        names[var] = m[0]
    atoms = sorted(dom)
    if len(atoms) > 16:
        return False, f"{len(atoms)} atoms: too many to enumerate"
    inv = {v: k for k, v in names.items()}
    n = 0
    for combo in itertools.product(*[sorted(dom[a], key=str) for a in atoms]):
        total = dict(zip(atoms, combo))
        got = eval_table(paths, total)
        want = formula({inv.get(a, a): total[a] for a in atoms})
        n += 1
        if got != want:
            shown = {inv.get(a, a): total[a] for a in atoms}
            return False, f"for {shown}: code gives {got}, specification gives {want}"
    return True, f"{n} assignments over {len(atoms)} atoms agree"


def all_edge_atoms_full(P, F, body):
    """Like all_edge_atoms, but call atoms carry their rendered arguments (receiver included) so that two calls of the
    same predicate on different receivers are distinguished."""
    flow, cfg = P.flow(body), P.cfg(body)
    out = {}
    for sb in cfg.reach:
        t = body.blocks[sb]["t"]
        if t["k"] != "switch" or t["dty"] != "bool":
            continue
        k, payload, _bi, _fl = switch_chain(body, flow, sb)
        if k == "call":
            at = call_atom(P, body, flow, payload)
        else:
            at = switch_atom(P, body, flow, sb)
        if at is None:
            continue
        for lab, v in switch_bool_labels(body, flow, cfg, sb).items():
            out[(sb, lab)] = (at, v)
    return out


# ---------------------------------------------------------------------------------------------------------
# Linear (base + constant) values along paths: "which slot offset does this function return / pass on, as a function of the flags"
def lin_paths(P, F, body, base_call=None, event_call=None, inline=None, max_paths=20000):
    """[(assign {atom: value}, result, events)] over the acyclic, non-error paths of `body`.
    Values tracked per local: ('int', n) | ('lin', base, k) | booleans/atoms as in bool_paths.
      base_call(callee_key) -> base name or None: calls whose (unwrapped) result is a new base, e.g. Resolution::got_address -> 'got'
      inline: {callee_key: table as returned by lin_paths} - calls to these are replaced by their own (assign, result) rows
      event_call(callee_key) -> tag or None: calls recorded as (tag, [argument values]) in `events`
    result: the value wrapped in the returned Ok(..) / returned directly; error returns (Err aggregates, from_residual) are dropped."""
    from mir import NOT_FNS, is_transparent
    flow, cfg = P.flow(body), P.cfg(body)
    out = []
    base_call = base_call or (lambda k: None)
    event_call = event_call or (lambda k: None)
    inline = inline or {}

    def val_of_op(env, op):
        if op[0] == "k":
            c = op[1]
            v = c.get("val")
            if c.get("ty") == "bool" and v is not None:
                return ("k", bool(v))
            if isinstance(v, int):
                return ("int", v)
            return None
        pl = op[1]
        v = env.get(pl[0])
        proj = [x for x in pl[1] if x != "*"]
        if not proj:
            if v is None and 1 <= pl[0] <= body.d["argc"]:
                if body.locals[pl[0]].strip() in ("bool", "&bool"):
                    return ("atom", "place:" + _place_name(body, (pl[0], [])), True)
                return ("lin", "param:" + (body.local_name(pl[0]) or f"_{pl[0]}"), 0)
            return v
        if v is not None and v[0] == "pair" and proj == [".0"]:
            return v[1]
        if v is not None and v[0] == "cf" and proj == ["@Continue", ".0"]:
            return v[1]
        if v is not None and v[0] == "wrap" and proj in (["@Ok", ".0"], ["@Some", ".0"]):
            return v[1]
        if body.locals[pl[0]].strip() in ("bool",) or proj:
            # a field place used as a boolean
            return ("atom", "place:" + _place_name(body, pl), True)
        return None

    def arith(op, a, b):
        if a is None or b is None:
            return None
        if a[0] == "int" and b[0] == "int":
            return ("int", {"Add": a[1] + b[1], "Sub": a[1] - b[1], "Mul": a[1] * b[1]}[op])
        if op == "Add" and a[0] == "lin" and b[0] == "int":
            return ("lin", a[1], a[2] + b[1])
        if op == "Add" and a[0] == "int" and b[0] == "lin":
            return ("lin", b[1], b[2] + a[1])
        if op == "Sub" and a[0] == "lin" and b[0] == "int":
            return ("lin", a[1], a[2] - b[1])
        return None

    def neg(v):
        if v is None:
            return None
        if v[0] == "k":
            return ("k", not v[1])
        if v[0] == "atom":
            return ("atom", v[1], not v[2])
        return None

    def step_stmt(env, s):
        if s["k"] != "assign":
            return
        dst, dproj = s["p"]
        if dproj:
            return
        rv = s["rv"]
        k = rv["k"]
        if k in ("use", "cast"):
            env[dst] = val_of_op(env, rv["a"])
        elif k == "ref":
            env[dst] = val_of_op(env, ("c", rv["p"]))
        elif k == "un" and rv["op"] == "Not":
            env[dst] = neg(val_of_op(env, rv["a"]))
        elif k == "bin":
            op = rv["op"]
            base = op.replace("WithOverflow", "").replace("Unchecked", "")
            if base in ("Add", "Sub", "Mul"):
                r = arith(base, val_of_op(env, rv["a"]), val_of_op(env, rv["b"]))
                env[dst] = ("pair", r) if op.endswith("WithOverflow") else r
            elif base in ("Eq", "Ne", "Lt", "Le", "Gt", "Ge"):
                tr = render(simplify(("bin", op, expr_tree(P, body, rv["a"], depth=4, expand_params=0), expr_tree(P, body, rv["b"], depth=4, expand_params=0))))
                env[dst] = ("atom", "bin:" + tr, True)
            else:
                env[dst] = None
        elif k == "discr":
            v = env.get(rv["p"][0])
            if v is not None and v[0] in ("cf", "wrap"):
                env[dst] = ("discr-of", v[0])
            else:
                nm = _place_name(body, (rv["p"][0], list(rv["p"][1])))
                if nm.startswith("_") and not body.local_name(rv["p"][0]):
                    nm = render(simplify(expr_tree(P, body, ("c", (rv["p"][0], [])), depth=3, expand_params=0))) + "".join(x for x in rv["p"][1] if x != "*")
                env[dst] = ("discr", "variant:" + nm)
        elif k == "agg":
            if rv.get("ak") == "adt" and rv.get("variant") in ("Ok", "Some") and rv["ops"]:
                env[dst] = ("wrap", val_of_op(env, rv["ops"][0]))
            elif rv.get("ak") == "adt" and rv.get("variant") == "Err":
                env[dst] = ("err",)
            else:
                env[dst] = None
        else:
            env[dst] = None

    def walk(bi, env, assign, onpath, events):
        if len(out) > max_paths:
            raise NotLoopFree("too many paths")
        if bi in onpath:
            raise NotLoopFree(f"bb{bi} revisited")
        onpath = onpath | {bi}
        blk = body.blocks[bi]
        env = dict(env)
        for s in blk["s"]:
            step_stmt(env, s)
        t = blk["t"]
        k = t["k"]
        if k == "return":
            v = env.get(0)
            if v is not None and v[0] == "err":
                return
            if v is not None and v[0] == "wrap":
                v = v[1]
            out.append((assign, v, list(events)))
            return
        if k in ("goto", "drop", "assert", "falseedge"):
            if t.get("to") is not None:
                walk(t["to"], env, assign, onpath, events)
            return
        if k == "call":
            key = callee_key(t["f"]) or ""
            dst, dproj = t["dest"]
            nxt = t.get("to")
            tag = event_call(key)
            if tag:
                def _ev(a):
                    if a[0] == "k" and (a[1].get("def") or (a[1].get("val") is None and a[1].get("text"))):
                        return ("const", a[1].get("def") or a[1].get("text"))
                    return val_of_op(env, a)
                events = events + [(tag, [_ev(a) for a in t["args"]])]
            if key.endswith("from_residual"):
                return            # error propagation
            if dproj:
                if nxt is not None:
                    walk(nxt, env, assign, onpath, events)
                return
            if key in inline:
                for cassign, cres, _cev in inline[key]:
                    if any(a in assign and assign[a] != v for a, v in cassign.items()):
                        continue
                    a2 = dict(assign)
                    a2.update(cassign)
                    e2 = dict(env)
                    e2[dst] = ("wrap", cres)
                    if nxt is not None:
                        walk(nxt, e2, a2, onpath, events)
                return
            b = base_call(key)
            if b:
                env[dst] = ("wrap", ("lin", b, 0)) if "Result" in body.locals[dst] or "Option" in body.locals[dst] else ("lin", b, 0)
            elif (key in NOT_FNS or key.endswith("as std::ops::Not>::not")) and t["args"]:
                env[dst] = neg(val_of_op(env, t["args"][0]))
            elif key.endswith("Try>::branch") or key == "std::ops::Try::branch":
                v = val_of_op(env, t["args"][0])
                env[dst] = ("cf", v[1]) if v is not None and v[0] == "wrap" else ("cf", None)
            elif key.endswith("Context>::context") or key.endswith("Context::context") or key.endswith("::with_context") or key.endswith("Option::ok_or") or key.endswith("::ok_or_else"):
                v = val_of_op(env, t["args"][0])
                env[dst] = v if v is not None and v[0] == "wrap" else ("wrap", v)
            elif key.endswith("::get") and "NonZero" in key and t["args"] and op_place(t["args"][0]):
                # the integer inside a NonZero place: a base named after the place it was read from
                pl0 = op_place(t["args"][0])
                nm0 = render(simplify(expr_tree(P, body, t["args"][0], depth=4, expand_params=0)))
                v0 = val_of_op(env, t["args"][0])
                env[dst] = v0 if v0 is not None and v0[0] == "lin" else ("lin", "nz:" + nm0, 0)
            elif is_transparent(key) and t["args"]:
                env[dst] = val_of_op(env, t["args"][0])
            elif body.locals[dst].strip() == "bool":
                env[dst] = ("atom", call_atom(P, body, flow, t), True)
            else:
                env[dst] = None
            if nxt is not None:
                walk(nxt, env, assign, onpath, events)
            return
        if k == "switch":
            v = val_of_op(env, t["d"]) if op_place(t["d"]) is not None else None
            succ = cfg.succ[bi]
            if t["dty"] == "bool":
                listed = {a for a, _ in t["arms"]}

                def truth(lab):
                    if lab == 0:
                        return False
                    if lab == 1:
                        return True
                    if lab == "else":
                        return True if listed == {0} else (False if listed == {1} else None)
                    return None
                if v is None or v[0] not in ("k", "atom"):
                    v = ("atom", f"?bb{bi}", True)
                for lab, tgt in succ:
                    tv = truth(lab)
                    if tv is None:
                        continue
                    if v[0] == "k":
                        if v[1] == tv:
                            walk(tgt, env, assign, onpath, events)
                        continue
                    name, pol = v[1], v[2]
                    want = tv if pol else (not tv)
                    if name in assign:
                        if assign[name] == want:
                            walk(tgt, env, assign, onpath, events)
                        continue
                    a2 = dict(assign)
                    a2[name] = want
                    walk(tgt, env, a2, onpath, events)
                return
            if v is not None and v[0] == "discr-of":
                # `?` on a modelled Result / `let Some(x) = modelled else`: follow the success arm only
                es = enum_switch(F, body, flow, cfg, bi)
                for lab, tgt in succ:
                    names = es[1].get(lab) if es else None
                    if names and names & {"Continue", "Ok", "Some"}:
                        walk(tgt, env, assign, onpath, events)
                return
            es = enum_switch(F, body, flow, cfg, bi)
            name = v[1] if (v is not None and v[0] == "discr") else f"switch:bb{bi}"
            for lab, tgt in succ:
                val = "|".join(sorted(es[1][lab])) if es and es[1].get(lab) else f"={lab}"
                if name in assign:
                    if assign[name] == val:
                        walk(tgt, env, assign, onpath, events)
                    continue
                a2 = dict(assign)
                a2[name] = val
                walk(tgt, env, a2, onpath, events)
            return
        return

    import sys as _sys
    _sys.setrecursionlimit(10000)
    walk(0, {}, {}, frozenset(), [])
    return out
