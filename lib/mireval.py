"""A small concrete evaluator for loop-light integer MIR bodies (facts from the driver; nothing is executed natively).

Used to *tabulate* pure arithmetic helpers of the workspace over a finite grid of arguments and compare the table with a specification
(e.g. Alignment::align_modulo). Values: Python ints (wrapped to the destination type's width), bools as 0/1, tuples for checked-op pairs and
tuple aggregates, dicts for struct aggregates ({field: value}). Unsupported constructs raise EvalError: callers turn that into a failed
obligation (fail closed), never into a pass."""
from mir import callee_key


class EvalError(Exception):
    pass


class Panic(Exception):
    pass


_W = {"u8": 8, "u16": 16, "u32": 32, "u64": 64, "usize": 64, "i8": 8, "i16": 16, "i32": 32, "i64": 64, "isize": 64, "bool": 1}


def _wrap(v, ty):
    w = _W.get((ty or "").strip())
    if w is None or not isinstance(v, int):
        return v
    if (ty or "").strip().startswith("i"):
        v &= (1 << w) - 1
        return v - (1 << w) if v >> (w - 1) else v
    return v & ((1 << w) - 1)


def _intrinsic(tail, args):
    if tail == "next_multiple_of":
        a, b = args
        if b == 0:
            raise Panic("next_multiple_of(0)")
        r = a % b
        out = a if r == 0 else a + (b - r)
        if out >= 1 << 64:
            raise Panic("overflow in next_multiple_of")
        return out
    if tail == "is_multiple_of":
        a, b = args
        return int(a == 0) if b == 0 else int(a % b == 0)
    if tail == "is_power_of_two":
        return int(args[0] != 0 and args[0] & (args[0] - 1) == 0)
    if tail == "trailing_zeros":
        v = args[0]
        return 64 if v == 0 else (v & -v).bit_length() - 1
    if tail in ("wrapping_add", "wrapping_sub", "wrapping_mul"):
        a, b = args
        return {"wrapping_add": a + b, "wrapping_sub": a - b, "wrapping_mul": a * b}[tail] & ((1 << 64) - 1)
    if tail in ("saturating_sub",):
        return max(0, args[0] - args[1])
    if tail in ("max", "min") and len(args) == 2 and all(isinstance(a, int) for a in args):
        return max(args) if tail == "max" else min(args)
    if tail in ("max", "min") and len(args) == 2 and all(isinstance(a, dict) for a in args):
        # derived Ord on a single-field struct (Alignment { exponent })
        ka, kb = tuple(args[0].values()), tuple(args[1].values())
        return args[0] if ((ka >= kb) == (tail == "max")) else args[1]
    raise EvalError(f"intrinsic {tail}")


def call(F, key, args, depth=0, steps=None):
    if depth > 12:
        raise EvalError("call depth")
    b = F.body(key)
    if b is None:
        return _intrinsic(key.split("::")[-1], args)
    steps = steps if steps is not None else [0]
    env = {i + 1: a for i, a in enumerate(args)}

    def read(op):
        if op[0] == "k":
            c = op[1]
            if c.get("val") is not None:
                return c["val"]
            if c.get("def") and c["def"] in F.consts():
                return F.consts()[c["def"]]
            if c.get("ty") == "()":
                return ()
            raise EvalError(f"constant {c.get('text')}")
        l, proj = op[1]
        if l not in env:
            raise EvalError(f"read of unset local _{l} in {key}")
        v = env[l]
        for p in proj:
            if p == "*":
                continue
            if p.startswith("."):
                f = p[1:]
                if isinstance(v, dict):
                    v = v[f] if f in v else (list(v.values())[int(f)] if f.isdigit() else v[f])
                elif isinstance(v, tuple):
                    v = v[int(f)]
                else:
                    raise EvalError(f"projection {p} of {type(v).__name__}")
            else:
                raise EvalError(f"projection {p}")
        return v

    bi = 0
    while True:
        steps[0] += 1
        if steps[0] > 20000:
            raise EvalError("step budget")
        blk = b.blocks[bi]
        for st in blk["s"]:
            if st["k"] != "assign":
                continue
            rv = st["rv"]
            k = rv["k"]
            ty = b.locals[st["p"][0]] if not st["p"][1] else "u64"
            if k in ("use",):
                v = read(rv["a"])
            elif k == "cast":
                v = _wrap(read(rv["a"]), rv.get("ty") or ty)
            elif k == "ref":
                v = read(("c", rv["p"]))
            elif k == "bin":
                a, c = read(rv["a"]), read(rv["b"])
                op = rv["op"]
                base = op.replace("WithOverflow", "").replace("Unchecked", "")
                if base in ("Add", "Sub", "Mul"):
                    raw = {"Add": a + c, "Sub": a - c, "Mul": a * c}[base]
                    ety = ty.strip().lstrip("(").split(",")[0] if op.endswith("WithOverflow") else ty
                    w = _wrap(raw, ety)
                    v = (w, int(w != raw)) if op.endswith("WithOverflow") else w
                elif base in ("BitAnd", "BitOr", "BitXor"):
                    v = {"BitAnd": a & c, "BitOr": a | c, "BitXor": a ^ c}[base]
                elif base in ("Shl", "Shr"):
                    v = _wrap(a << c if base == "Shl" else a >> c, ty)
                elif base in ("Eq", "Ne", "Lt", "Le", "Gt", "Ge"):
                    v = int({"Eq": a == c, "Ne": a != c, "Lt": a < c, "Le": a <= c, "Gt": a > c, "Ge": a >= c}[base])
                elif base in ("Div", "Rem"):
                    if c == 0:
                        raise Panic("division by zero")
                    v = a // c if base == "Div" else a % c
                else:
                    raise EvalError(f"binary op {op}")
            elif k == "un":
                a = read(rv["a"])
                v = int(not a) if rv["op"] == "Not" and ty.strip() == "bool" else (_wrap(~a, ty) if rv["op"] == "Not" else _wrap(-a, ty))
            elif k == "agg":
                ops = [read(o) for o in rv["ops"]]
                if rv["ak"] == "tuple":
                    v = tuple(ops)
                elif rv["ak"] == "adt" and rv.get("fields"):
                    v = dict(zip(rv["fields"], ops))
                else:
                    raise EvalError(f"aggregate {rv['ak']}")
            else:
                raise EvalError(f"rvalue {k}")
            if st["p"][1]:
                # store into a field of a struct value (e.g. `(*self).mem_size = ..`): structs are dicts, shared by reference
                tgt = env.get(st["p"][0])
                path = [p for p in st["p"][1] if p != "*"]
                if not isinstance(tgt, dict) or not path or not all(p.startswith(".") for p in path):
                    raise EvalError("store through a projection")
                for p in path[:-1]:
                    tgt = tgt[p[1:]]
                tgt[path[-1][1:]] = v
            else:
                env[st["p"][0]] = v
        t = blk["t"]
        if t["k"] == "goto":
            bi = t["to"]
        elif t["k"] == "return":
            return env.get(0)
        elif t["k"] == "switch":
            d = read(t["d"])
            bi = next((to for c, to in t["arms"] if c == d), t["else"])
        elif t["k"] == "assert":
            c = read(t["c"])
            if bool(c) != bool(t["expected"]):
                raise Panic(t.get("desc") or "assert")
            bi = t["to"]
        elif t["k"] == "call":
            ck = callee_key(t["f"]) or ""
            if t["dest"][1]:
                raise EvalError("call result stored through a projection")
            env[t["dest"][0]] = call(F, ck, [read(a) for a in t["args"]], depth + 1, steps)
            if t.get("to") is None:
                raise EvalError("diverging call")
            bi = t["to"]
        else:
            raise EvalError(f"terminator {t['k']}")
