"""Extraction of the relocation tables (as data) from the folded HIR of linker-utils."""
import fold


def _none(v):
    return isinstance(v, fold.Enum) and v.path.endswith("::None") and "RelocationKind" not in v.path


def reloc_row(value):
    """Normalise the tuple/struct an arm of a relocation table evaluates to."""
    if isinstance(value, Exception):
        return {"error": str(value)}
    flat = []

    def walk(v):
        if isinstance(v, tuple):
            for x in v:
                walk(x)
        else:
            flat.append(v)
    walk(value)
    row = {"kind": None, "size": None, "mask": None, "range": None, "alignment": 1, "extra": []}
    for v in flat:
        if isinstance(v, fold.Enum):
            if "::RelocationKind::" in v.path:
                row["kind"] = v.name if not v.args else f"{v.name}({','.join(map(str, v.args))})"
            elif v.path.endswith("RelocationSize::ByteSize"):
                row["size"] = {"bytes": v.args[0]}
            elif v.path.endswith("RelocationSize::BitMasking"):
                bm = v.args[0]
                insn = bm.fields["instruction"]
                rng = bm.fields["range"]
                row["size"] = {"insn": insn.args[0].name if insn.args else insn.name, "arch": insn.name,
                               "start": rng.fields["start"], "end": rng.fields["end"]}
            elif v.path.endswith("AllowedRange"):
                row["range"] = [v.fields["min"], v.fields["max"]]
            elif v.path.endswith("::Some") and v.args and isinstance(v.args[0], fold.Enum) and "PageMask" in v.args[0].path:
                row["mask"] = v.args[0].name
            elif _none(v):
                pass
            else:
                row["extra"].append(repr(v))
        elif isinstance(v, bool):
            row["extra"].append(v)
        elif isinstance(v, int):
            row["alignment"] = v
    return row


def table(folder, fn_path):
    rows = fold.match_table(folder, fn_path)
    if rows is None:
        return None
    out = []
    for r in rows:
        if r["wild"] and not r["consts"]:
            continue
        rr = reloc_row(r["value"])
        for val, name in r["consts"]:
            out.append({"r_type": val, "name": (name or "?").split("::")[-1], "line": r["line"], **rr})
    return out
