"""Bit-provenance abstract interpretation of the instruction encoders/decoders in linker-utils.

Abstract value of an n-bit quantity: n cells, each one of
   ('c', 0|1)            constant
   ('a', atom)           exact copy of an input bit      atom = ('v', i) | ('old', j)
   ('n', atom)           exact negation of an input bit
   ('t', frozenset)      unknown function of a set of input bits
Shifts/rotates by constants move cells; &,|,^,! act cell-wise; +,- smear (carry chain); casts truncate
or extend. Helper methods of the repository (extract_bit_range, low_bits, sign_extend, ...) are
interpreted from their own HIR bodies; the byte-slice helpers (or_from_slice, and_from_slice,
u32_from_slice, to_le_bytes) are modelled natively after a structural check of their bodies.
No inputs are chosen and nothing is executed: the answer is which input bit can reach which output bit."""
from fold import Enum, FoldError, INT_TYPES
from facts import norm_path

C0 = ("c", 0)
C1 = ("c", 1)


def atoms(cell):
    if cell[0] == "c":
        return frozenset()
    if cell[0] in ("a", "n"):
        return frozenset([cell[1]])
    return cell[1]


def c_and(x, y):
    if x == C0 or y == C0:
        return C0
    if x == C1:
        return y
    if y == C1:
        return x
    if x == y:
        return x
    return ("t", atoms(x) | atoms(y))


def c_or(x, y):
    if x == C1 or y == C1:
        return C1
    if x == C0:
        return y
    if y == C0:
        return x
    if x == y:
        return x
    return ("t", atoms(x) | atoms(y))


def c_xor(x, y):
    if x == C0:
        return y
    if y == C0:
        return x
    if x == C1:
        return c_not(y)
    if y == C1:
        return c_not(x)
    if x == y:
        return C0
    return ("t", atoms(x) | atoms(y))


def c_not(x):
    if x[0] == "c":
        return ("c", 1 - x[1])
    if x[0] == "a":
        return ("n", x[1])
    if x[0] == "n":
        return ("a", x[1])
    return x


def c_ite(c, a, b):
    if c == C1:
        return a
    if c == C0:
        return b
    if a == b:
        return a
    if a == C1 and b == C0:
        return c
    if a == C0 and b == C1:
        return c_not(c)
    return ("t", atoms(c) | atoms(a) | atoms(b))


class BV:
    __slots__ = ("cells", "signed")

    def __init__(self, cells, signed=False):
        self.cells = list(cells)
        self.signed = signed

    @property
    def w(self):
        return len(self.cells)

    @staticmethod
    def const(v, w, signed=False):
        return BV([("c", (v >> i) & 1) for i in range(w)], signed)

    def is_const(self):
        return all(c[0] == "c" for c in self.cells)

    def value(self):
        v = sum(c[1] << i for i, c in enumerate(self.cells))
        if self.signed and self.cells and self.cells[-1][1]:
            v -= 1 << self.w
        return v

    def cast(self, w, signed):
        cells = list(self.cells[:w])
        if len(cells) < w:
            fill = cells[-1] if (self.signed and cells) else C0
            cells += [fill] * (w - len(cells))
        return BV(cells, signed)

    def __repr__(self):
        return "BV[" + " ".join(fmt_cell(c) for c in reversed(self.cells)) + "]"


def fmt_cell(c):
    if c[0] == "c":
        return str(c[1])
    if c[0] == "a":
        return f"{c[1][0]}{c[1][1]}"
    if c[0] == "n":
        return f"~{c[1][0]}{c[1][1]}"
    return "T"


def lift(x, like):
    if isinstance(x, BV):
        return x
    if isinstance(x, bool):
        x = int(x)
    return BV.const(x, like.w, like.signed)


def bv_bin(op, a, b):
    if not isinstance(a, BV):
        a = lift(a, b)
    if not isinstance(b, BV):
        b = lift(b, a)
    w = max(a.w, b.w)
    ac, bc = a.cast(w, a.signed).cells, b.cast(w, b.signed).cells
    if op == "&":
        return BV([c_and(x, y) for x, y in zip(ac, bc)], a.signed)
    if op == "|":
        return BV([c_or(x, y) for x, y in zip(ac, bc)], a.signed)
    if op == "^":
        return BV([c_xor(x, y) for x, y in zip(ac, bc)], a.signed)
    if op in ("+", "-"):
        if a.is_const() and b.is_const():
            v = a.value() + b.value() if op == "+" else a.value() - b.value()
            return BV.const(v & ((1 << w) - 1), w, a.signed)
        # bits above (highest possibly-non-zero position + 1) of a sum stay zero
        def top(cells):
            h = -1
            for i, c in enumerate(cells):
                if c != C0:
                    h = i
            return h
        limit = max(top(ac), top(bc)) + 1 if op == "+" else w
        seen = frozenset()
        started = False
        res = []
        for i, (x, y) in enumerate(zip(ac, bc)):
            if i > limit:
                res.append(C0)
                continue
            if not started and y == C0:
                res.append(x)
                continue
            if not started and x == C0 and op == "+":
                res.append(y)
                continue
            started = True
            seen = seen | atoms(x) | atoms(y)
            res.append(("t", seen) if seen else ("t", frozenset()))
        return BV(res, a.signed)
    raise FoldError(f"bv op {op}")


def bv_shl(a, k):
    return BV(([C0] * k + a.cells)[: a.w], a.signed)


def bv_shr(a, k):
    fill = a.cells[-1] if a.signed else C0
    return BV((a.cells[k:] + [fill] * k)[: a.w], a.signed)


class Bytes:
    """A view onto a little-endian byte buffer of symbolic bits."""
    def __init__(self, cells, off=0, length=None):
        self.cells = cells           # shared list of bit cells
        self.off = off               # in bytes
        self.len = (len(cells) // 8 - off) if length is None else length

    def view(self, start, end):
        end = self.len if end is None else end
        return Bytes(self.cells, self.off + start, end - start)

    def bit(self, i):
        return self.cells[self.off * 8 + i]

    def set_bit(self, i, c):
        self.cells[self.off * 8 + i] = c


class ByteRef:
    """&mut section_bytes[i]"""
    def __init__(self, buf, i):
        self.buf, self.i = buf, i

    def get(self):
        return BV([self.buf.bit(self.i * 8 + j) for j in range(8)])

    def set(self, v):
        if not isinstance(v, BV):
            v = BV.const(v & 0xff, 8)
        for j in range(8):
            self.buf.set_bit(self.i * 8 + j, v.cells[j] if j < v.w else C0)


class Cell:
    """&mut scalar"""
    def __init__(self, v):
        self.v = v

    def get(self):
        return self.v

    def set(self, v):
        self.v = v


def deref(x):
    return x.get() if isinstance(x, (ByteRef, Cell)) else x


class SymEval:
    def __init__(self, facts, folder):
        self.F = facts
        self.FD = folder
        self.hir = facts.hir()

    def body(self, path):
        v = self.hir.get(norm_path(path))
        return v[0] if v else None

    def run_fn(self, path, args, depth=0):
        b = self.body(path)
        if b is None:
            # trait method: resolve to the impl for the (integer) receiver
            parts = norm_path(path).rsplit("::", 1)
            if len(parts) == 2:
                for ty in ("u64", "u32", "u16", "u8", "usize", "i64", "i32"):
                    b = self.body(f"<{ty} as {parts[0]}>::{parts[1]}")
                    if b is not None:
                        break
        if b is None:
            raise FoldError(f"no body {path}")
        env = {}
        for p, a in zip(b["params"], args):
            self.bind(p, a, env)
        try:
            return self.ev(b["body"], env, depth + 1)
        except _Ret as r:
            return r.v

    def bind(self, pat, val, env):
        k = pat["p"]
        if k in ("wild", "missing"):
            return True
        if k == "bind":
            env[pat["id"]] = val
            return True
        if k == "tuple":
            return all(self.bind(p, v, env) for p, v in zip(pat["elems"], val))
        if k == "expr":
            c = self.FD.eval(pat["v"], {}, 0)
            return c == val
        if k == "or":
            return any(self.bind(a, val, env) for a in pat["alts"])
        if k in ("tstruct", "struct"):
            if not isinstance(val, Enum):
                return False
            if norm_path(pat["path"].get("def") or "") != val.path:
                return False
            if k == "tstruct":
                return all(self.bind(p, v, env) for p, v in zip(pat["elems"], val.args))
            return all(self.bind(p, val.fields[n], env) for n, p in pat["fields"])
        raise FoldError(f"sym pattern {k}")

    # ------------------------------------------------------------------------------------------
    def ev(self, e, env, depth):
        if depth > 80:
            raise FoldError("depth")
        k = e["e"]
        if k == "lit":
            return e["v"]
        if k == "path":
            r = e.get("res")
            if r == "Local":
                if e["id"] in env:
                    return env[e["id"]]
                raise FoldError(f"unbound {e['name']}")
            return self.FD.eval(e, {}, 0)
        if k in ("addrof", "use"):
            return self.ev(e["a"], env, depth + 1)
        if k == "un":
            a = self.ev(e["a"], env, depth + 1)
            if e["op"] == "*":
                return deref(a)
            a = deref(a)
            if e["op"] == "!":
                if isinstance(a, BV):
                    return BV([c_not(c) for c in a.cells], a.signed)
                if isinstance(a, bool):
                    return not a
                if isinstance(a, tuple) and a and a[0] == "cell":
                    return ("cell", c_not(a[1]))
                return ~a
            if e["op"] == "-":
                if isinstance(a, BV):
                    raise FoldError("neg of symbolic")
                return -a
        if k == "cast":
            a = self.ev(e["a"], env, depth + 1)
            ty = e["ty"]
            if ty in INT_TYPES:
                w, sg = INT_TYPES[ty]
                if isinstance(a, BV):
                    return a.cast(w, sg)
                if isinstance(a, bool):
                    a = int(a)
                if isinstance(a, int):
                    from fold import wrap
                    return wrap(a, ty)
            return a
        if k == "bin":
            op = e["op"]
            if op in ("&&", "||"):
                a = self.ev(e["a"], env, depth + 1)
                if isinstance(a, bool):
                    if op == "&&" and not a:
                        return False
                    if op == "||" and a:
                        return True
                    return self.ev(e["b"], env, depth + 1)
                raise FoldError("symbolic short-circuit")
            a = deref(self.ev(e["a"], env, depth + 1))
            b = deref(self.ev(e["b"], env, depth + 1))
            return self.binop(op, a, b)
        if k == "assign":
            v = self.ev(e["b"], env, depth + 1)
            self.assign(e["a"], v, env, depth)
            return ()
        if k == "assignop":
            cur = deref(self.ev(e["a"], env, depth + 1))
            v = deref(self.ev(e["b"], env, depth + 1))
            self.assign(e["a"], self.binop(e["op"].rstrip("=") if e["op"].endswith("=") else e["op"], cur, v), env, depth)
            return ()
        if k == "block":
            for s in e["stmts"]:
                if s["s"] == "let":
                    if s["init"] is None:
                        for pid in _pat_ids(s["pat"]):
                            env[pid] = None
                        continue
                    v = self.ev(s["init"], env, depth + 1)
                    self.bind(s["pat"], v, env)
                else:
                    self.ev(s["e"], env, depth + 1)
            if e["expr"] is None:
                return ()
            return self.ev(e["expr"], env, depth + 1)
        if k == "if":
            c = self.ev(e["cond"], env, depth + 1)
            if isinstance(c, bool):
                if c:
                    return self.ev(e["then"], env, depth + 1)
                return self.ev(e["else"], env, depth + 1) if e["else"] else ()
            if isinstance(c, tuple) and c and c[0] == "cell":
                env_a, env_b = dict(env), dict(env)
                va = self.ev(e["then"], env_a, depth + 1)
                vb = self.ev(e["else"], env_b, depth + 1) if e["else"] else ()
                for key in set(env_a) | set(env_b):
                    xa, xb = env_a.get(key), env_b.get(key)
                    if xa is xb:
                        continue
                    env[key] = merge(c[1], xa, xb)
                return merge(c[1], va, vb)
            raise FoldError("if on non-bool")
        if k == "match":
            v = self.ev(e["scrut"], env, depth + 1)
            for arm in e["arms"]:
                env2 = env  # bindings are fresh ids; share env so assignments persist
                try:
                    ok = self.bind(arm["pat"], v, env2)
                except FoldError:
                    ok = False
                if ok:
                    if arm["guard"] is not None and not self.ev(arm["guard"], env2, depth + 1):
                        continue
                    return self.ev(arm["body"], env2, depth + 1)
            raise FoldError("sym: no arm")
        if k == "tup":
            return tuple(self.ev(x, env, depth + 1) for x in e["elems"])
        if k == "array":
            return [self.ev(x, env, depth + 1) for x in e["elems"]]
        if k == "struct":
            fields = {n: self.ev(v, env, depth + 1) for n, v in e["fields"]}
            return Enum(norm_path(e["path"].get("def") or e["ty"]), (), fields)
        if k == "field":
            a = self.ev(e["a"], env, depth + 1)
            if isinstance(a, tuple):
                return a[int(e["name"])]
            if isinstance(a, Enum):
                if a.fields and e["name"] in a.fields:
                    return a.fields[e["name"]]
                return a.args[int(e["name"])]
            raise FoldError("field")
        if k == "index":
            a = self.ev(e["a"], env, depth + 1)
            i = self.ev(e["i"], env, depth + 1)
            if isinstance(a, Bytes):
                if isinstance(i, Enum) and i.path.startswith("std::ops::Range"):
                    f = i.fields or {}
                    return a.view(f.get("start", 0) or 0, f.get("end"))
                if isinstance(i, int):
                    return ByteRef(a, i)
            if isinstance(a, BV) and isinstance(i, Enum):
                f = i.fields or {}
                st = (f.get("start") or 0) * 8
                en = f.get("end")
                return BV(a.cells[st:(en * 8 if en is not None else None)], a.signed)
            if isinstance(a, list):
                if isinstance(i, Enum):
                    f = i.fields or {}
                    return a[(f.get("start") or 0):f.get("end")]
                return a[i]
            raise FoldError("index")
        if k == "ret":
            raise _Ret(self.ev(e["val"], env, depth + 1) if e["val"] else ())
        if k == "call":
            f = e["f"]
            args = [self.ev(a, env, depth + 1) for a in e["args"]]
            if f["e"] == "path":
                r = f.get("res")
                d = norm_path(f.get("def") or "")
                if r == "Ctor":
                    return Enum(d, args)
                return self.call(d, args, depth)
            raise FoldError("sym call")
        if k == "mcall":
            recv = self.ev(e["recv"], env, depth + 1)
            args = [self.ev(a, env, depth + 1) for a in e["args"]]
            return self.method(e, recv, args, env, depth)
        raise FoldError(f"sym expr {k}")

    def assign(self, lhs, v, env, depth):
        v = deref(v)
        if lhs["e"] == "path" and lhs.get("res") == "Local":
            cur = env.get(lhs["id"])
            env[lhs["id"]] = v
            return
        if lhs["e"] == "un" and lhs["op"] == "*":
            tgt = self.ev(lhs["a"], env, depth + 1)
            if isinstance(tgt, (ByteRef, Cell)):
                tgt.set(v)
                return
            return self.assign(lhs["a"], v, env, depth)
        if lhs["e"] == "index":
            a = self.ev(lhs["a"], env, depth + 1)
            i = self.ev(lhs["i"], env, depth + 1)
            if isinstance(a, Bytes) and isinstance(i, int):
                ByteRef(a, i).set(v)
                return
        raise FoldError("assign target")

    def binop(self, op, a, b):
        if isinstance(a, BV) or isinstance(b, BV):
            if op in ("<<", ">>"):
                if isinstance(b, BV):
                    if not b.is_const():
                        raise FoldError("symbolic shift amount")
                    b = b.value()
                if not isinstance(a, BV):
                    raise FoldError("const shifted by symbolic")
                return bv_shl(a, b) if op == "<<" else bv_shr(a, b)
            if op in ("&", "|", "^", "+", "-"):
                return bv_bin(op, a, b)
            if op in ("!=", "=="):
                x = a if isinstance(a, BV) else b
                y = b if isinstance(a, BV) else a
                if isinstance(y, BV):
                    if not y.is_const():
                        raise FoldError("sym==sym")
                    y = y.value()
                if y != 0:
                    raise FoldError("compare with non-zero")
                nz = [c for c in x.cells if c != C0]
                if not nz:
                    cell = C0
                elif len(nz) == 1:
                    cell = nz[0]
                else:
                    s = frozenset()
                    for c in nz:
                        s |= atoms(c)
                    cell = ("t", s)
                return ("cell", cell if op == "!=" else c_not(cell))
            if op == "<":
                if isinstance(a, BV) and a.signed and b == 0:
                    return ("cell", a.cells[-1])
            raise FoldError(f"sym binop {op}")
        from fold import binop
        return binop(op, a, b)

    def call(self, d, args, depth):
        name = d.split("::")[-1]
        if name == "or_from_slice":
            dest, m = args
            self._slice_op(dest, m, c_or)
            return ()
        if name == "and_from_slice":
            dest, m = args
            self._slice_op(dest, m, c_and)
            return ()
        if name in ("u32_from_slice", "u64_from_slice"):
            n = 32 if name.startswith("u32") else 64
            return BV([args[0].bit(i) for i in range(n)])
        if d.endswith("from_le_bytes"):
            a = args[0]
            if isinstance(a, list):
                cells = []
                for x in a:
                    cells += x.cells
                return BV(cells)
        if d.startswith(("linker_utils::", "libwild::")):
            return self.run_fn(d, args, depth)
        if d in ("std::convert::From::from", "std::convert::Into::into") or name == "from":
            a = args[0]
            return a
        raise FoldError(f"sym call {d}")

    def _slice_op(self, dest, m, op):
        if isinstance(m, BV):
            cells = m.cells
        elif isinstance(m, ("".__class__,)):
            raise FoldError("bad mask")
        elif isinstance(m, list):
            cells = []
            for x in m:
                cells += x.cells if isinstance(x, BV) else BV.const(x, 8).cells
        else:
            raise FoldError("mask type")
        for i, c in enumerate(cells):
            dest.set_bit(i, op(dest.bit(i), c))

    def method(self, e, recv, args, env, depth):
        name = e["name"]
        d = norm_path(e.get("def") or "")
        rt = e.get("recv_ty", "").lstrip("&")
        if name == "copy_from_slice" and isinstance(recv, Bytes):
            src = args[0]
            if isinstance(src, list):
                for i, x in enumerate(src):
                    ByteRef(recv, i).set(deref(x))
                return ()
            raise FoldError("copy_from_slice source")
        if name == "get" and isinstance(recv, Bytes):
            i = args[0]
            if isinstance(i, int):
                return Enum("std::option::Option::Some", [ByteRef(recv, i)])
        recv = deref(recv)
        if name == "to_le_bytes":
            if isinstance(recv, BV):
                return recv
            w = INT_TYPES.get(rt, (32, False))[0]
            return BV.const(recv & ((1 << w) - 1), w)
        if name in ("as_slice", "as_ref", "clone", "into"):
            return recv
        if name in ("wrapping_add", "wrapping_sub") and (isinstance(recv, BV) or isinstance(args[0], BV)):
            return bv_bin("+" if name == "wrapping_add" else "-", recv, args[0])
        if name == "len" and isinstance(recv, Enum) and recv.path.startswith("std::ops::Range"):
            return recv.fields["end"] - recv.fields["start"]
        if name == "len" and isinstance(recv, Bytes):
            return recv.len
        if name == "is_negative" and isinstance(recv, BV):
            return ("cell", recv.cells[-1])
        if d.startswith(("linker_utils::", "libwild::")):
            return self.run_fn(d, [recv] + args, depth)
        if not isinstance(recv, BV):
            return self.FD.method(e, recv, args, depth)
        raise FoldError(f"sym method {name}")


def merge(c, a, b):
    if isinstance(a, BV) and isinstance(b, BV):
        return BV([c_ite(c, x, y) for x, y in zip(a.cells, b.cells)], a.signed)
    if isinstance(a, BV) or isinstance(b, BV):
        x = a if isinstance(a, BV) else b
        return merge(c, lift(a, x), lift(b, x))
    if isinstance(a, tuple) and isinstance(b, tuple) and len(a) == len(b):
        return tuple(merge(c, x, y) for x, y in zip(a, b))
    if isinstance(a, bool) and isinstance(b, bool):
        if a == b:
            return a
        return ("cell", c if a else c_not(c))
    if a == b:
        return a
    if isinstance(a, int) and isinstance(b, int) and not isinstance(a, bool) and not isinstance(b, bool) and a >= 0 and b >= 0:
        # two different constants selected by a symbolic condition (`if rex_r == 0 { 0x48 } else { 0x4c }`): bitwise ite
        w = 8 if max(a, b) < 256 else (32 if max(a, b) < (1 << 32) else 64)
        return merge(c, BV.const(a, w), BV.const(b, w))
    raise FoldError("merge")


def _pat_ids(p):
    if p["p"] == "bind":
        return [p["id"]]
    if p["p"] == "tuple":
        out = []
        for x in p["elems"]:
            out += _pat_ids(x)
        return out
    return []


class _Ret(Exception):
    def __init__(self, v):
        self.v = v


def encode(facts, folder, enum_path, variant, nbits, negative, nbytes=4, fn=None):
    """Symbolically run `<enum>::write_to_value(variant, v, negative, dest)`; returns the dest cells."""
    se = SymEval(facts, folder)
    fn = fn or (enum_path + "::write_to_value")
    v = BV([("a", ("v", i)) if i < nbits else C0 for i in range(64)])
    cells = [("a", ("old", j)) for j in range(nbytes * 8)]
    dest = Bytes(cells)
    se.run_fn(fn, [Enum(enum_path + "::" + variant), v, negative, dest])
    return cells


def decode(facts, folder, enum_path, variant, word_cells, fn=None):
    se = SymEval(facts, folder)
    b = Bytes(list(word_cells))
    return se.run_fn(fn or (enum_path + "::read_value"), [Enum(enum_path + "::" + variant), b])
