"""Queries over HIR expression trees (JSON facts)."""
from fold import walk


def strip(e):
    """Remove `?` desugaring, borrows, DropTemps, casts-to-same and single-expression blocks."""
    while isinstance(e, dict):
        k = e.get("e")
        if k == "match" and str(e.get("src", "")).startswith("TryDesugar"):
            e = e["scrut"]["args"][0]
            continue
        if k in ("addrof", "use") or (k == "constblock" and "a" in e):
            e = e["a"]
            continue
        if k == "un" and e["op"] == "*":
            e = e["a"]
            continue
        if k == "block" and not e["stmts"] and e["expr"] is not None:
            e = e["expr"]
            continue
        break
    return e


def calls(e, pred=None):
    """All call / method-call nodes below e: yields (def path, node)."""
    for x in walk(e):
        if x.get("e") == "call" and x["f"].get("e") == "path":
            d = x["f"].get("def")
            if pred is None or pred(d):
                yield d, x
        elif x.get("e") == "mcall":
            d = x.get("def")
            if pred is None or pred(d):
                yield d, x


def literals(e):
    """String/char/byte literals below e."""
    out = []
    for x in walk(e):
        if x.get("e") == "lit" and x.get("lk") in ("str", "char", "byte", "bytestr"):
            out.append(x["v"])
    return out


def loops(e):
    for x in walk(e):
        if x.get("e") == "loop":
            yield x


def skeleton(e, leaf):
    """Canonical string of the operator structure of e; `leaf(node)` may return a name to stop at."""
    e = strip(e)
    if not isinstance(e, dict):
        return "?"
    r = leaf(e)
    if r is not None:
        return r
    k = e.get("e")
    if k == "lit":
        return f"lit:{e['v']}"
    if k == "path":
        if e.get("res") == "Local":
            return f"local:{e['name']}"
        return (e.get("def") or "?").split("::")[-1]
    if k == "bin":
        return f"({skeleton(e['a'], leaf)} {e['op']} {skeleton(e['b'], leaf)})"
    if k == "un":
        return f"({e['op']}{skeleton(e['a'], leaf)})"
    if k == "cast":
        return f"({skeleton(e['a'], leaf)} as {e['ty']})"
    if k == "call":
        f = e["f"]
        name = (f.get("def") or "?")
        name = "::".join(name.split("::")[-2:]) if f.get("res") in ("AssocFn",) else name.split("::")[-1]
        return f"{name}({', '.join(skeleton(a, leaf) for a in e['args'])})"
    if k == "mcall":
        return f"{skeleton(e['recv'], leaf)}.{e['name']}({', '.join(skeleton(a, leaf) for a in e['args'])})"
    if k == "block":
        parts = []
        for s in e["stmts"]:
            if s["s"] == "let":
                parts.append(f"let {pat_name(s['pat'])} = {skeleton(s['init'], leaf) if s['init'] else '_'}")
            else:
                parts.append(skeleton(s["e"], leaf))
        if e["expr"] is not None:
            parts.append(skeleton(e["expr"], leaf))
        return "{" + "; ".join(parts) + "}"
    if k == "if":
        return f"if {skeleton(e['cond'], leaf)} {skeleton(e['then'], leaf)}" + (f" else {skeleton(e['else'], leaf)}" if e["else"] else "")
    if k == "ret":
        return f"return {skeleton(e['val'], leaf) if e['val'] else ''}"
    if k == "tup":
        return "(" + ", ".join(skeleton(x, leaf) for x in e["elems"]) + ")"
    if k == "match":
        return f"match {skeleton(e['scrut'], leaf)} {{..}}"
    if k == "assign":
        return f"{skeleton(e['a'], leaf)} = {skeleton(e['b'], leaf)}"
    if k == "assignop":
        return f"{skeleton(e['a'], leaf)} {e['op']} {skeleton(e['b'], leaf)}"
    if k == "index":
        return f"{skeleton(e['a'], leaf)}[{skeleton(e['i'], leaf)}]"
    if k == "closure":
        return "|" + ",".join(pat_name(p) for p in e["params"]) + "| " + skeleton(e["body"], leaf)
    if k == "field":
        return f"{skeleton(e['a'], leaf)}.{e['name']}"
    if k == "struct":
        return "struct{" + ", ".join(f"{n}: {skeleton(v, leaf)}" for n, v in e["fields"]) + "}"
    if k == "unary" or k == "deref":
        return f"(*{skeleton(e['a'], leaf)})" if "a" in e else k
    return k or "?"


def pat_name(p):
    if p["p"] == "bind":
        return p["name"]
    if p["p"] == "tuple":
        return "(" + ",".join(pat_name(x) for x in p["elems"]) + ")"
    return "_"


def pat_ctor(p):
    """(ctor def path, [sub-binding names]) of a struct/tuple-struct/path pattern"""
    while p["p"] in ("bind",) and p.get("sub"):
        p = p["sub"]
    if p["p"] == "tstruct":
        return p["path"].get("def"), [pat_name(x) for x in p["elems"]]
    if p["p"] == "struct":
        return p["path"].get("def"), [pat_name(x[1]) for x in p["fields"]]
    if p["p"] == "expr":
        return p["v"].get("def"), []
    return None, []


def let_map(body):
    """binding id -> initialiser expression, for simple `let x = init;` statements (single binding pattern)"""
    out = {}
    for x in walk(body):
        if x.get("e") == "block":
            for s in x["stmts"]:
                if s["s"] == "let" and s["init"] is not None and s["pat"].get("p") == "bind" and "Mut" not in s["pat"].get("mode", "").split(",")[-1]:
                    out[s["pat"]["id"]] = s["init"]
    return out


def inlined(e, lets, depth=4, keep=()):
    """skeleton of e with immutable let-bound locals replaced by their initialisers (robust to
    extract-variable refactorings)."""
    def leaf(n, d=[depth]):
        if n.get("e") == "path" and n.get("res") == "Local" and n["id"] in lets and n["name"] not in keep and d[0] > 0:
            d[0] -= 1
            r = skeleton(lets[n["id"]], leaf)
            d[0] += 1
            return r
        return None
    return skeleton(e, leaf).replace("local:", "")


def statements(body):
    """every statement/expression node that is an assignment or compound assignment"""
    for x in walk(body):
        if x.get("e") in ("assign", "assignop"):
            yield x


def pat_alts(p):
    """alternatives of an or-pattern (or the pattern itself)"""
    while p["p"] == "bind" and p.get("sub"):
        p = p["sub"]
    if p["p"] == "or":
        out = []
        for a in p["alts"]:
            out += pat_alts(a)
        return out
    return [p]


def pat_lits(p):
    """literal/const values of a (possibly or-) pattern; None for patterns that are not literal"""
    out = []
    for a in pat_alts(p):
        if a["p"] == "expr":
            v = a["v"]
            if v.get("e") == "lit":
                out.append(v["v"])
            elif v.get("val") is not None:
                out.append(v["val"])
            else:
                out.append(v.get("def"))
        elif a["p"] == "wild":
            out.append("_")
        else:
            out.append(None)
    return out


def match_arms(m, leaf=lambda n: None):
    """[(set of ctor names or literals, guard skeleton, body node)] of a match expression"""
    out = []
    for arm in m["arms"]:
        names = []
        for a in pat_alts(arm["pat"]):
            c, _ = pat_ctor(a)
            if c:
                names.append(c.split("::")[-1])
            elif a["p"] == "expr" and a["v"].get("e") == "lit":
                names.append(a["v"]["v"])
            elif a["p"] == "wild":
                names.append("_")
            elif a["p"] == "bind":
                names.append("_bind")
            else:
                names.append(a["p"])
        out.append((names, skeleton(arm["guard"], leaf) if arm.get("guard") else None, arm["body"]))
    return out


def pmatch(pattern, text, mode="in"):
    """Rename-insensitive match of an operator skeleton. In `pattern`, `$name` stands for *some* identifier (a local or a parameter): every occurrence of
    the same `$name` must be the same identifier, different `$names` may or may not differ. Everything else is literal.
    mode: 'in' (substring), 'start' (prefix), 'eq' (whole string). Returns the match object (truthy) or None."""
    import re
    out = []
    seen = set()
    i = 0
    while i < len(pattern):
        if pattern[i] == "$":
            j = i + 1
            while j < len(pattern) and (pattern[j].isalnum() or pattern[j] == "_"):
                j += 1
            nm = pattern[i + 1:j]
            if nm in seen:
                out.append(f"(?P={nm})")
            else:
                seen.add(nm)
                out.append(f"(?P<{nm}>[A-Za-z_][A-Za-z0-9_]*)")
            i = j
        else:
            out.append(re.escape(pattern[i]))
            i += 1
    rx = "".join(out)
    if mode == "eq":
        return re.fullmatch(rx, text)
    if mode == "start":
        return re.match(rx, text)
    return re.search(rx, text)
