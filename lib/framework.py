"""Check runner: obligations, violations, known findings, evidence, replay files."""
import importlib
import json
import os
import sys
import time

VERIF = os.path.dirname(os.path.dirname(os.path.abspath(__file__)))
sys.path.insert(0, os.path.join(VERIF, "lib"))
sys.path.insert(0, os.path.join(VERIF, "props"))

import facts as factsmod  # noqa: E402
import mir  # noqa: E402


class AnchorLost(Exception):
    pass


class Report:
    def __init__(self, prop):
        self.prop = prop
        self.obligations = []  # dicts
        self.violations = []   # dicts with key
        self.notes = []
        self.counters = {}
        self.assumptions = []
        self.rules = []

    def rule(self, name, text):
        """Declare a rule (name + what it checks) for the evidence file."""
        self.rules.append({"rule": name, "text": text})

    def ob(self, rule, instance, ok, detail="", file=None, line=None, anchor=""):
        """One obligation = one rule instance at one site. Not ok => violation."""
        key = f"{self.prop}:{rule}:{anchor}:{instance}" if anchor else f"{self.prop}:{rule}:{instance}"
        rec = {"key": key, "rule": rule, "instance": instance, "ok": bool(ok), "detail": detail}
        if file:
            rec["where"] = f"{file}:{line}" if line else file
        self.obligations.append(rec)
        if not ok:
            self.violations.append(rec)
        return ok

    def lost(self, rule, what):
        """Fail closed: an anchor the rule needs could not be found."""
        self.ob(rule, f"anchor-lost:{what}", False, f"anchor lost: cannot establish clause ({what})")

    def floor(self, rule, what, count, floor):
        self.ob(rule, f"floor:{what}", count >= floor,
                f"{what}: matched {count} sites, floor {floor} (a rule matching fewer sites than were confirmed by hand passes vacuously)")

    def count(self, name, n=1):
        self.counters[name] = self.counters.get(name, 0) + n

    def note(self, text):
        self.notes.append(text)

    def assume(self, text):
        if text not in self.assumptions:
            self.assumptions.append(text)


class Ctx:
    def __init__(self, tier, config="default", repo=None):
        self.tier = tier
        self.config = config
        self.repo = repo
        self._facts = {}
        self._prog = {}

    def facts(self, config=None):
        config = config or self.config
        if config not in self._facts:
            self._facts[config] = factsmod.Facts(config, self.repo)
        return self._facts[config]

    def program(self, config=None):
        config = config or self.config
        if config not in self._prog:
            self._prog[config] = mir.Program(self.facts(config))
        return self._prog[config]


def load_known():
    p = os.path.join(VERIF, "known_findings.json")
    if not os.path.exists(p):
        return []
    with open(p) as fh:
        return json.load(fh)["findings"]


def _evaluate(mod, prop, tier, config, repo=None):
    """Runs the property's rules once (one build configuration, one tree) and returns the report."""
    rep = Report(prop)
    ctx = Ctx(tier, config=config, repo=repo)
    try:
        mod.run(ctx, rep)
    except AnchorLost as e:
        rep.lost("anchor", str(e))
    except RuntimeError as e:
        rep.ob("extract", "facts", False, f"fact extraction failed: {e}")
    except Exception as e:  # fail closed: a rule that cannot be evaluated on this tree must not look like a pass
        import traceback
        tb = traceback.extract_tb(e.__traceback__)
        where = f"{os.path.basename(tb[-1].filename)}:{tb[-1].lineno}" if tb else "?"
        sys.stderr.write(traceback.format_exc())
        rep.ob("evaluate", "rule-evaluation", False, f"a rule could not be evaluated on this tree ({type(e).__name__}: {e} at {where}): the shape it is anchored on changed; the clauses it decides are not established")
    return rep, ctx


def seeds_for(prop):
    """Seeded breaking changes kept under /verif/seeded whose meta.json names this property (or lists it under also_checked_by)."""
    base = os.path.join(VERIF, "seeded")
    out = []
    if not os.path.isdir(base):
        return out
    for d in sorted(os.listdir(base)):
        mp = os.path.join(base, d, "meta.json")
        pp = os.path.join(base, d, "patch.diff")
        if not (os.path.exists(mp) and os.path.exists(pp)):
            continue
        try:
            with open(mp) as fh:
                m = json.load(fh)
        except Exception:
            continue
        if m.get("property") == prop or prop in (m.get("also_checked_by") or []):
            out.append((d, pp, m))
    return out


def sensitivity(mod, prop, known_keys):
    """Thorough tier: every seeded breaking change for this property is applied to a scratch copy of the *current* tree (outside
    /repo and /verif, removed afterwards) and the rules must report a violation there. Analysis of a variant source tree; wild is
    never run. Returns a list of records for the evidence file."""
    import shutil
    import subprocess
    import tempfile
    out = []
    for sid, patch, meta in seeds_for(prop):
        tmp = tempfile.mkdtemp(prefix=f"verif_sens_{prop}_", dir="/tmp")
        rec = {"seed": sid, "status": None}
        try:
            subprocess.run(["rsync", "-a", "--exclude", "target", "--exclude", ".git", factsmod.REPO + "/", tmp + "/"], check=True)
            r = subprocess.run(["git", "apply", "--whitespace=nowarn", patch], cwd=tmp, stdout=subprocess.PIPE, stderr=subprocess.STDOUT, text=True)
            if r.returncode != 0:
                r2 = subprocess.run(["patch", "-p1", "--forward", "-i", patch], cwd=tmp, stdout=subprocess.PIPE, stderr=subprocess.STDOUT, text=True)
                if r2.returncode != 0:
                    rec["status"] = "stale"
                    rec["detail"] = "the seeded patch no longer applies to the current tree"
                    out.append(rec)
                    continue
            rep, _ctx = _evaluate(mod, prop, "quick", "default", repo=tmp)
            viol = [v for v in rep.violations if v["key"] not in known_keys]
            if any(v["rule"] == "extract" and v.get("instance") == "facts" for v in viol):   # fact extraction failed (C20/C25 have a rule that is also called `extract`)
                rec["status"] = "stale"
                rec["detail"] = "the patched tree does not compile any more"
            else:
                rec["status"] = "fired" if viol else "missed"
                rec["violations"] = sorted({v["key"] for v in viol})[:6]
        finally:
            shutil.rmtree(tmp, ignore_errors=True)
        out.append(rec)
    return out


def run_check(prop, tier="quick", replay=None):
    t0 = time.time()
    seed = int(os.environ.get("VERIF_SEED", "0") or 0)
    mod = importlib.import_module(prop)
    base_config = os.environ.get("VERIF_CONFIG", "default")
    rep, ctx = _evaluate(mod, prop, tier, base_config)
    configs_done = [base_config]
    sens = []
    if tier == "thorough":
        # (i) every build configuration the repository defines
        for cfg in getattr(mod, "THOROUGH_CONFIGS", ("plugins", "nofork")):
            if cfg == base_config:
                continue
            rep_c, _c = _evaluate(mod, prop, tier, cfg)
            configs_done.append(cfg)
            base_bad = {v["key"] for v in rep.violations}
            for o in rep_c.obligations:
                o2 = dict(o)
                o2["config"] = cfg
                if not o["ok"] and o["key"] in base_bad:
                    continue   # same violation as in the default configuration
                o2["key"] = f"[{cfg}]" + o["key"]
                rep.obligations.append(o2)
                if not o["ok"]:
                    rep.violations.append(o2)
            for a in rep_c.assumptions:
                rep.assume(a)
            rep.notes += [f"[{cfg}] {n}" for n in rep_c.notes]

    known = [k for k in load_known() if k["property"] == prop]
    known_keys = {k["key"]: k for k in known if k.get("status", "known") == "known"}
    new_violations = []
    seen_known = []
    def _base_key(k):
        return k.split("]", 1)[1] if k.startswith("[") and "]" in k else k
    for v in rep.violations:
        if _base_key(v["key"]) in known_keys:
            seen_known.append(v)
        else:
            new_violations.append(v)
    # de-duplicate
    uniq = {}
    for v in new_violations:
        uniq.setdefault(v["key"], v)
    new_violations = list(uniq.values())
    uk = {}
    for v in seen_known:
        uk.setdefault(_base_key(v["key"]), v)
    seen_known = list(uk.values())

    for v in seen_known:
        k = known_keys[_base_key(v["key"])]
        print(f"KNOWN-FINDING: property={prop} {k['what']} [{v['key']}]")

    if tier == "thorough":
        sens = sensitivity(mod, prop, set(known_keys))
        for r in sens:
            print(f"sensitivity: seed {r['seed']}: {r['status']}" + (f" ({'; '.join(r.get('violations', [])[:2])})" if r.get("violations") else ""))
            if r["status"] == "missed":
                print(f"WARNING: the rules of {prop} do not report the seeded change {r['seed']} (checker weakness, not a violation of the tree)")
    distinct = len({o["key"] for o in rep.obligations})
    discharged = sum(1 for o in rep.obligations if o["ok"])
    samples = _samples(rep.obligations, seed)
    ev = {
        "property_id": prop,
        "tier": tier,
        "seed": seed,
        "level": "other",
        "coverage": {
            "explanation": getattr(mod, "EXPLANATION", "static rules over the resolved program (MIR/HIR facts extracted by a rustc driver from /repo's current tree)"),
            "obligations": len(rep.obligations),
            "discharged": discharged,
            "evaluations": max(len(rep.obligations), 1),
            "distinct_nontrivial": distinct,
            "rule": "one obligation = one rule instance at one site (call site, match arm, table row, CFG path class) of the current tree; distinct = distinct obligation keys",
            "rules": rep.rules,
            "samples": samples,
            "counters": rep.counters,
            "known_findings_matched": [v["key"] for v in seen_known],
            "notes": rep.notes,
            "config": ctx.config,
            "configurations": configs_done,
            "sensitivity": sens,
            "exhaustive": True,
        },
        "assumptions": rep.assumptions + [
            "rustc's name resolution, type checking and MIR construction are trusted",
            "class-hierarchy expansion of trait-method calls is sound because the workspace is closed",
        ],
        "wall_s": round(time.time() - t0, 2),
        "violations": len(new_violations),
    }
    # evidence describes /repo itself: runs against a scratch tree (WILD_REPO) or another configuration (VERIF_CONFIG) are development
    # aids and must not overwrite it
    evdir = os.path.join(VERIF, "evidence")
    if os.path.realpath(factsmod.REPO) != "/repo" or base_config != "default":
        evdir = os.path.join(factsmod.CACHE, "scratch-evidence")
    os.makedirs(evdir, exist_ok=True)
    with open(os.path.join(evdir, f"{prop}.json"), "w") as fh:
        json.dump(ev, fh, indent=1)

    print(f"{prop} [{tier}] obligations={len(rep.obligations)} discharged={discharged} "
          f"known={len(seen_known)} new_violations={len(new_violations)} wall={ev['wall_s']}s")
    if new_violations:
        rdir = os.path.join(factsmod.CACHE, "replay")
        os.makedirs(rdir, exist_ok=True)
        rpath = os.path.join(rdir, f"{prop}.json")
        with open(rpath, "w") as fh:
            json.dump({"property": prop, "tier": tier, "violations": new_violations}, fh, indent=1)
        for v in new_violations:
            print(f"  {v.get('where', '?')}  {v['rule']}  {v['instance']}  {v['detail']}")
        print(f"VIOLATION property={prop} replay={rpath}")
        return 1
    return 0


def _samples(obs, seed):
    if not obs:
        return [{"note": "no obligations"}]
    import random
    r = random.Random(seed)
    idx = list(range(len(obs)))
    r.shuffle(idx)
    picked = [obs[i] for i in sorted(idx[:8])]
    # always show failing ones first
    bad = [o for o in obs if not o["ok"]][:6]
    return bad + picked
