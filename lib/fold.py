"""Constant folder over the type-checked HIR facts: evaluates closed expressions (literals, named
constants, struct/tuple/enum constructors, arithmetic, casts, `match` on constants, calls of workspace
`const fn`s with constant arguments by folding the callee's body from its source tree).

This is constant propagation over syntax trees: there are no inputs, nothing of the repository is run."""

MASK64 = (1 << 64) - 1


class FoldError(Exception):
    pass


class Enum:
    """Value of an enum / tuple-struct constructor: path + positional args, or a struct with fields."""
    __slots__ = ("path", "args", "fields")

    def __init__(self, path, args=(), fields=None):
        self.path = path
        self.args = tuple(args)
        self.fields = fields

    def __repr__(self):
        if self.fields is not None:
            return f"{self.path}{{{', '.join(f'{k}: {v!r}' for k, v in self.fields.items())}}}"
        if self.args:
            return f"{self.path}({', '.join(map(repr, self.args))})"
        return self.path

    def __eq__(self, other):
        return isinstance(other, Enum) and self.path == other.path and self.args == other.args and self.fields == other.fields

    def __hash__(self):
        return hash((self.path, self.args))

    @property
    def name(self):
        return self.path.split("::")[-1]


INT_TYPES = {"u8": (8, False), "u16": (16, False), "u32": (32, False), "u64": (64, False), "usize": (64, False), "u128": (128, False),
             "i8": (8, True), "i16": (16, True), "i32": (32, True), "i64": (64, True), "isize": (64, True), "i128": (128, True)}


def wrap(v, ty):
    if ty not in INT_TYPES:
        return v
    bits, signed = INT_TYPES[ty]
    v &= (1 << bits) - 1
    if signed and v >> (bits - 1):
        v -= 1 << bits
    return v


class Folder:
    def __init__(self, facts, max_depth=60):
        self.F = facts
        self.hir = facts.hir()
        self.max_depth = max_depth
        self._const_cache = {}

    def body_of(self, path):
        from facts import norm_path
        v = self.hir.get(norm_path(path))
        return v[0] if v else None

    # ------------------------------------------------------------------------------------------------
    def const(self, path):
        from facts import norm_path
        key = norm_path(path)
        if key in self._const_cache:
            return self._const_cache[key]
        b = self.body_of(key)
        if b is None:
            raise FoldError(f"no body for const {path}")
        v = self.eval(b["body"], {}, 0)
        self._const_cache[key] = v
        return v

    def call_fn(self, path, args, depth):
        b = self.body_of(path)
        if b is None:
            raise FoldError(f"no body for fn {path}")
        env = {}
        for p, a in zip(b["params"], args):
            self.bind(p, a, env)
        return self.eval_fn_body(b["body"], env, depth + 1)

    def eval_fn_body(self, e, env, depth):
        try:
            return self.eval(e, env, depth)
        except _Return as r:
            return r.value

    # ------------------------------------------------------------------------------------------------
    def bind(self, pat, val, env):
        """Match `val` against `pat`, binding names into env. Returns True/False."""
        k = pat["p"]
        if k == "wild" or k == "missing":
            return True
        if k == "bind":
            if pat.get("sub") and not self.bind(pat["sub"], val, env):
                return False
            env[pat["id"]] = val
            env[("name", pat["name"])] = val
            return True
        if k == "tuple":
            if not isinstance(val, tuple) or len(val) != len(pat["elems"]):
                return False
            return all(self.bind(p, v, env) for p, v in zip(pat["elems"], val))
        if k == "expr":
            c = self.eval(pat["v"], env, 0)
            return c == val
        if k == "or":
            for alt in pat["alts"]:
                e2 = dict(env)
                if self.bind(alt, val, e2):
                    env.update(e2)
                    return True
            return False
        if k == "range":
            lo = self.eval(pat["lo"], env, 0) if pat["lo"] else None
            hi = self.eval(pat["hi"], env, 0) if pat["hi"] else None
            if lo is not None and val < lo:
                return False
            if hi is not None:
                return val <= hi if pat["inclusive"] else val < hi
            return True
        if k == "tstruct":
            path = pat["path"].get("def")
            if not isinstance(val, Enum) or not _same_ctor(val.path, path):
                return False
            return all(self.bind(p, v, env) for p, v in zip(pat["elems"], val.args))
        if k == "struct":
            path = pat["path"].get("def")
            if not isinstance(val, Enum):
                return False
            if not _same_ctor(val.path, path):
                return False
            for name, p in pat["fields"]:
                if val.fields is None or name not in val.fields:
                    return False
                if not self.bind(p, val.fields[name], env):
                    return False
            return True
        if k == "guard":
            return self.bind(pat["pat"], val, env) and bool(self.eval(pat["cond"], env, 0))
        raise FoldError(f"pattern kind {k}")

    def eval(self, e, env, depth):
        if depth > self.max_depth:
            raise FoldError("depth")
        k = e["e"]
        if k == "lit":
            return e["v"]
        if k == "path":
            r = e.get("res")
            if r == "Local":
                if e["id"] in env:
                    return env[e["id"]]
                if ("name", e["name"]) in env:
                    return env[("name", e["name"])]
                raise FoldError(f"unbound local {e['name']}")
            if r in ("Const", "AssocConst"):
                if "val" in e:
                    return e["val"]
                return self.const(e["def"])
            if r == "Ctor":
                return Enum(_strip_ctor(e["def"]))
            if r == "ConstParam":
                raise FoldError("const param")
            if r in ("Fn", "AssocFn"):
                return ("fn", e["def"])
            if r == "SelfCtor":
                return Enum(_strip_ctor(e["def"]))
            raise FoldError(f"path res {r} {e.get('def')}")
        if k == "tup":
            return tuple(self.eval(x, env, depth + 1) for x in e["elems"])
        if k == "array":
            return [self.eval(x, env, depth + 1) for x in e["elems"]]
        if k == "struct":
            fields = {}
            for n, v in e["fields"]:
                try:
                    fields[n] = self.eval(v, env, depth + 1)
                except FoldError as ex:
                    if not getattr(self, "lenient", False):
                        raise
                    fields[n] = Unknown(str(ex))
            if e.get("base") not in (None, "default-fields"):
                base = self.eval(e["base"], env, depth + 1)
                if isinstance(base, Enum) and base.fields:
                    for n, v in base.fields.items():
                        fields.setdefault(n, v)
            path = e["path"].get("def") or e["ty"]
            if e["path"].get("res") == "SelfTy" or path is None:
                path = e["ty"]
            from facts import norm_path
            return Enum(norm_path(path), (), fields)
        if k == "call":
            f = e["f"]
            args = [self.eval(a, env, depth + 1) for a in e["args"]]
            if f["e"] == "path":
                r = f.get("res")
                if r == "Ctor":
                    return Enum(_strip_ctor(f["def"]), args)
                if r == "SelfCtor":
                    return Enum(_strip_ctor(f["def"]), args)
                if r in ("Fn", "AssocFn"):
                    return self.call_path(f["def"], args, depth)
            raise FoldError(f"call of {f.get('def') or f['e']}")
        if k == "mcall":
            recv = self.eval(e["recv"], env, depth + 1)
            args = [self.eval(a, env, depth + 1) for a in e["args"]]
            return self.method(e, recv, args, depth)
        if k == "bin":
            op = e["op"]
            if op == "&&":
                return bool(self.eval(e["a"], env, depth + 1)) and bool(self.eval(e["b"], env, depth + 1))
            if op == "||":
                return bool(self.eval(e["a"], env, depth + 1)) or bool(self.eval(e["b"], env, depth + 1))
            a = self.eval(e["a"], env, depth + 1)
            b = self.eval(e["b"], env, depth + 1)
            return binop(op, a, b)
        if k == "un":
            a = self.eval(e["a"], env, depth + 1)
            if e["op"] == "-":
                return -a
            if e["op"] == "!":
                if isinstance(a, bool):
                    return not a
                return ~a
            if e["op"] == "*":
                return a
            raise FoldError(f"unop {e['op']}")
        if k == "cast":
            a = self.eval(e["a"], env, depth + 1)
            if isinstance(a, bool):
                a = int(a)
            if isinstance(a, int):
                return wrap(a, e["ty"])
            return a
        if k == "addrof" or k == "use" or (k == "constblock" and "a" in e):
            return self.eval(e["a"], env, depth + 1)
        if k == "block":
            env2 = dict(env)
            for s in e["stmts"]:
                if s["s"] == "let":
                    if s["init"] is None:
                        continue
                    v = self.eval(s["init"], env2, depth + 1)
                    if not self.bind(s["pat"], v, env2):
                        if s.get("else"):
                            self.eval(s["else"], env2, depth + 1)
                        raise FoldError("let pattern mismatch")
                else:
                    self.eval(s["e"], env2, depth + 1)
            if e["expr"] is None:
                return ()
            return self.eval(e["expr"], env2, depth + 1)
        if k == "if":
            c = self.eval(e["cond"], env, depth + 1)
            if c:
                return self.eval(e["then"], env, depth + 1)
            if e["else"] is None:
                return ()
            return self.eval(e["else"], env, depth + 1)
        if k == "let":
            v = self.eval(e["init"], env, depth + 1)
            return self.bind(e["pat"], v, env)
        if k == "match":
            v = self.eval(e["scrut"], env, depth + 1)
            for arm in e["arms"]:
                env2 = dict(env)
                if self.bind(arm["pat"], v, env2):
                    if arm["guard"] is not None and not self.eval(arm["guard"], env2, depth + 1):
                        continue
                    return self.eval(arm["body"], env2, depth + 1)
            raise FoldError("no arm matched")
        if k == "repeat":
            v = self.eval(e["a"], env, depth + 1)
            return _Repeat(v)
        if k == "assign":
            v = self.eval(e["b"], env, depth + 1)
            lhs = e["a"]
            if lhs["e"] == "index":
                arr = self.eval(lhs["a"], env, depth + 1)
                i = self.eval(lhs["i"], env, depth + 1)
                if isinstance(arr, _Repeat):
                    arr.set(i, v)
                    return ()
                if isinstance(arr, list):
                    arr[i] = v
                    return ()
            if lhs["e"] == "path" and lhs.get("res") == "Local":
                env[lhs["id"]] = v
                env[("name", lhs["name"])] = v
                return ()
            raise FoldError("assign target")
        if k == "ret":
            raise _Return(self.eval(e["val"], env, depth + 1) if e["val"] else ())
        if k == "field":
            a = self.eval(e["a"], env, depth + 1)
            if isinstance(a, tuple):
                return a[int(e["name"])]
            if isinstance(a, Enum):
                if a.fields is not None and e["name"] in a.fields:
                    return a.fields[e["name"]]
                if e["name"].isdigit():
                    return a.args[int(e["name"])]
            raise FoldError(f"field {e['name']}")
        if k == "index":
            a = self.eval(e["a"], env, depth + 1)
            i = self.eval(e["i"], env, depth + 1)
            return a[i]
        raise FoldError(f"expr kind {k}")

    def call_path(self, path, args, depth):
        from facts import norm_path
        key = norm_path(path)
        name = key.split("::")[-1]
        if key.startswith(("std::", "core::", "alloc::")):
            if key.endswith("panicking::panic") or "panic" in name:
                raise FoldError("panic")
            if name in ("Some",):
                return Enum("std::option::Option::Some", args)
            if key in ("std::convert::From::from", "std::convert::Into::into") and args:
                return args[0]
            raise FoldError(f"std fn {key}")
        return self.call_fn(key, args, depth)

    def method(self, e, recv, args, depth):
        name = e["name"]
        rt = e.get("recv_ty", "")
        d = e.get("def") or ""
        if isinstance(recv, bool):
            recv_i = int(recv)
        if isinstance(recv, int) and not isinstance(recv, bool):
            ty = rt.lstrip("&")
            if name == "pow":
                return wrap(recv ** args[0], ty)
            if name == "wrapping_add":
                return wrap(recv + args[0], ty)
            if name == "wrapping_sub":
                return wrap(recv - args[0], ty)
            if name == "wrapping_mul":
                return wrap(recv * args[0], ty)
            if name == "wrapping_neg":
                return wrap(-recv, ty)
            if name == "wrapping_shl":
                return wrap(recv << (args[0] % INT_TYPES.get(ty, (64,))[0]), ty)
            if name == "wrapping_shr":
                return wrap(recv >> (args[0] % INT_TYPES.get(ty, (64,))[0]), ty)
            if name in ("max",):
                return max(recv, args[0])
            if name in ("min",):
                return min(recv, args[0])
            if name == "is_power_of_two":
                return recv > 0 and recv & (recv - 1) == 0
            if name == "trailing_zeros":
                return (recv & -recv).bit_length() - 1 if recv else INT_TYPES.get(ty, (64,))[0]
            if name in ("into", "clone", "to_owned"):
                return recv
        if isinstance(recv, Enum) and name in ("clone", "into", "to_owned"):
            return recv
        if isinstance(recv, str):
            if name == "as_bytes":
                return list(recv.encode())
            if name == "len":
                return len(recv.encode())
        if isinstance(recv, list):
            if name == "len":
                return len(recv)
            if name in ("as_slice", "as_ref", "iter"):
                return recv
        # workspace method
        if d and not d.startswith(("std::", "core::", "alloc::")):
            return self.call_fn(d, [recv] + args, depth)
        raise FoldError(f"method {name} on {type(recv).__name__} ({d})")


class Unknown:
    """A sub-expression the folder could not evaluate (lenient mode)."""
    def __init__(self, why):
        self.why = why

    def __repr__(self):
        return f"?({self.why})"


class _Repeat:
    """[v; N] with sparse overrides"""
    def __init__(self, default):
        self.default = default
        self.items = {}

    def set(self, i, v):
        self.items[i] = v

    def __getitem__(self, i):
        return self.items.get(i, self.default)


class _Return(Exception):
    def __init__(self, value):
        self.value = value


def _strip_ctor(path):
    from facts import norm_path
    return norm_path(path)


def _same_ctor(a, b):
    from facts import norm_path
    if a is None or b is None:
        return False
    return norm_path(a) == norm_path(b)


def binop(op, a, b):
    if isinstance(a, bool) and op in ("&", "|", "^", "==", "!="):
        pass
    if op == "+":
        return a + b
    if op == "-":
        return a - b
    if op == "*":
        return a * b
    if op == "/":
        if b == 0:
            raise FoldError("div0")
        q = abs(a) // abs(b)
        return q if (a >= 0) == (b >= 0) else -q
    if op == "%":
        if b == 0:
            raise FoldError("rem0")
        r = abs(a) % abs(b)
        return r if a >= 0 else -r
    if op == "<<":
        return a << b
    if op == ">>":
        return a >> b
    if op == "&":
        return a & b
    if op == "|":
        return a | b
    if op == "^":
        return a ^ b
    if op == "==":
        return a == b
    if op == "!=":
        return a != b
    if op == "<":
        return a < b
    if op == "<=":
        return a <= b
    if op == ">":
        return a > b
    if op == ">=":
        return a >= b
    raise FoldError(f"binop {op}")


def match_table(folder, fn_path, scrut_name=None):
    """For a function whose body is `let pat = match <param> { arms }` (or a tail `match`): returns the
    list of (pattern constants, folded arm value or FoldError, line). Each arm's pattern alternatives
    are folded to their constant values (with the constant's def path)."""
    b = folder.body_of(fn_path)
    if b is None:
        return None
    m = find_first(b["body"], lambda e: e.get("e") == "match" and e["src"] == "Normal")
    if m is None:
        return None
    rows = []
    for arm in m["arms"]:
        pats = flatten_pat(arm["pat"])
        consts = []
        wild = False
        for p in pats:
            if p["p"] == "expr":
                v = p["v"]
                try:
                    consts.append((folder.eval(v, {}, 0), v.get("def") or str(v.get("v"))))
                except FoldError as ex:
                    consts.append((None, v.get("def")))
            elif p["p"] in ("wild", "bind"):
                wild = True
            elif p["p"] == "range":
                consts.append((("range", folder.eval(p["lo"], {}, 0) if p["lo"] else None, folder.eval(p["hi"], {}, 0) if p["hi"] else None, p["inclusive"]), "range"))
            else:
                consts.append((None, p["p"]))
        try:
            val = folder.eval_fn_body(arm["body"], {}, 0)
        except FoldError as ex:
            val = ex
        except _Return as r:
            val = r.value
        rows.append({"consts": consts, "wild": wild, "guard": arm["guard"], "value": val, "line": arm["l"], "body": arm["body"]})
    return rows


def flatten_pat(p):
    if p["p"] == "or":
        out = []
        for a in p["alts"]:
            out += flatten_pat(a)
        return out
    return [p]


def find_first(e, pred):
    for x in walk(e):
        if pred(x):
            return x
    return None


def walk(e):
    """Pre-order walk over all expression nodes (dicts with key 'e')."""
    stack = [e]
    while stack:
        x = stack.pop()
        if isinstance(x, dict):
            if "e" in x:
                yield x
            for v in reversed(list(x.values())):
                if isinstance(v, (dict, list)):
                    stack.append(v)
        elif isinstance(x, list):
            for v in reversed(x):
                if isinstance(v, (dict, list)):
                    stack.append(v)
