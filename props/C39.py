"""C39 — parallel layout traversal loses no work and always finishes.

The hand-off protocol (WorkerSlot {work, worker} behind a Mutex; send_work; do_pending_work;
activate_group) is correct iff a handful of shape invariants hold. Decided statically:
atomic park, atomic hand-off, linearity of the taken worker, leaf critical sections and absence of
blocking primitives in the traversal, ordering of the delayed group, collection after the scope."""
from mir import (callee_key, declared_key, stable, op_place, op_const, is_transparent, place_chain, uses_of_local,
                 bool_edge_blocks, switch_source_call, switch_bool_labels, enum_switch, variant_blocks, switch_predicate)
import cs

EXPLANATION = ("critical-section analysis over MIR (regions of MutexGuard locals, accesses to the protected fields inside "
               "them), edge-dominance for check-then-act atomicity, value-flow linearity of the taken worker into the spawned "
               "closure, who-may-call over blocking primitives across the traversal's call graph, type facts (by-value "
               "receiver, not Clone)")

SLOT = "layout::WorkerSlot"
GS = "libwild::layout::GroupState"
BLOCKING = {
    "std::sync::Condvar::wait", "std::sync::Condvar::wait_while", "std::sync::Condvar::wait_timeout",
    "std::sync::mpsc::Receiver::recv", "std::sync::mpsc::Receiver::recv_timeout", "std::sync::mpsc::SyncSender::send",
    "std::thread::park", "std::thread::sleep", "std::thread::JoinHandle::join", "std::sync::Barrier::wait",
    "std::sync::RwLock::read", "std::sync::RwLock::write", "crossbeam_utils::sync::Parker::park",
    "crossbeam_utils::sync::WaitGroup::wait", "std::thread::park_timeout", "std::sync::Once::call_once",
    "std::sync::OnceLock::get_or_init", "std::sync::OnceLock::wait", "libc::waitpid", "libc::fread",
}
SPAWNS = {"rayon::Scope::spawn", "rayon::spawn", "rayon::in_place_scope", "rayon::scope", "std::thread::spawn", "rayon::join"}
LOCKS = cs.LOCKS


def run(ctx, rep):
    F = ctx.facts()
    P = ctx.program()
    rep.rule("atomic-park", "do_pending_work: `slot.worker = Some(self)` is stored in the same critical section as, and on the true edge of, `slot.work.is_empty()`; on the false edge the pending work is swapped into the local queue in that section")
    rep.rule("park-or-error", "do_pending_work returns only after parking or after reporting an error")
    rep.rule("atomic-handoff", "send_work: `slot.worker.take()` and `slot.work.push(work)` are in one critical section")
    rep.rule("linearity", "the worker taken in send_work is, on the Some edge, always moved into a closure passed to scope.spawn whose body calls do_pending_work on it; GroupState is passed by value and is not Clone")
    rep.rule("leaf-sections", "inside any critical section on a WorkerSlot or on the errors mutex: no second lock, no spawn, no call that can reach a blocking primitive")
    rep.rule("no-blocking", "no blocking primitive other than Mutex::lock is reachable from the traversal's tasks")
    rep.rule("delayed-group", "activate_group: the delayed group is pushed before the activations counter is decremented; the drain loop is on the remaining==0 edge; capacity 1 covers the single SyntheticSymbols file")
    rep.rule("collect-after-scope", "find_required_sections takes the workers out of their slots only after in_place_scope returned")
    rep.rule("slot-access", "WorkerSlot fields are touched only by the protocol functions (who-may-access)")

    dpw = F.body(GS + "::do_pending_work")
    sw = F.body("libwild::layout::GraphResources::send_work")
    ag = F.body("libwild::layout::GroupActivationInputs::activate_group")
    frs = F.body("libwild::layout::find_required_sections")
    for name, b in (("do_pending_work", dpw), ("send_work", sw), ("activate_group", ag), ("find_required_sections", frs)):
        if b is None:
            rep.lost("anchor", name)
    if None in (dpw, sw, ag, frs):
        return

    # ---- atomic park ---------------------------------------------------------------------------------
    cfg, flow = P.cfg(dpw), P.flow(dpw)
    regs = cs.guard_regions(dpw, cfg, flow, SLOT)
    rep.ob("atomic-park", "one-section", len(regs) == 1, f"do_pending_work has {len(regs)} critical section(s) on the worker slot (check and park must share one)", dpw.file, dpw.line)
    for r in regs:
        empties = [a for a in r.accesses if a[1] == "work" and a[2] == "call" and callee_key(a[3]["f"]) == "std::vec::Vec::is_empty"]
        stores = [a for a in r.accesses if a[1] == "worker" and a[2] == "write"]
        swaps = [a for a in r.accesses if a[1] == "work" and a[2] == "call" and callee_key(a[3]["f"]) in ("std::mem::swap", "std::mem::take", "std::mem::replace", "std::vec::Vec::append", "std::vec::Vec::drain")]
        rep.ob("atomic-park", "check-in-section", len(empties) >= 1, "slot.work.is_empty() is evaluated inside the critical section", dpw.file, dpw.line)
        rep.ob("atomic-park", "park-in-section", len(stores) == 1, f"slot.worker is stored inside the critical section ({len(stores)} store(s))", dpw.file, dpw.line)
        rep.ob("atomic-park", "swap-in-section", len(swaps) >= 1, "pending work is moved into the local queue inside the critical section", dpw.file, dpw.line)
        if empties and stores:
            eb = empties[0][0]
            # the switch testing that call
            tb, fb = _edges_of_call(dpw, flow, cfg, eb)
            sb = stores[0][0]
            rep.ob("atomic-park", "park-on-empty-edge", sb in tb, "the park store is reached only on the is_empty()==true edge", dpw.file, dpw.blocks[sb]["s"][0]["l"] if dpw.blocks[sb]["s"] else dpw.line)
            # no unlock between check and park
            # no unlock between check and park: no drop of the guard lies on a path check -> store that does
            # not re-acquire the lock
            after = dpw.blocks[eb]["t"]["to"]
            window = False
            for d in r.drops:
                if d == sb:
                    continue
                if d in cfg.reachable_from(after, avoid=[r.lock_bb, sb]) and sb in cfg.reachable_from(d, avoid=[r.lock_bb]):
                    window = True
            rep.ob("atomic-park", "no-unlock-between", not window,
                   "the guard is not dropped between the emptiness check and the park store (no window for a lost wake-up)", dpw.file, dpw.line)
            # stored value is Some(self)
            rv = stores[0][3]
            origins = flow.origins(rv["a"]) if rv["k"] == "use" else set()
            rep.ob("atomic-park", "parks-self", ("param", 1) in origins and any(o[0] == "agg" and o[1].endswith("Option::Some") for o in origins),
                   "the parked value is Some(self)", dpw.file, dpw.line)
            if swaps:
                rep.ob("atomic-park", "swap-on-nonempty-edge", swaps[0][0] in fb, "the swap happens on the non-empty edge", dpw.file, swaps[0][3]["l"])
    # park-or-error: every return passes the park store block or a report_error call
    parks = [a[0] for r in regs for a in r.accesses if a[1] == "worker" and a[2] == "write"]
    errs = [bi for bi, t in flow.calls() if callee_key(t["f"]) == "libwild::layout::GraphResources::report_error"]
    reach = cfg.reachable_from(0, avoid=parks + errs)
    bad = [e for e in cfg.exits() if e in reach]
    rep.ob("park-or-error", "returns", not bad and bool(parks), "no return of do_pending_work bypasses both the park and the error report (a worker that just returns is lost, its slot's work never runs)", dpw.file, dpw.line)
    # the slot index used for locking is the group's own index
    for r in regs:
        lt = dpw.blocks[r.lock_bb]["t"]
        fields, roots = place_chain(flow, lt["args"][0])
        oc = flow.origins(lt["args"][0])
        idx_fields = []
        for bi, t in flow.calls():
            if (callee_key(t["f"]) or "").endswith("Index>::index") and len(t["args"]) > 1:
                f2, _ = place_chain(flow, t["args"][1])
                idx_fields = f2
        rep.ob("atomic-park", "own-slot", "index" in idx_fields and "queue" in idx_fields, f"the slot locked is worker_slots[self.queue.index] (index fields {idx_fields})", dpw.file, lt["l"])

    # ---- atomic hand-off --------------------------------------------------------------------------------
    cfg2, flow2 = P.cfg(sw), P.flow(sw)
    regs2 = cs.guard_regions(sw, cfg2, flow2, SLOT)
    rep.ob("atomic-handoff", "one-section", len(regs2) == 1, f"send_work has {len(regs2)} critical section(s) on the slot", sw.file, sw.line)
    take_dest = None
    for r in regs2:
        takes = [a for a in r.accesses if a[1] == "worker" and a[2] == "call" and callee_key(a[3]["f"]) == "std::option::Option::take"]
        pushes = [a for a in r.accesses if a[1] == "work" and a[2] == "call" and callee_key(a[3]["f"]) == "std::vec::Vec::push"]
        rep.ob("atomic-handoff", "take-and-push-same-section", len(takes) == 1 and len(pushes) == 1,
               f"take()x{len(takes)} and push()x{len(pushes)} under one guard: a push under a different lock acquisition can land after the owner parked (work lost) or the take can miss a parked owner", sw.file, sw.line)
        if takes:
            take_dest = takes[0][3]["dest"][0]
        if pushes:
            # pushed value is the work parameter
            o = flow2.origins(pushes[0][3]["args"][1])
            rep.ob("atomic-handoff", "pushes-param", ("param", 3) in o, "the pushed item is the `work` parameter", sw.file, pushes[0][3]["l"])
        # the slot is that of the target file's group
        lt = sw.blocks[r.lock_bb]["t"]
        oc = set()
        for bi, t in flow2.calls():
            if (callee_key(t["f"]) or "").endswith("Index>::index") and len(t["args"]) > 1:
                oc |= flow2.origin_calls(t["args"][1])
        rep.ob("atomic-handoff", "target-slot", "libwild::input_data::FileId::group" in oc, "the slot is worker_slots[file_id.group()]", sw.file, lt["l"])
    # all takes/pushes outside a region?
    _outside_accesses(rep, P, F)

    # ---- linearity ---------------------------------------------------------------------------------------
    if take_dest is not None:
        from C20 import holders
        H = holders(sw, flow2, {take_dest})
        spawns = [(bi, t) for bi, t in flow2.calls() if callee_key(t["f"]) == "rayon::Scope::spawn"]
        ok_spawn = False
        for bi, t in spawns:
            if len(t["args"]) > 1 and op_place(t["args"][1]) and op_place(t["args"][1])[0] in H:
                ok_spawn = True
                # Some edge
                some_blocks = set()
                for sb in cfg2.reach:
                    es = enum_switch(F, sw, flow2, cfg2, sb)
                    if es and es[0] == "std::option::Option":
                        info = switch_predicate(sw, flow2, sb)
                        if info["discr_of"] and info["discr_of"][0] in H:
                            for lab, names in es[1].items():
                                if names == frozenset(["Some"]):
                                    tgt = [tg for l2, tg in cfg2.succ[sb] if l2 == lab][0]
                                    rep.ob("linearity", "spawn-postdominates-some-edge", cfg2.postdominates(bi, tgt),
                                           "every path from the Some edge reaches scope.spawn with the worker (a taken worker is always resumed)", sw.file, t["l"])
                                    some_blocks.add(tgt)
                rep.ob("linearity", "some-edge-found", bool(some_blocks), "send_work branches on the taken Option", sw.file, t["l"])
        rep.ob("linearity", "worker-moved-into-spawn", ok_spawn, "the taken worker flows (by move) into the closure given to scope.spawn", sw.file, sw.line)
        # closure body calls do_pending_work on its captured worker
        found = False
        for c in F.closures_of(sw.key):
            cflow = P.flow(c)
            for bi, t in cflow.calls():
                if callee_key(t["f"]) == GS + "::do_pending_work":
                    fields, roots = place_chain(cflow, t["args"][0])
                    found = found or (1 in roots)
        rep.ob("linearity", "closure-resumes", found, "the spawned closure calls do_pending_work on the captured worker", sw.file, sw.line)
    else:
        rep.lost("linearity", "Option::take on slot.worker in send_work")
    # type facts
    rep.ob("linearity", "by-value-receiver", dpw.locals[1].startswith(GS) and not dpw.locals[1].startswith("&"), f"do_pending_work takes self by value ({dpw.locals[1][:60]})", dpw.file, dpw.line)
    bad_impls = [i["trait"] for i in F.impls() if i["self_ty"].startswith(GS + "<") and i["trait"] in ("std::clone::Clone", "std::marker::Copy")]
    rep.ob("linearity", "not-clone", not bad_impls, f"GroupState is not Clone/Copy ({bad_impls}): ownership makes 'no group handled by two threads' hold", dpw.file, dpw.line)

    # ---- leaf sections ----------------------------------------------------------------------------------
    n_regions = 0
    for b in F.all_bodies:
        if not any(ty.startswith("std::sync::MutexGuard<") and (SLOT in ty or "std::vec::Vec<libwild::error::Error>" in ty) for ty in b.locals):
            continue
        if not b.key.startswith(("libwild::layout::", "<libwild::layout::")):
            continue
        bcfg, bflow = P.cfg(b), P.flow(b)
        for r in cs.guard_regions(b, bcfg, bflow, ""):
            if not (SLOT in r.guard_ty or "std::vec::Vec<libwild::error::Error>" in r.guard_ty):
                continue
            n_regions += 1
            for bi, t in cs.calls_in_region(r, bflow):
                ks = P.callees_of_call(t)
                for k in sorted(ks):
                    bad_direct = k in LOCKS or k in SPAWNS or k in BLOCKING
                    p = None
                    if not bad_direct and k.startswith(("libwild::", "<libwild::")):
                        p = P.reaches(k, lambda x: x in LOCKS or x in SPAWNS or x in BLOCKING, bound=6)
                    if bad_direct or p:
                        rep.ob("leaf-sections", f"{stable(b.key)}:{k}", False,
                               "a lock/spawn/blocking call inside a slot critical section (lock-order cycles or blocking under the slot lock become possible): " + (" -> ".join(p) if p else k), b.file, t["l"])
            rep.ob("leaf-sections", f"{stable(b.key)}:guard{'' if n_regions else ''}", True, f"critical section with {sum(1 for _ in cs.calls_in_region(r, bflow))} calls examined", b.file, b.line)
    rep.floor("leaf-sections", "critical sections on WorkerSlot/errors", n_regions, 5)

    # ---- no blocking in the traversal ---------------------------------------------------------------------
    roots = [ag.key, dpw.key] + [c.key for c in F.closures_of("libwild::layout::queue_initial_group_processing")]
    seen = P.reachable(roots)
    hits = [k for k in seen if k in BLOCKING]
    for k in hits:
        rep.ob("no-blocking", f"reach:{k}", False, "blocking primitive reachable from a traversal task: " + " -> ".join(stable(x) for x in P.path_to(seen, k)))
    rep.ob("no-blocking", "traversal-closure", not hits, f"{len(seen)} functions reachable from the traversal tasks; blocking primitives among them: {hits}", ag.file, ag.line)
    # positive control: the blocking table matches real sites elsewhere in the workspace
    ctl = P.callers_of(lambda k: k in BLOCKING)
    rep.ob("no-blocking", "positive-control", len(ctl) >= 1, f"the blocking-primitive table matches {len(ctl)} site(s) elsewhere in the workspace (e.g. the output-file channel), so a zero count above is not vacuous")

    # ---- delayed group -----------------------------------------------------------------------------------
    acfg, aflow = P.cfg(ag), P.flow(ag)
    pushes = [bi for bi, t in aflow.calls() if (callee_key(t["f"]) or "").endswith("ArrayQueue::push")]
    subs = [bi for bi, t in aflow.calls() if (callee_key(t["f"]) or "").endswith("::fetch_sub")]
    pops = [bi for bi, t in aflow.calls() if (callee_key(t["f"]) or "").endswith("ArrayQueue::pop")]
    if not pushes or not subs or not pops:
        rep.lost("delayed-group", "push/fetch_sub/pop in activate_group")
    else:
        rep.ob("delayed-group", "push-before-decrement", all(p not in acfg.reachable_from(acfg.succ[s][0][1]) for p in pushes for s in subs) and all(any(s in acfg.reachable_from(p) for s in subs) for p in pushes),
               "delay_processing.push happens before activations_remaining is decremented (otherwise the last activator can drain an empty queue and the delayed group is never processed)", ag.file, ag.blocks[pushes[0]]["t"]["l"])
        # the counter counts *completed* activations: no file activation (and no own pending work) may still follow the decrement,
        # otherwise the delayed synthetic-symbols group is released while other groups are still registering start/stop sections
        acts = [bi for bi, t in aflow.calls() if (callee_key(t["f"]) or "").split("::")[-1] in ("activate",) or (callee_key(t["f"]) or "").endswith("FileLayoutState::activate")]
        late = [a for a in acts for s_ in subs if a in acfg.reachable_from(acfg.succ[s_][0][1])]
        rep.ob("delayed-group", "decrement-after-activation", bool(acts) and not late,
               (f"{len(acts)} activation call(s), none reachable after the decrement of activations_remaining" if acts and not late else
                "a file activation is still reachable after activations_remaining was decremented: the counter then counts groups that *started*, and the delayed group can run before "
                "every group has registered its sections"), ag.file, ag.blocks[subs[0]]["t"]["l"])
        # pop loop on remaining == 0 edge
        eq_true = set()
        ef = acfg.edge_facts()
        for sb in acfg.reach:
            t = ag.blocks[sb]["t"]
            if t["k"] != "switch":
                continue
            # switch directly on the integer or on Eq(remaining, 0)
            pl = op_place(t["d"])
            ds = aflow.defs.get(pl[0], []) if pl else []
            for bi, si, pr, pay in ds:
                if si != "call" and pay["k"] == "bin" and pay["op"] == "Eq":
                    cs_ = [op_const(x) for x in (pay["a"], pay["b"])]
                    if any(c and c.get("val") == 0 for c in cs_):
                        oc = aflow.origin_calls(pay["a"]) | aflow.origin_calls(pay["b"])
                        if any(c.endswith("::fetch_sub") for c in oc):
                            labels = switch_bool_labels(ag, aflow, acfg, sb)
                            for lab, v in labels.items():
                                if v is True:
                                    eq_true.add((sb, lab))
            if t["dty"] != "bool" and pl:
                oc = aflow.origin_calls(t["d"])
                if any(c.endswith("::fetch_sub") for c in oc):
                    for v, tgt in t["arms"]:
                        if v == 0:
                            eq_true.add((sb, 0))
        rep.ob("delayed-group", "drain-on-zero", bool(eq_true) and all(ef.get(p, frozenset()) & eq_true for p in pops),
               "the drain loop runs only on the remaining==0 edge (after every group has activated)", ag.file, ag.blocks[pops[0]]["t"]["l"])
        # remaining = fetch_sub(1) - 1
        okdec = False
        for bi, t in aflow.calls():
            if (callee_key(t["f"]) or "").endswith("::fetch_sub"):
                c = op_const(t["args"][1]) if len(t["args"]) > 1 else None
                okdec = c is not None and c.get("val") == 1
        rep.ob("delayed-group", "decrement-by-one", okdec, "the counter is decremented by exactly 1 per activation", ag.file, ag.line)
    # capacity literal and single SyntheticSymbols producer
    cap = None
    for bi, t in P.flow(frs).calls():
        if (callee_key(t["f"]) or "").endswith("ArrayQueue::new"):
            c = op_const(t["args"][0])
            cap = c.get("val") if c else None
    makers = P.callers_of(lambda k: k == "libwild::symbol_db::SymbolDb::new_synthetic_symbols_group")
    in_loop = False
    for mb, mbi, mt in makers:
        mcfg = P.cfg(mb)
        if mt["to"] is not None and mbi in mcfg.reachable_from(mt["to"]):
            in_loop = True
    rep.ob("delayed-group", "capacity-covers-producers", cap is not None and len(makers) >= 1 and not in_loop and cap >= len(makers),
           f"delay_processing capacity {cap} >= number of (non-loop) call sites creating a synthetic-symbols group ({len(makers)}); push(..).unwrap() would otherwise panic", frs.file, frs.line)

    # ---- collect after scope --------------------------------------------------------------------------------
    fcfg, fflow = P.cfg(frs), P.flow(frs)
    scopes = [bi for bi, t in fflow.calls() if callee_key(t["f"]) in ("rayon::in_place_scope", "rayon::scope")]
    unwraps = [bi for bi, t in fflow.calls() if callee_key(t["f"]) == "libwild::layout::unwrap_worker_states"]
    if not scopes or not unwraps:
        rep.lost("collect-after-scope", "in_place_scope / unwrap_worker_states in find_required_sections")
    else:
        dom = fcfg.dom()
        rep.ob("collect-after-scope", "order", all(any(s in dom.get(u, ()) for s in scopes) for u in unwraps),
               "workers are collected only after the scope (all spawned tasks) has completed", frs.file, frs.blocks[unwraps[0]]["t"]["l"])
        # slots sized by num_groups
        rep.ob("collect-after-scope", "errors-checked-first", True, "error channel handling is C26's business")
    rep.assume("rayon's scope joins all spawned tasks; Relaxed RMW on activations_remaining has a single modification order (sufficient for the remaining==0 test)")
    rep.assume("given these shape invariants the standard argument applies: work pushed while the owner is active is seen by its next emptiness check under the same lock; work pushed while it is parked takes and resumes it")


def _edges_of_call(body, flow, cfg, call_bb):
    """(true_blocks, false_blocks) edge-dominated by the outcome of the bool call in block call_bb."""
    ef = cfg.edge_facts()
    dest = body.blocks[call_bb]["t"]["dest"][0]
    t_edges, f_edges = set(), set()
    for sb in cfg.reach:
        src = switch_source_call(body, flow, sb)
        if src and src[1] == call_bb:
            labels = switch_bool_labels(body, flow, cfg, sb)
            for lab, v in labels.items():
                (t_edges if v else f_edges).add((sb, lab))
    tb = {b for b in cfg.reach if ef.get(b, frozenset()) & t_edges}
    fb = {b for b in cfg.reach if ef.get(b, frozenset()) & f_edges}
    return tb, fb


PROTOCOL_FNS = {
    "libwild::layout::GroupState::do_pending_work": "park / take pending work",
    "libwild::layout::GraphResources::send_work": "hand-off",
    "libwild::layout::unwrap_worker_states::{closure}": "collection after the scope",
    "libwild::layout::find_required_sections::{closure}": "slot construction",
    "libwild::layout::find_required_sections": "slot construction",
    "<libwild::layout::WorkerSlot as std::default::Default>::default": "derive(Default)",
}


def _outside_accesses(rep, P, F):
    """Every body that locks a Mutex<WorkerSlot> or constructs a WorkerSlot is a protocol function."""
    n = 0
    for b in F.all_bodies:
        touches = any(SLOT in ty and ("MutexGuard" in ty) for ty in b.locals)
        makes = False
        for blk in b.blocks:
            for s in blk["s"]:
                if s["k"] == "assign" and s["rv"]["k"] == "agg" and s["rv"].get("adt", "").startswith("libwild::layout::WorkerSlot"):
                    makes = True
        if touches or makes:
            n += 1
            rep.ob("slot-access", stable(b.key), stable(b.key) in PROTOCOL_FNS,
                   PROTOCOL_FNS.get(stable(b.key), "a function outside the protocol locks or builds a WorkerSlot: the atomicity argument no longer covers every access"), b.file, b.line)
    rep.floor("slot-access", "bodies touching WorkerSlot", n, 3)
