"""C29 — alignment arithmetic is exact.

Decided statically: the acceptance clause (an alignment is accepted exactly when it is a power of two no
larger than 2^16): bound constants, guards of Alignment::new from MIR, every literal exponent <= 16,
the field is only written by the constructor; value() = 1 << exponent and mask() = value() - 1 by
constant folding for all 17 exponents; align_down is *exactly* "clear the low e bits" for every 64-bit
value, by bit-provenance interpretation for each exponent; align_up is the library's
next_multiple_of(value()). align_modulo: one-alignment shape + tabulation of its MIR over a boundary grid against the specification."""
import bitflow
import fold
import hirq
from bitflow import BV, SymEval, C0
from mir import (bool_edge_blocks, callee_key, op_const, op_place, stable, switch_chain, switch_bool_labels)

EXPLANATION = ("constant facts from the compiler, edge-dominance over the MIR of Alignment::new, inventory of every Alignment "
               "aggregate and field store, constant folding of value()/mask(), and bit-provenance interpretation of align_down "
               "over a fully symbolic 64-bit value for each of the 17 exponents (exact, no sampling)")

A = "libwild::alignment::Alignment"
NON_LITERAL_OK = {
    "<libwild::alignment::Alignment as std::default::Default>::default": "derive(Default): exponent 0",
    "libwild::args::elf::setup_argument_parser::{closure}": "-z max-page-size: the loadable-segment page size, power-of-two checked; deliberately not bounded by the section-alignment maximum (2 MiB pages are legitimate) and only ever returned by loadable_segment_alignment()",
    "libwild::part_id::PartId::alignment": "exponent = NUM_ALIGNMENTS - 1 - (offset % NUM_ALIGNMENTS): within 0..=16 by the modulus",
}


def run(ctx, rep):
    F = ctx.facts(); P = ctx.program()
    FD = fold.Folder(F)
    rep.rule("bound", "MAX_ALIGNMENT_EXPONENT = 16, NUM_ALIGNMENTS = 17, MAX.exponent = 16")
    rep.rule("new-guards", "Alignment::new returns Ok only on the is_power_of_two() true edge and the false edge of exponent > MAX.exponent; both failures return Err")
    rep.rule("literals", "every Alignment { exponent: literal } in the workspace has exponent <= 16; the exponent field is stored only by aggregates (never assigned)")
    rep.rule("value-mask", "value() folds to 2^e and mask() to 2^e - 1 for every e in 0..=16")
    rep.rule("align-down-exact", "for every exponent e: align_down(v) keeps bits >= e of v unchanged and zeroes bits < e (the largest multiple of 2^e not above v), for all 2^64 values")
    rep.rule("align-up-idiom", "align_up(v) is v.next_multiple_of(value()) (smallest multiple of 2^e not below v)")
    consts = F.consts()
    rep.ob("bound", "MAX_ALIGNMENT_EXPONENT", consts.get("libwild::alignment::MAX_ALIGNMENT_EXPONENT") == 16, f"= {consts.get('libwild::alignment::MAX_ALIGNMENT_EXPONENT')}")
    rep.ob("bound", "NUM_ALIGNMENTS", consts.get("libwild::alignment::NUM_ALIGNMENTS") == 17, f"= {consts.get('libwild::alignment::NUM_ALIGNMENTS')}")
    try:
        mx = FD.const("libwild::alignment::MAX")
        rep.ob("bound", "MAX", mx.fields["exponent"] == 16, f"MAX = {mx!r}")
    except fold.FoldError as e:
        rep.lost("bound", f"alignment::MAX ({e})")

    # ---- new guards ---------------------------------------------------------------------------------
    b = F.body(A + "::new")
    if b is None:
        rep.lost("new-guards", A + "::new")
    else:
        cfg, flow = P.cfg(b), P.flow(b)
        tb, fb = bool_edge_blocks(b, flow, cfg, lambda k: k is not None and k.endswith("is_power_of_two"))
        gt_false = set()
        ef = cfg.edge_facts()
        for sb in cfg.reach:
            k, rv, bi, fl = switch_chain(b, flow, sb)
            if k == "bin" and rv["op"] in ("Gt", "Le", "Lt", "Ge"):
                oc = flow.origin_calls(rv["a"]) | flow.origin_calls(rv["b"])
                if any(c.endswith("trailing_zeros") for c in oc):
                    # which operand is the exponent?
                    a_is_exp = any(c.endswith("trailing_zeros") for c in flow.origin_calls(rv["a"]))
                    labels = switch_bool_labels(b, flow, cfg, sb)
                    for lab, v in labels.items():
                        # "exponent > max" false  <=>  ok
                        exceeds = v if (rv["op"] == "Gt" and a_is_exp) or (rv["op"] == "Lt" and not a_is_exp) else (not v if (rv["op"] == "Le" and a_is_exp) or (rv["op"] == "Ge" and not a_is_exp) else None)
                        if exceeds is False:
                            gt_false.add((sb, lab))
                    # the bound operand derives from MAX / MAX_ALIGNMENT_EXPONENT (16)
                    other = rv["b"] if a_is_exp else rv["a"]
                    o = flow.origins(other)
                    ok_bound = any(x[0] == "const" and (x[1] == 16 or "MAX" in str(x[2])) for x in o)
                    rep.ob("new-guards", "bound-operand", ok_bound and rv["op"] in ("Gt", "Le"), f"comparison {rv['op']} of the exponent against {sorted(str(x[1:]) for x in o if x[0]=='const')[:3]} (strict: 2^16 itself is accepted)", b.file, b.line)
        oks = [bi for bi, si, pr, pl in flow.defs.get(0, []) if si != "call" and pl["k"] == "agg" and pl.get("variant") == "Ok"]
        rep.ob("new-guards", "ok-needs-power-of-two", bool(oks) and all(o in tb for o in oks), "Ok(..) only on the is_power_of_two() true edge", b.file, b.line)
        rep.ob("new-guards", "ok-needs-bound", bool(gt_false) and all(ef.get(o, frozenset()) & gt_false for o in oks), "Ok(..) only when exponent > MAX.exponent is false", b.file, b.line)
        # exponent stored is trailing_zeros(raw)
        for blk in b.blocks:
            for s in blk["s"]:
                if s["k"] == "assign" and s["rv"]["k"] == "agg" and s["rv"].get("adt") == A:
                    oc = flow.origin_calls(s["rv"]["ops"][0])
                    rep.ob("new-guards", "exponent-is-trailing-zeros", any(c.endswith("trailing_zeros") for c in oc), "exponent = raw.trailing_zeros()", b.file, s["l"])

    # ---- literals -----------------------------------------------------------------------------------------
    n = 0
    for bd in F.all_bodies:
        for blk in bd.blocks:
            if blk.get("cleanup"):
                continue
            for s in blk["s"]:
                if s["k"] != "assign":
                    continue
                rv = s["rv"]
                if rv["k"] == "agg" and rv.get("adt") == A and bd.key != A + "::new":
                    c = op_const(rv["ops"][0])
                    n += 1
                    if c is None:
                        row = NON_LITERAL_OK.get(stable(bd.key))
                        ok = row is not None
                        detail = row or "Alignment built from a non-literal exponent outside Alignment::new (bypasses the acceptance check)"
                        if ok and stable(bd.key) == "libwild::part_id::PartId::alignment":
                            fl = P.flow(bd)
                            o = fl.origins(rv["ops"][0])
                            ok = any(x[0] == "op" and x[1] == "Rem" for x in o) and any(x[0] == "const" and x[1] == 17 for x in o)
                            detail += f"; Rem by 17 present: {ok}"
                        rep.ob("literals", f"{stable(bd.key)}:non-literal", ok, detail, bd.file, s["l"])
                    else:
                        rep.ob("literals", f"{stable(bd.key)}:{c.get('val')}", c.get("val") is not None and 0 <= c["val"] <= 16, f"literal exponent {c.get('val')}", bd.file, s["l"])
                if s["p"][1] and s["p"][1][-1] == ".exponent" and "alignment::Alignment" in bd.locals[s["p"][0]]:
                    rep.ob("literals", f"{stable(bd.key)}:field-store", False, "direct store to Alignment.exponent", bd.file, s["l"])
    # named constants in alignment.rs
    nc = 0
    for k, v in F.hir().items():
        if k.startswith("libwild::alignment::") and v[0]["kind"].startswith("Const"):
            try:
                c = FD.const(k)
            except fold.FoldError:
                continue
            if isinstance(c, fold.Enum) and c.path == A:
                nc += 1
                rep.ob("literals", f"const:{k.split('::')[-1]}", 0 <= c.fields["exponent"] <= 16, f"{k.split('::')[-1]} = 2^{c.fields['exponent']}", v[0]["file"], v[0]["line"])
    rep.floor("literals", "Alignment constants", nc, 20)

    # ---- value / mask ----------------------------------------------------------------------------------------
    for e in range(17):
        al = fold.Enum(A, (), {"exponent": e})
        try:
            v = FD.call_fn(A + "::value", [al], 0)
            m = FD.call_fn(A + "::mask", [al], 0)
        except fold.FoldError as ex:
            rep.ob("value-mask", f"e={e}", False, f"not foldable: {ex}")
            continue
        rep.ob("value-mask", f"e={e}", v == (1 << e) and m == (1 << e) - 1, f"value()={v}, mask()={m}")

    # ---- align_down exact ----------------------------------------------------------------------------------------
    se = SymEval(F, FD)
    for e in range(17):
        v = BV([("a", ("v", i)) for i in range(64)])
        try:
            r = se.run_fn(A + "::align_down", [fold.Enum(A, (), {"exponent": e}), v])
        except Exception as ex:
            rep.ob("align-down-exact", f"e={e}", False, f"not interpretable: {type(ex).__name__}: {ex}")
            continue
        ok = isinstance(r, BV) and all((r.cells[i] == C0) if i < e else (r.cells[i] == ("a", ("v", i))) for i in range(64))
        rep.ob("align-down-exact", f"e={e}", ok, "bits below e cleared, bits from e upwards copied" if ok else f"result {r!r}")

    # ---- align_up idiom ----------------------------------------------------------------------------------------------
    hb = F.hir_body(A + "::align_up")
    if hb is None:
        rep.lost("align-up-idiom", "align_up")
    else:
        sk = hirq.skeleton(hb["body"], lambda n: None)
        ok = "local:value.next_multiple_of(local:self.value())" in sk or ("+ local:self.mask()" in sk.replace("(", "").replace(")", "") and "& (!" in sk)
        rep.ob("align-up-idiom", "shape", ok, f"align_up body: {sk[:120]}", hb["file"], hb["line"])
    rep.assume("u64::next_multiple_of (std) returns the smallest multiple not below the value and panics on overflow")
    align_modulo(ctx, rep, F)
    rep.assume("align_modulo is decided by (i) the one-alignment shape rule and (ii) tabulation of its MIR over a boundary grid of (exponent, reference, offset) - "
               "not by a proof over all 2^64 x 2^64 values")


def align_modulo(ctx, rep, F):
    """align_modulo(a, r, x) = the smallest y >= align_up_a(x) with y ≡ r (mod a)."""
    import mireval
    from mir import callee_key
    P = ctx.program()
    A = "libwild::alignment::Alignment::"
    rep.rule("align-modulo-one-alignment", "every Alignment method called inside align_modulo (align_up, mask, value) is called on the function's own `self`: the value is aligned up to, "
             "and made congruent modulo, the same alignment")
    rep.rule("align-modulo-table", "the MIR of align_modulo (with align_up / mask / value) evaluated for every exponent 0..=16 over a boundary grid of offsets and reference values equals "
             "min { y >= align_up(x) : y ≡ r (mod 2^e) }")
    b = F.body(A + "align_modulo")
    if b is None:
        rep.lost("align-modulo-one-alignment", "Alignment::align_modulo")
        return
    flow = P.flow(b)
    n = 0
    for bi, t in flow.calls():
        ck = callee_key(t["f"]) or ""
        if ck.startswith(A) and t["args"]:
            n += 1
            o = flow.origins(t["args"][0])
            rep.ob("align-modulo-one-alignment", f"{ck.split('::')[-1]}#{n}", o == {("param", 1)},
                   f"{ck.split('::')[-1]} is called on self" if o == {("param", 1)} else
                   f"{ck.split('::')[-1]} is called on a value derived from {sorted(map(str, o))}: the offset is rounded to a different alignment than the one the result must be congruent to "
                   "(the result is then not the *smallest* admissible value)", b.file, t["l"])
    rep.floor("align-modulo-one-alignment", "Alignment method calls in align_modulo", n, 3)
    # tabulation
    bad = None
    count = 0
    try:
        for e in range(0, 17):
            a = 1 << e
            xs = sorted({0, 1, a - 1 if a > 1 else 0, a, a + 1, 2 * a - 1, 2 * a, 3 * a + 1, 4095, 4096, 4097, 65535, 65536, 65537, 0x400420, 0x1234567, (1 << 40) + 3, (1 << 40) + a})
            rs = sorted({0, 1, a - 1 if a > 1 else 0, a, a + 1, 0x420, 0xfff, 0x1000, 0x10001, 0xabcdef, (1 << 33) + 5})
            for x in xs:
                up = (x + a - 1) // a * a
                for r in rs:
                    want = up + ((r - up) % a)
                    got = mireval.call(F, A + "align_modulo", [{"exponent": e}, r, x])
                    count += 1
                    if got != want and bad is None:
                        bad = (e, r, x, got, want)
    except (mireval.EvalError, mireval.Panic) as ex:
        rep.ob("align-modulo-table", "evaluated", False, f"align_modulo could not be tabulated: {type(ex).__name__}: {ex}", b.file, b.line)
        return
    rep.ob("align-modulo-table", "agrees", bad is None,
           f"{count} grid points agree with the specification" if bad is None else
           f"align_modulo(2^{bad[0]}, ref={bad[1]:#x}, offset={bad[2]:#x}) evaluates to {bad[3]:#x}; the smallest admissible value is {bad[4]:#x}", b.file, b.line)
