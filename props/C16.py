"""C16 — linker-script expressions evaluate as in GNU ld.

Decided statically: the precedence/associativity ladder of the recursive-descent parser (extracted
from the type-checked HIR: which operator tokens a level consumes, which parser it calls for its
operands, whether it loops) against C / GNU ld's ldgram.y; the evaluation semantics of each
Expression variant (wrapping arithmetic, signed division with zero check, shifts mod 64, unsigned
comparisons yielding 0/1, logical operators testing != 0) against an accepted-idiom table; that an
ASSERT fails exactly on a zero value; that the evaluator has no catch-all arm."""
import fold
import hirq
from mir import callee_key, bool_edge_blocks, op_const, op_place

EXPLANATION = ("structural extraction of the parser ladder and of each evaluator arm's operator skeleton from HIR facts, "
               "compared with oracle tables (C precedence as in GNU ld's ldgram.y; per-operator semantics of ldexp.c); "
               "edge rule on the ASSERT test from MIR")

LS = "libwild::linker_script::"
# C / GNU ld precedence, lowest first. Each level: set of operator tokens.
C_LADDER = [
    # `^` is not part of the oracle: the GNU ld in reach rejects it ("invalid character `^' in expression")
    {"||"}, {"&&"}, {"|"}, {"&"}, {"==", "!="}, {"<", "<=", ">", ">="}, {"<<", ">>"}, {"+", "-"}, {"*", "/"},
]

# accepted evaluation idioms per Expression variant: predicate over the operator skeleton of the arm
def _has(*subs):
    return lambda s: all(x in s for x in subs)


EVAL_ORACLE = {
    "Add": (_has("L.wrapping_add(R)"), "64-bit wrapping addition"),
    "Subtract": (_has("L.wrapping_sub(R)"), "64-bit wrapping subtraction, left minus right"),
    "Multiply": (_has("L.wrapping_mul(R)"), "64-bit wrapping multiplication"),
    "Negate": (_has("L.wrapping_neg()"), "two's complement negation"),
    "LessThan": (_has("from((L < R))"), "unsigned comparison yielding 0/1"),
    "GreaterThan": (_has("from((L > R))"), "unsigned comparison yielding 0/1"),
    "LessEqual": (_has("from((L <= R))"), "unsigned comparison yielding 0/1"),
    "GreaterEqual": (_has("from((L >= R))"), "unsigned comparison yielding 0/1"),
    "Equal": (_has("from((L == R))"), "equality yielding 0/1"),
    "NotEqual": (_has("from((L != R))"), "inequality yielding 0/1"),
    "BitwiseAnd": (_has("(L & R)"), "bitwise and"),
    "BitwiseOr": (_has("(L | R)"), "bitwise or"),
    "BitwiseXor": (_has("(L ^ R)"), "bitwise xor"),
    "BitwiseNot": (_has("(!L)"), "bitwise complement"),
    "LeftShift": (lambda s: "L.wrapping_shl((R as u32))" in s, "shift count taken modulo 64"),
    "RightShift": (lambda s: "L.wrapping_shr((R as u32))" in s, "logical shift, count modulo 64"),
    "LogicalAnd": (_has("from(((L != lit:0) && (R != lit:0)))"), "both operands non-zero"),
    "LogicalOr": (_has("from(((L != lit:0) || (R != lit:0)))"), "either operand non-zero"),
    "LogicalNot": (_has("from((L == lit:0))"), "operand is zero"),
    "Divide": (lambda s: ("== lit:0" in s) and (("as i64" in s and s.count("as i64") >= 2 and ("/" in s or "wrapping_div" in s or "checked_div" in s))),
               "division by zero is an error; otherwise *signed* 64-bit division (GNU ld divides bfd_signed_vma)"),
}


def run(ctx, rep):
    F = ctx.facts(); P = ctx.program()
    rep.rule("ladder", "the chain of parse_* levels from parse_expression, with the operator tokens each consumes and whether it chains (while) — against C precedence and left associativity")
    rep.rule("eval-arm", "each Expression variant's arm in evaluate_expression uses an accepted idiom for the operator's GNU ld semantics, with the operands in source order")
    rep.rule("eval-exhaustive", "evaluate_expression matches on Expression without a catch-all arm")
    rep.rule("assert", "evaluate_assertions fails exactly on the result == 0 edge")
    rep.rule("ctor-agreement", "each parser level builds the Expression variant that corresponds to the token it consumed")

    # ---- ladder -----------------------------------------------------------------------------------
    levels = []
    cur = LS + "parse_expression"
    seen = set()
    while cur and cur not in seen and len(levels) < 20:
        seen.add(cur)
        b = F.hir_body(cur)
        if b is None:
            break
        operand = None
        # operand parser: first parse_next whose receiver is a parse_* fn of this module other than self
        for d, node in hirq.calls(b["body"], lambda d: d and d.endswith("Parser::parse_next")):
            r = hirq.strip(node["recv"])
            if r.get("e") == "path" and r.get("res") == "Fn" and r["def"].startswith(LS + "parse_") and r["def"] != cur:
                operand = r["def"]
                break
        # operator tokens: literals inside loop/if conditions
        toks, chained = set(), None
        for lp in hirq.loops(b["body"]):
            lits = [x for x in hirq.literals(lp) if isinstance(x, str) and x.strip() and not x.isalnum() and len(x) <= 2]
            if lits:
                toks |= set(lits)
                chained = True
        if chained is None:
            for x in fold.walk(b["body"]):
                if x.get("e") == "if":
                    lits = [y for y in hirq.literals(x["cond"]) if isinstance(y, str) and y.strip() and len(y) <= 2 and not y.isalnum()]
                    if lits:
                        toks |= set(lits)
                        chained = False
        ctors = sorted({d.split("::")[-1] for d, n in hirq.calls(b["body"], lambda d: d and d.startswith(LS + "Expression::"))})
        # every sub-expression parser this level invokes (left operand, right operand inside the loop)
        subparsers = []
        for d, node in hirq.calls(b["body"], lambda d: d and d.endswith("Parser::parse_next")):
            r = hirq.strip(node["recv"])
            if r.get("e") == "path" and r.get("res") == "Fn" and r["def"].startswith(LS + "parse_"):
                subparsers.append(r["def"])
        levels.append({"fn": cur, "tokens": toks, "chained": chained, "operand": operand, "ctors": ctors, "file": b["file"], "line": b["line"], "subparsers": subparsers})
        cur = operand
    binary = [lv for lv in levels if lv["tokens"] and lv["fn"] not in (LS + "parse_unary", LS + "parse_primary")]
    rep.floor("ladder", "binary precedence levels found", len(binary), 8)
    # `|` and `&` guards use not('|') / not('&'): the literal sets contain the single char only once
    norm = []
    for lv in binary:
        t = set(lv["tokens"])
        norm.append(t)
    # precedence: position of each operator in wild's ladder vs C
    wild_pos = {}
    for i, t in enumerate(norm):
        for op in t:
            wild_pos.setdefault(op, i)
    c_pos = {op: i for i, t in enumerate(C_LADDER) for op in t}
    ops = [op for op in c_pos if op in wild_pos]
    # order violations, aggregated per pair of parser levels (one root cause per pair)
    bad_pairs = {}
    for a in ops:
        for b_ in ops:
            if c_pos[a] < c_pos[b_] and not (wild_pos[a] < wild_pos[b_]) and wild_pos[a] != wild_pos[b_]:
                la, lb = binary[wild_pos[a]], binary[wild_pos[b_]]
                bad_pairs.setdefault((wild_pos[a], wild_pos[b_]), []).append((a, b_))

    def lname(i):
        # a level is named by the operators it consumes, not by the parser function's name (renames must not change keys)
        return "level[" + " ".join(sorted(norm[i])) + "]"
    for (ia, ib), pairs in sorted(bad_pairs.items()):
        a, b_ = pairs[0]
        lv = binary[ia]
        fa, fb = lv["fn"].split("::")[-1], binary[ib]["fn"].split("::")[-1]
        rep.ob("ladder", f"order:{lname(ia)}-binds-tighter-than:{lname(ib)}", False,
               f"in C and GNU ld `{a}` binds looser than `{b_}` ({len(pairs)} such operator pairs between these two levels); wild parses {fa} below... i.e. `{a}` tighter than `{b_}`: `1 {a} 2 {b_} 2` groups as 1 {a} (2 {b_} 2) in GNU ld but as (1 {a} 2) {b_} 2 in wild",
               lv["file"], lv["line"])
    # separate levels for equality and relational
    for lv, t in zip(binary, norm):
        if t & {"==", "!="} and t & {"<", "<=", ">", ">="}:
            rep.ob("ladder", "merged:equality+relational", False, "equality and relational operators share one level: `1 < 2 == 1` parses as a single non-chained comparison instead of (1 < 2) == 1", lv["file"], lv["line"])
        rep.ob("ladder", f"assoc:{lname(binary.index(lv))}", lv["chained"] is True,
               f"level {sorted(t)} {'chains (left-associative)' if lv['chained'] else 'accepts a single operator: `a op b op c` is rejected or mis-parsed, GNU ld chains left-to-right'}", lv["file"], lv["line"])
    # left associativity: a chaining level parses *both* operands with the next-tighter level. Parsing the right operand with the level
    # itself makes `a op b op c` group as a op (b op c) (differs for - / << >>); parsing it with any other level punches a precedence hole.
    for lv, t in zip(binary, norm):
        subs = lv.get("subparsers") or []
        others = sorted({x.split("::")[-1] for x in subs if x != lv["operand"]})
        rep.ob("ladder", f"operands:{lname(binary.index(lv))}", len(subs) >= 2 and not others,
               f"level {sorted(t)} parses {len(subs)} operand(s), all with {str(lv['operand']).split('::')[-1]}" if not others else
               f"level {sorted(t)} parses an operand with {others} instead of {str(lv['operand']).split('::')[-1]}: "
               + ("the operator becomes right-associative (`a op b op c` = a op (b op c); GNU ld and C group left-to-right)" if lv["fn"].split("::")[-1] in others else "precedence differs from C"),
               lv["file"], lv["line"])
    n_ok = sum(1 for a in ops for b_ in ops if c_pos[a] < c_pos[b_] and wild_pos[a] < wild_pos[b_])
    rep.ob("ladder", "pairs-in-C-order", n_ok >= 1, f"{n_ok} operator pairs are ordered as in C")
    # ctor agreement
    TOK2CTOR = {"||": "LogicalOr", "&&": "LogicalAnd", "|": "BitwiseOr", "^": "BitwiseXor", "&": "BitwiseAnd", "<<": "LeftShift", ">>": "RightShift",
                "+": "Add", "-": "Subtract", "*": "Multiply", "/": "Divide", "<": "LessThan", ">": "GreaterThan", "<=": "LessEqual", ">=": "GreaterEqual",
                "==": "Equal", "!=": "NotEqual"}
    for lv, t in zip(binary, norm):
        exp = {TOK2CTOR[x] for x in t if x in TOK2CTOR}
        rep.ob("ctor-agreement", lv["fn"].split("::")[-1], exp <= set(lv["ctors"]), f"tokens {sorted(t)} build {lv['ctors']}", lv["file"], lv["line"])

    # ---- eval arms -------------------------------------------------------------------------------------
    ev = F.hir_body("libwild::expression_eval::evaluate_expression")
    if ev is None:
        rep.lost("eval-arm", "expression_eval::evaluate_expression")
    else:
        m = fold.find_first(ev["body"], lambda e: e.get("e") == "match" and e["src"] == "Normal")
        adt = F.adt("libwild::linker_script::Expression")
        variants = [v["name"] for v in adt["variants"]] if adt else []
        seen_v = set()
        wild = False
        for arm in m["arms"]:
            ctor, binds = hirq.pat_ctor(arm["pat"])
            if ctor is None:
                wild = wild or arm["pat"]["p"] in ("wild", "bind")
                continue
            v = ctor.split("::")[-1]
            seen_v.add(v)
            if v not in EVAL_ORACLE:
                continue

            def leaf(node, binds=binds):
                if node.get("e") == "call" and node["f"].get("def", "").endswith("evaluate_expression") and node["args"]:
                    a0 = hirq.strip(node["args"][0])
                    if a0.get("e") == "path" and a0.get("res") == "Local":
                        if binds and a0["name"] == binds[0]:
                            return "L"
                        if len(binds) > 1 and a0["name"] == binds[1]:
                            return "R"
                        return f"E({a0['name']})"
                return None
            sk = hirq.skeleton(arm["body"], leaf)
            # resolve let-bound operands: `let divisor = R; ... L / divisor`
            import re
            for mm in re.finditer(r"let (\w+) = ([LR])(?=[;}])", sk):
                sk = sk.replace(f"local:{mm.group(1)}", mm.group(2))
            pred, what = EVAL_ORACLE[v]
            rep.ob("eval-arm", v, bool(pred(sk)), f"{what}; arm computes {sk[:160]}", ev["file"], arm["l"])
        rep.floor("eval-arm", "operator arms", len([v for v in seen_v if v in EVAL_ORACLE]), 20)
        missing = [v for v in variants if v not in seen_v]
        rep.ob("eval-exhaustive", "no-catch-all", not wild and not missing, f"every Expression variant has its own arm (missing {missing}, catch-all {wild})", ev["file"], ev["line"])

    # ---- assert ------------------------------------------------------------------------------------------
    ea = F.body("libwild::expression_eval::evaluate_assertions")
    if ea is None:
        rep.lost("assert", "evaluate_assertions")
    else:
        cfg, flow = P.cfg(ea), P.flow(ea)
        found = False
        ef = cfg.edge_facts()
        for sb in cfg.reach:
            t = ea.blocks[sb]["t"]
            if t["k"] != "switch":
                continue
            oc = flow.origin_calls(t["d"])
            if "libwild::expression_eval::evaluate_expression" not in oc:
                continue
            # either switchInt(result) [0 -> fail] or switch on Eq(result, 0)
            zero_edges = set()
            if t["dty"] != "bool":
                for v, tgt in t["arms"]:
                    if v == 0:
                        zero_edges.add((sb, 0))
            else:
                from mir import switch_chain, switch_bool_labels
                k, rv, bi, fl = switch_chain(ea, flow, sb)
                if k == "bin" and rv["op"] in ("Eq", "Ne") and any(op_const(x) and op_const(x).get("val") == 0 for x in (rv["a"], rv["b"])):
                    for lab, val in switch_bool_labels(ea, flow, cfg, sb).items():
                        if (val and rv["op"] == "Eq") or ((not val) and rv["op"] == "Ne"):
                            zero_edges.add((sb, lab))
            if not zero_edges:
                continue
            found = True
            # Err constructions (bail) must be on the zero edge, except propagation of evaluation errors
            errs = [bi for bi, tt in flow.calls() if (callee_key(tt["f"]) or "") in ("libwild::error::Error::with_message",)]
            on_zero = [b for b in errs if ef.get(b, frozenset()) & zero_edges]
            rep.ob("assert", "fails-on-zero", bool(on_zero), "the assertion error is raised on the result == 0 edge", ea.file, t["l"])
            rep.ob("assert", "only-on-zero", len(on_zero) == len(errs), f"{len(errs)} error construction(s), {len(on_zero)} on the zero edge", ea.file, t["l"])
        if not found:
            rep.lost("assert", "test of the evaluated ASSERT value against zero")
    rep.assume("values of symbols/sections inside expressions are layout results: not decided")
