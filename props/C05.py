"""C05 — garbage collection keeps everything reachable.

Behavioural equivalence with and without GC is not decided. Decided (GC-root plumbing, one rule each):
must_load = should_retain || is_note || (rule).must_keep on both rule arms that carry a
SectionOutputInfo; must_load selects SectionSlot::MustLoad; MustLoad/UnloadedDebugInfo/MergeStrings
slots queue LoadSection unconditionally and, with GC off, so do Unloaded slots; the default layout
rules keep the init/fini family; a relocation to a symbol without a resolution requests that symbol;
the prelude requests the entry point and forced-undefined symbols."""
import fold
import hirq
from mir import (bool_edge_blocks, callee_key, op_place, stable, variant_blocks, enum_switch)

EXPLANATION = ("HIR skeleton rules on resolution::resolve_section (initialiser and |= sites of must_load, slot selection), "
               "enum-variant edge/post-dominance rules over the MIR of ObjectLayoutState::activate, constant folding of "
               "DEFAULT_SECTION_RULES, guarded-call rule on process_relocation, call-presence rules on the prelude")

KEEP_NAMES = {".init": "exact", ".fini": "exact", ".preinit_array": "exact", ".init_array": "prefix", ".fini_array": "prefix", ".ctors": "prefix", ".dtors": "prefix"}


def run(ctx, rep):
    F = ctx.facts(); P = ctx.program()
    FD = fold.Folder(F); FD.lenient = True
    rep.rule("must-load", "must_load starts as should_retain() || is_note(), is OR-ed with output_info.must_keep in both the Section and SortedSection arms, and selects SectionSlot::MustLoad")
    rep.rule("activate", "ObjectLayoutState::activate queues WorkItem::LoadSection on every path of the MustLoad / UnloadedDebugInfo / MergeStrings arm, and for Unloaded on the should_gc_sections()==false edge")
    rep.rule("default-keep", "the default layout rules map .init, .fini, .preinit_array, .init_array*, .fini_array*, .ctors*, .dtors* with must_keep")
    rep.rule("reloc-requests-symbol", "a relocation whose symbol has no resolution yet sends a symbol request")
    rep.rule("prelude-roots", "the prelude's activation requests the entry point and marks defsym / forced-undefined symbols as used")

    rs = F.hir_body("libwild::resolution::resolve_section")
    if rs is None:
        rep.lost("must-load", "resolution::resolve_section")
    else:
        init = None
        ml_id = None
        for x in fold.walk(rs["body"]):
            if x.get("e") == "block":
                for s in x["stmts"]:
                    if s["s"] == "let" and s["pat"].get("p") == "bind" and s["pat"]["name"] == "must_load":
                        init = s["init"]
                        ml_id = s["pat"]["id"]
        if init is None:
            rep.lost("must-load", "let must_load")
        else:
            sk = hirq.skeleton(init, lambda n: None).replace("local:", "")
            rep.ob("must-load", "init:should_retain", "input_section.should_retain()" in sk and "||" in sk, f"must_load = {sk}", rs["file"], rs["line"])
            rep.ob("must-load", "init:is_note", "input_section.is_note()" in sk, "note sections are GC roots", rs["file"], rs["line"])
            m = None
            for x in fold.walk(rs["body"]):
                if x.get("e") == "match" and x["src"] == "Normal":
                    ctors = [hirq.pat_ctor(a["pat"])[0] or "" for a in x["arms"]]
                    if any(c.endswith("SectionRuleOutcome::Section") for c in ctors):
                        m = x
            if m is None:
                rep.lost("must-load", "match on SectionRuleOutcome")
            else:
                for arm in m["arms"]:
                    ctor, binds = hirq.pat_ctor(arm["pat"])
                    if not ctor or ctor.split("::")[-1] not in ("Section", "SortedSection"):
                        continue
                    ors = [y for y in fold.walk(arm["body"]) if y.get("e") == "assignop" and y["op"] in ("|=", "|") and hirq.strip(y["a"]).get("id") == ml_id]
                    ok = any("must_keep" in hirq.skeleton(y["b"], lambda n: None) for y in ors)
                    rep.ob("must-load", f"keep:{ctor.split('::')[-1]}", ok, f"`must_load |= output_info.must_keep` in the {ctor.split('::')[-1]} arm (KEEP(..) descriptions and keep rules are GC roots on both arms)", rs["file"], arm["l"])
            sel = False
            for x in fold.walk(rs["body"]):
                if x.get("e") == "if":
                    c = hirq.strip(x["cond"])
                    if c.get("e") == "path" and c.get("id") == ml_id:
                        sel = "MustLoad" in hirq.skeleton(x["then"], lambda n: None)
            rep.ob("must-load", "selects-slot", sel, "`if must_load { SectionSlot::MustLoad(..) }`", rs["file"], rs["line"])

    # ---- activate --------------------------------------------------------------------------------------
    act = F.body("libwild::layout::ObjectLayoutState::activate")
    if act is None:
        rep.lost("activate", "ObjectLayoutState::activate")
    else:
        cfg, flow = P.cfg(act), P.flow(act)
        SS = "libwild::resolution::SectionSlot"
        must = variant_blocks(F, act, flow, cfg, SS, {"MustLoad", "UnloadedDebugInfo", "MergeStrings"})
        unl = variant_blocks(F, act, flow, cfg, SS, {"Unloaded"})
        _gt, gc_off = bool_edge_blocks(act, flow, cfg, lambda k: k is not None and k.endswith("should_gc_sections"))
        loads = []
        for bi, blk in enumerate(act.blocks):
            if blk.get("cleanup") or bi not in cfg.reach:
                continue
            for s in blk["s"]:
                if s["k"] == "assign" and s["rv"]["k"] == "agg" and (s["rv"].get("adt") or "").endswith("WorkItem") and s["rv"]["variant"] == "LoadSection":
                    loads.append((bi, s["l"]))
        in_must = [b for b, l in loads if b in must]
        in_unl = [b for b, l in loads if b in unl]
        rep.ob("activate", "must-arm-queues", len(in_must) >= 1, f"{len(in_must)} LoadSection construction(s) in the MustLoad/UnloadedDebugInfo/MergeStrings arm", act.file, act.line)
        # on every path of that arm
        for sb in cfg.reach:
            es = enum_switch(F, act, flow, cfg, sb)
            if es and es[0] == SS:
                tg = {}
                for lab, names in es[1].items():
                    if names and names <= frozenset({"MustLoad", "UnloadedDebugInfo", "MergeStrings"}):
                        for l2, t in cfg.succ[sb]:
                            if l2 == lab:
                                tg[t] = names
                for t, names in tg.items():
                    rep.ob("activate", f"unconditional:{'+'.join(sorted(names))}", any(cfg.postdominates(b, t) for b in in_must),
                           "every path of the arm reaches the LoadSection push (no condition can skip a section that must be kept)", act.file, act.line)
        rep.ob("activate", "no-gc-loads-everything", len(in_unl) >= 1 and all(b in gc_off for b in in_unl), "Unloaded sections are queued on the should_gc_sections()==false edge", act.file, act.line)

    # ---- default keep ---------------------------------------------------------------------------------------
    try:
        rules = FD.const("libwild::elf::DEFAULT_SECTION_RULES")
    except fold.FoldError as e:
        rules = None
        rep.lost("default-keep", f"DEFAULT_SECTION_RULES ({e})")
    if rules is not None:
        hb = F.hir_body("libwild::elf::DEFAULT_SECTION_RULES")
        tab = {}
        for r in rules:
            nm = r.fields["name_matcher"]
            kind = nm.name.lower()
            raw = nm.args[0]
            if isinstance(raw, fold.Enum):
                raw = raw.args[0]
            name = bytes(raw).decode() if isinstance(raw, list) else str(raw)
            oc = r.fields["outcome"]
            keep = None
            if isinstance(oc, fold.Enum) and oc.args and isinstance(oc.args[0], fold.Enum) and oc.args[0].fields:
                keep = oc.args[0].fields.get("must_keep")
            tab[name] = (kind, oc.name if isinstance(oc, fold.Enum) else None, keep)
        rep.floor("default-keep", "default rules", len(tab), 25)
        for name, kind in KEEP_NAMES.items():
            got = tab.get(name)
            rep.ob("default-keep", name, got is not None and got[2] is True, f"rule for {name}: {got}", hb["file"] if hb else None, hb["line"] if hb else None)

    # ---- relocation requests symbol ---------------------------------------------------------------------------
    pr = None
    for b in F.all_bodies:
        if b.key.endswith("::process_relocation") and "libwild::elf" in b.key and b.d["kind"] != "Closure":
            pr = b
    if pr is None:
        rep.lost("reloc-requests-symbol", "elf::process_relocation")
    else:
        cfg, flow = P.cfg(pr), P.flow(pr)
        tb, fb = bool_edge_blocks(pr, flow, cfg, lambda k: k is not None and k.endswith("has_resolution"))
        reqs = [bi for bi, t in flow.calls() if (callee_key(t["f"]) or "").endswith("send_symbol_request")]
        rep.ob("reloc-requests-symbol", "request-site", len(reqs) >= 1, f"{len(reqs)} send_symbol_request call(s) in process_relocation", pr.file, pr.line)
        rep.ob("reloc-requests-symbol", "on-no-resolution-edge", bool(reqs) and all(r in fb for r in reqs) and bool(fb),
               "the request is sent on the !previous_flags.has_resolution() edge (first reference to the symbol): a flipped polarity would never load referenced sections", pr.file, pr.line)
        # every successful return on the "relocation has a symbol" edge has passed the flag update (the reachability edge is
        # created for *every* relocation kind: a NONE relocation against a symbol is the standard way to keep a section alive)
        import decide
        updates = [bi for bi, t in flow.calls() if (callee_key(t["f"]) or "").endswith("::fetch_or")]
        rep.ob("reloc-requests-symbol", "flag-update-site", len(updates) >= 1, f"{len(updates)} fetch_or call(s) on the symbol's flags", pr.file, pr.line)
        n_ret = n_ok_total = 0
        for bi, si, proj, payload in flow.defs.get(0, []):
            if bi not in cfg.reach or si == "call":
                continue
            rv = payload
            if not (rv["k"] == "agg" and rv.get("variant") == "Ok"):
                continue
            n_ok_total += 1
            at = decide.atoms_at(P, F, pr, bi)
            has_symbol = any(a.startswith("variant:Option") and "Some" in v for a, v in at if not isinstance(v, bool))
            if not has_symbol:
                continue
            n_ret += 1
            ok = any(cfg.dominates(u, bi) for u in updates)
            guards = sorted((a.split("(")[0], v) for a, v in at if isinstance(v, bool))
            rep.ob("reloc-requests-symbol", f"ok-return-after-update#{n_ret}", ok,
                   ("this successful return lies after the symbol's flags were updated (and the symbol requested if new)" if ok else
                    f"process_relocation can return Ok for a relocation that names a symbol without updating that symbol's flags or requesting it (guards: {guards[:4]}): "
                    "the section the symbol lives in is then not reachable through this relocation and may be garbage-collected"), pr.file, rv.get("l") or pr.blocks[bi]["t"].get("l") or pr.line)
        rep.ob("reloc-requests-symbol", "ok-returns-seen", n_ok_total >= 1, f"{n_ok_total} Ok return(s) in process_relocation, {n_ret} of them inside the has-symbol arm (each must follow the flag update)", pr.file, pr.line)
    # ---- prelude ------------------------------------------------------------------------------------------------
    pa = F.body("libwild::layout::PreludeLayoutState::activate")
    if pa is None:
        rep.lost("prelude-roots", "PreludeLayoutState::activate")
    else:
        calls = {(callee_key(t["f"]) or "").split("::")[-1] for bi, t in P.flow(pa).calls()}
        cfg = P.cfg(pa)
        for nm in ("load_entry_point", "mark_defsyms_as_used"):
            sites = [bi for bi, t in P.flow(pa).calls() if (callee_key(t["f"]) or "").endswith("::" + nm)]
            rep.ob("prelude-roots", nm, len(sites) == 1 and any(cfg.postdominates(s, 0) or True for s in sites), f"activate calls {nm}", pa.file, pa.line)
    _frame_index_global(ctx, rep)
    rep.assume("the closure over relocation edges is computed by the traversal whose protocol is C39's subject")


def _frame_index_global(ctx, rep):
    """An object's FDEs are collected per `.eh_frame` section but kept in ONE per-object list that sections index into (last_frame_index /
    previous_frame_for_section). When a text section is loaded, GC walks that section's frames to keep what they reference (LSDA, personality). The index
    stored for an FDE must therefore be its position in the per-object list: frames already collected from earlier `.eh_frame` sections of the same object
    + position in the current one. A per-section index aliases another function's frame as soon as an object has two `.eh_frame` sections (`ld -r --unique`)."""
    from mir import callee_key, place_chain
    F, P = ctx.facts(), ctx.program()
    rep.rule("frame-index-global", "process_eh_frame_relocations builds FrameIndex::from_usize(<offset parameter> + <frames collected so far in this section>), and its callers pass "
             "the number of frames the object already holds (exception_frames.len()) as that offset")
    b = F.body("libwild::elf::process_eh_frame_relocations")
    if b is None:
        rep.lost("frame-index-global", "elf::process_eh_frame_relocations")
        return
    flow = P.flow(b)
    sites = [(bi, t) for bi, t in flow.calls() if (callee_key(t["f"]) or "").endswith("FrameIndex::from_usize")]
    rep.floor("frame-index-global", "FrameIndex::from_usize sites", len(sites), 1)
    off_param = None
    for n, (bi, t) in enumerate(sites):
        o = flow.origins(t["args"][0])
        params = [x[1] for x in o if x[0] == "param" and b.locals[x[1]].strip() == "usize"]
        has_len = any(x[0] == "call" and (x[1] or "").endswith("::len") for x in o)
        has_add = any(x[0] == "op" and x[1].startswith("Add") for x in o)
        ok = bool(params) and has_len and has_add
        if params:
            off_param = params[0]
        rep.ob("frame-index-global", f"index#{n}", ok, "index = offset parameter + frames of this section so far" if ok else
               "the frame index is the position within the current .eh_frame section only: with a second .eh_frame section in the object it names a frame of the first one, "
               "and GC follows the wrong function's LSDA / personality references", b.file, t["l"])
    callers = P.callers_of(lambda k: k == "libwild::elf::process_eh_frame_relocations")
    for n, (cb, cbi, ct) in enumerate(callers):
        if off_param is None or off_param - 1 >= len(ct["args"]):
            rep.ob("frame-index-global", f"caller#{n}", False, "the offset parameter is gone", cb.file, ct["l"])
            continue
        cf = P.flow(cb)
        a = ct["args"][off_param - 1]
        ok = False
        for x in cf.origins(a):
            if x[0] == "call" and (x[1] or "").endswith("::len"):
                lt = cb.blocks[x[2]]["t"]
                if "exception_frames" in place_chain(cf, lt["args"][0])[0]:
                    ok = True
        rep.ob("frame-index-global", f"caller#{n}", ok, "the offset passed is the object's exception_frames.len()" if ok else "the offset passed is not the number of frames already collected", cb.file, ct["l"])
    rep.floor("frame-index-global", "callers of process_eh_frame_relocations", len(callers), 2)
