"""C19 — a link touches only its declared outputs.

Decided statically: the complete set of call sites that can create, modify, rename or delete a file
(who-may-call over the resolved program), and for each the interprocedural provenance of the path it
mutates: it must be one of the declared outputs (output path, dependency file, layout/trace side
files of the output, gc-stats file, perfetto trace, save-dir contents). Sibling names derived from
the output path are violations; inputs are opened read-only."""
import re

from mir import callee_key, declared_key, stable, op_place, is_transparent
from prov import Prov, fmt_root, PATH_DERIVERS

EXPLANATION = ("who-may-call over every filesystem-mutating API + interprocedural, field-aware value-flow of the "
               "mutated path back to an accessor of a declared output; read-only discipline for input opens")

# callee -> indices of arguments that name a path being mutated
MUTATORS = {
    "std::fs::File::create": [0], "std::fs::File::create_new": [0], "std::fs::write": [0],
    "std::fs::rename": [0, 1], "std::fs::remove_file": [0], "std::fs::remove_dir": [0],
    "std::fs::remove_dir_all": [0], "std::fs::create_dir": [0], "std::fs::create_dir_all": [0],
    "std::fs::copy": [1], "std::fs::hard_link": [1], "std::os::unix::fs::symlink": [1],
    "std::fs::OpenOptions::open": [1], "std::fs::set_permissions": [0],
    "perfetto_recorder::TraceBuilder::write_to_file": [1],
    "std::fs::soft_link": [1], "libc::unlink": [0], "libc::rename": [0, 1], "libc::open": [0], "libc::creat": [0],
    "libc::truncate": [0], "libc::mkdir": [0], "libc::rmdir": [0], "libc::chmod": [0],
}
# handle-based mutators: act on an already opened File (its open site is what is checked)
HANDLE_MUTATORS = {"std::fs::File::set_len", "std::fs::File::set_permissions", "memmap2::MmapOptions::map_mut",
                   "<std::fs::File as std::io::Write>::write_all"}
SPAWNERS = {"std::process::Command::status", "std::process::Command::spawn", "std::process::Command::output"}

SIDE_DERIVERS = {"linker_layout::layout_path": "layout side file of the output (--write-layout)",
                 "linker_trace::trace_path": "trace side file of the output (--write-trace)"}

DECLARED = {
    ("call", "libwild::platform::Args::output"): "the output file",
    ("call", "libwild::platform::Args::dependency_file"): "--dependency-file",
    ("call", "libwild::platform::Args::gc_stats_output_file"): "--write-gc-stats",
    ("call", "libwild::timing::perfetto_output_file"): "perfetto trace requested through the environment",
}
SAVE_DIR_ROOTS = {
    ("call", "std::env::var"): "WILD_SAVE_DIR / WILD_SAVE_BASE",
    ("call", "libwild::save_dir::save_dir_from_env"): "the save directory",
    ("call", "libwild::save_dir::SaveDirState::output_path"): "a path inside the save directory",
}


def classify(root, in_save_dir):
    """-> (ok, description)"""
    if root in DECLARED:
        return True, DECLARED[root]
    if in_save_dir and root in SAVE_DIR_ROOTS:
        return True, SAVE_DIR_ROOTS[root]
    if root[0] == "derived":
        inner = [classify(r, in_save_dir) for r in root[2]]
        if root[1] in SIDE_DERIVERS:
            ok = bool(inner) and all(o and d == "the output file" for o, d in inner)
            return ok, SIDE_DERIVERS[root[1]] if ok else f"{root[1]} applied to something that is not the output path"
        if in_save_dir and root[1] == "std::path::Path::join":
            ok = bool(inner) and all(o for o, _ in inner)
            return ok, "joined below the save directory" if ok else "join on a path outside the save directory"
        return False, f"sibling/derived name: {fmt_root(root)}"
    return False, f"not a declared output: {fmt_root(root)}"


def run(ctx, rep):
    F = ctx.facts()
    P = ctx.program()
    PV = Prov(P)
    # make the side-file derivers visible to the resolver
    PATH_DERIVERS.update(SIDE_DERIVERS.keys())
    rep.rule("fs-mutators", "every call that creates/modifies/renames/deletes a path: each provenance root of the path is a declared output (table DECLARED, save-dir roots inside save_dir.rs only)")
    rep.rule("handle-mutators", "set_len/map_mut/set_permissions act on a File opened by an allowed open site of the same module")
    rep.rule("spawners", "subprocesses are started only by the env-gated developer diff tool")
    rep.rule("inputs-read-only", "File::open / MmapOptions::map (read-only) are the only opens outside the mutator table; OpenOptions with write/append/create only at mutator sites")

    sites = P.callers_of(lambda k: k in MUTATORS)
    n = 0
    for b, bi, t in sites:
        ck = callee_key(t["f"])
        if ck not in MUTATORS:
            ck = declared_key(t["f"])
        in_save_dir = b.key.startswith("libwild::save_dir::") or b.key.startswith("<libwild::save_dir::")
        for ai in MUTATORS[ck]:
            if ai >= len(t["args"]):
                continue
            roots = PV.roots(b, t["args"][ai])
            n += 1
            if not roots:
                rep.ob("fs-mutators", f"{stable(b.key)}->{ck}#{ai}:no-root", False, "path provenance could not be established", b.file, t["l"])
                continue
            for r in sorted(roots, key=str):
                ok, desc = classify(r, in_save_dir)
                rep.ob("fs-mutators", f"{stable(b.key)}->{ck}#{ai}:{fmt_root(r)}", ok, desc, b.file, t["l"])
    rep.floor("fs-mutators", "mutated path arguments", n, 20)

    # handle mutators: module must have an allowed open
    hs = P.callers_of(lambda k: k in HANDLE_MUTATORS)
    ALLOWED_HANDLE_MODULES = {"libwild::file_writer": "the output file handle", "libwild::fs": "make_executable(output file)",
                              "libwild::save_dir": "files inside the save directory",
                              "libwild::gc_stats": "the gc-stats file", "libwild::output_trace": "trace side file",
                              "libwild": "dependency file (BufWriter)", "libwild::linker_layout": ""}
    for b, bi, t in hs:
        ck = callee_key(t["f"])
        mod = module_of(b.key)
        rep.ob("handle-mutators", f"{stable(b.key)}->{ck}", mod in ALLOWED_HANDLE_MODULES,
               f"handle mutation in module {mod}: {ALLOWED_HANDLE_MODULES.get(mod, 'module has no declared output')}", b.file, t["l"])
    # make_executable must only be applied to the output file handle
    for b, bi, t in P.callers_of(lambda k: k == "libwild::fs::make_executable"):
        rep.ob("handle-mutators", f"caller:{stable(b.key)}->make_executable", module_of(b.key) in ("libwild::file_writer", "libwild::save_dir", "libwild"),
               "make_executable is applied to the output (or save-dir script) only", b.file, t["l"])

    sp = P.callers_of(lambda k: k in SPAWNERS)
    for b, bi, t in sp:
        rep.ob("spawners", f"{stable(b.key)}->{callee_key(t['f'])}", module_of(b.key) == "libwild::diff",
               "only diff.rs (developer tool gated by WILD_REFERENCE_LINKER) may start a subprocess", b.file, t["l"])

    # OpenOptions::write/append/create/truncate(true) calls: only in bodies that also are mutator sites
    mut_bodies = {b.key for b, _bi, _t in sites}
    oo = P.callers_of(lambda k: k in ("std::fs::OpenOptions::write", "std::fs::OpenOptions::append", "std::fs::OpenOptions::create",
                                      "std::fs::OpenOptions::truncate", "std::fs::OpenOptions::create_new"))
    for b, bi, t in oo:
        rep.ob("inputs-read-only", f"{stable(b.key)}->{callee_key(t['f']).split('::')[-1]}", b.key in mut_bodies,
               "write-mode OpenOptions are configured only where the opened path is checked by fs-mutators", b.file, t["l"])
    # input maps are read-only maps
    maps = P.callers_of(lambda k: k.startswith("memmap2::MmapOptions::map"))
    for b, bi, t in maps:
        ck = callee_key(t["f"])
        if module_of(b.key) == "libwild::input_data":
            rep.ob("inputs-read-only", f"{stable(b.key)}->{ck}", ck in ("memmap2::MmapOptions::map", "memmap2::MmapOptions::map_copy_read_only"),
                   "inputs are mapped read-only", b.file, t["l"])
    # ---- other names of the old output ----------------------------------------------------------------------
    # In replace mode the output path must be given a *new* inode: if the unlink of the old file can fail silently, the
    # truncating open rewrites the old inode, i.e. every hard link of the previous output (libfoo.so.bak, a package
    # manager's copy) - files that are not declared outputs. Same rules as C21 (shared implementation), reported here.
    import C21
    import framework
    sub = framework.Report("C21")
    C21.run(ctx, sub)
    rep.rule("old-inode-untouched", "replace mode never rewrites the old output's inode (so hard links of it are not touched): the truncating open is dominated by the "
             "success edge of the unlink helper, and the helper returns Ok only if remove_file succeeded or failed with NotFound")
    n = 0
    for o in sub.obligations:
        if o["rule"] in ("unlink-before-open", "unlink-strict", "truncate-arm"):
            n += 1
            w = o.get("where", "")
            f, _, l = w.rpartition(":")
            rep.ob("old-inode-untouched", f"{o['rule']}:{o['instance']}", o["ok"], o["detail"], f or None, int(l) if l.isdigit() else None)
    rep.floor("old-inode-untouched", "replace-mode obligations", n, 6)
    rep.assume("files written by dependencies (tracing subscribers, rayon) are outside the analysed program")


def module_of(key):
    k = key.lstrip("<")
    k = re.sub(r" as .*$", "", k)
    parts = k.split("::")
    # crate::module
    return "::".join(parts[:2]) if len(parts) > 2 else parts[0]
