"""C01 — relocated values are correct at run time.

Not decided: the values themselves (layout addresses, loader). Decided: relocation tables vs psABI
(kind = operation, field width, page mask) for x86-64 and AArch64; exhaustive, wildcard-free dispatch
over RelocationKind in apply_relocation; the dynamic relocation type tables are mutually inverse;
relocation fields are written only through write_to_buffer."""
import fold
import reloc_oracle
from mir import callee_key, stable, enum_switch, switch_predicate

EXPLANATION = ("table-vs-oracle comparison of the constant-folded relocation tables (kind/size/mask per relocation type), "
               "exhaustiveness of the RelocationKind dispatch from MIR (no catch-all edge to a non-unreachable block), "
               "bijection of the dynamic relocation tables folded from HIR, who-may-call over section-buffer writers")


def run(ctx, rep):
    F = ctx.facts(); P = ctx.program()
    rep.rule("reloc-table", "for every relocation type: wild's kind equals the psABI operation, the field width equals the psABI's, the page mask matches")
    rep.rule("dispatch", "apply_relocation matches rel_info.kind with an arm for every RelocationKind variant and no catch-all")
    rep.rule("dynreloc", "DynamicRelocationKind -> r_type tables of each architecture are injective and their inverse maps back")
    rep.rule("single-writer", "apply_relocation writes the section buffer only through RelocationKindInfo::write_to_buffer / the relaxation applier")
    T, FD = reloc_oracle.load(F)
    for arch, (t, O, file) in T.items():
        if t is None:
            rep.lost("reloc-table", reloc_oracle.FNS[arch])
            continue
        rep.floor("reloc-table", f"{arch} rows", len(t), reloc_oracle.FLOORS[arch])
        seen = set()
        for r in t:
            o = O.get(r["name"])
            seen.add(r["name"])
            if "error" in r:
                rep.ob("reloc-table", f"{arch}:{r['name']}:fold", False, f"row not foldable: {r['error']}", file, r["line"])
                continue
            if o is None:
                rep.count(f"{arch}-rows-not-in-oracle")
                continue
            for attr, ok, detail in reloc_oracle.attr_mismatches(arch, r, o):
                if attr in ("kind", "size", "mask"):
                    rep.ob("reloc-table", f"{arch}:{r['name']}:{attr}", ok, detail, file, r["line"])
        missing = sorted(set(O) - seen)
        rep.count(f"{arch}-oracle-rows-not-implemented", len(missing))
        # duplicates: a relocation type listed twice
        vals = [r["r_type"] for r in t]
        rep.ob("reloc-table", f"{arch}:no-duplicate-types", len(vals) == len(set(vals)), "each r_type appears in one arm")

    # ---- dispatch ------------------------------------------------------------------------------------
    adt = F.adt("linker_utils::elf::RelocationKind")
    variants = [v["name"] for v in adt["variants"]] if adt else []
    ar = F.body("libwild::elf_writer::apply_relocation")
    if ar is None or not variants:
        rep.lost("dispatch", "elf_writer::apply_relocation / RelocationKind")
    else:
        cfg, flow = P.cfg(ar), P.flow(ar)
        best = None
        for sb in cfg.reach:
            es = enum_switch(F, ar, flow, cfg, sb)
            if es and es[0] == "linker_utils::elf::RelocationKind":
                n = sum(1 for lab, names in es[1].items() if lab != "else" and names)
                if best is None or n > best[1]:
                    best = (sb, n, es)
        if best is None:
            rep.lost("dispatch", "switch on RelocationKind in apply_relocation")
        else:
            sb, n, es = best
            covered = set()
            for lab, names in es[1].items():
                if lab != "else":
                    covered |= set(names)
            els = es[1].get("else", frozenset())
            else_tgt = [t for l, t in cfg.succ[sb] if l == "else"]
            else_unreachable = all(ar.blocks[t]["t"]["k"] == "unreachable" for t in else_tgt)
            rep.ob("dispatch", "exhaustive", else_unreachable or not els,
                   f"the kind dispatch has explicit arms for {len(covered)}/{len(variants)} variants; otherwise-edge "
                   + ("is unreachable" if else_unreachable else f"catches {sorted(els)} (a kind added later would silently take it)"), ar.file, ar.blocks[sb]["t"]["l"])
            rep.count("relocation-kinds", len(variants))
            rep.count("relocation-kinds-with-arm", len(covered))

    # ---- dynreloc --------------------------------------------------------------------------------------
    check_dynreloc(rep, F, FD)

    # ---- single writer ---------------------------------------------------------------------------------
    if ar is not None:
        flow = P.flow(ar)
        writers = set()
        for bi, t in flow.calls():
            ck = callee_key(t["f"]) or ""
            if ck.endswith("copy_from_slice") or ck.endswith("::write_to_value") or ck.endswith("or_from_slice") or ck.endswith("and_from_slice"):
                writers.add(ck)
        rep.ob("single-writer", "no-raw-writes", not writers, f"apply_relocation performs no raw byte writes itself ({sorted(writers)})", ar.file, ar.line)
        w2b = [bi for bi, t in flow.calls() if callee_key(t["f"]) == "linker_utils::elf::RelocationKindInfo::write_to_buffer"]
        rep.ob("single-writer", "uses-write_to_buffer", len(w2b) >= 1, "the computed value goes through write_to_buffer (range checked, C12)", ar.file, ar.line)
    rep.assume("values depend on layout addresses and the dynamic loader: not decided")


def check_dynreloc(rep, F, FD):
    adt = F.adt("libwild::elf::DynamicRelocationKind") or F.adt("linker_utils::elf::DynamicRelocationKind")
    if adt is None:
        rep.lost("dynreloc", "DynamicRelocationKind")
        return
    base = adt["path"].rsplit("::", 1)[0]
    kinds = [v["name"] for v in adt["variants"]]
    n_tables = 0
    # RISC-V and LoongArch have no GLOB_DAT: GotEntry and Absolute legitimately share R_*_64 there
    for arch in ("x86_64", "aarch64"):
        to_fn = f"{adt['path']}::{arch}_r_type"
        from_fn = f"{adt['path']}::from_{arch}_r_type"
        if FD.body_of(to_fn) is None:
            continue
        n_tables += 1
        fwd = {}
        for k in kinds:
            try:
                v = FD.call_fn(to_fn, [fold.Enum(f"{adt['path']}::{k}")], 0)
                fwd[k] = v
            except fold.FoldError as e:
                fwd[k] = None
        vals = [v for v in fwd.values() if isinstance(v, int)]
        rep.ob("dynreloc", f"{arch}:injective", len(vals) == len(set(vals)) and len(vals) >= 5,
               f"{arch}: {len(vals)} kinds map to {len(set(vals))} distinct r_type values", None, None)
        if FD.body_of(from_fn) is not None:
            for k, v in fwd.items():
                if not isinstance(v, int):
                    continue
                try:
                    back = FD.call_fn(from_fn, [v], 0)
                    name = back.args[0].name if isinstance(back, fold.Enum) and back.args else (back.name if isinstance(back, fold.Enum) else str(back))
                except fold.FoldError as e:
                    name = f"fold error: {e}"
                rep.ob("dynreloc", f"{arch}:{k}:roundtrip", name == k, f"from_{arch}_r_type({arch}_r_type({k})) = {name}")
    rep.floor("dynreloc", "architectures with dynamic relocation tables", n_tables, 2)
