"""C01 — relocated values are correct at run time.

Not decided: the values themselves (layout addresses, loader). Decided: relocation tables vs psABI
(kind = operation, field width, page mask) for x86-64 and AArch64; exhaustive, wildcard-free dispatch
over RelocationKind in apply_relocation; the dynamic relocation type tables are mutually inverse;
relocation fields are written only through write_to_buffer."""
import fold
import reloc_oracle
from mir import callee_key, stable, enum_switch, switch_predicate

EXPLANATION = ("table-vs-oracle comparison of the constant-folded relocation tables (kind/size/mask per relocation type), "
               "exhaustiveness of the RelocationKind dispatch from MIR (no catch-all edge to a non-unreachable block), "
               "bijection of the dynamic relocation tables folded from HIR, who-may-call over section-buffer writers")


def run(ctx, rep):
    F = ctx.facts(); P = ctx.program()
    rep.rule("reloc-table", "for every relocation type: wild's kind equals the psABI operation, the field width equals the psABI's, the page mask matches")
    rep.rule("dispatch", "apply_relocation matches rel_info.kind with an arm for every RelocationKind variant and no catch-all")
    rep.rule("dynreloc", "DynamicRelocationKind -> r_type tables of each architecture are injective and their inverse maps back")
    rep.rule("single-writer", "apply_relocation writes the section buffer only through RelocationKindInfo::write_to_buffer / the relaxation applier")
    T, FD = reloc_oracle.load(F)
    for arch, (t, O, file) in T.items():
        if t is None:
            rep.lost("reloc-table", reloc_oracle.FNS[arch])
            continue
        rep.floor("reloc-table", f"{arch} rows", len(t), reloc_oracle.FLOORS[arch])
        seen = set()
        for r in t:
            o = O.get(r["name"])
            seen.add(r["name"])
            if "error" in r:
                rep.ob("reloc-table", f"{arch}:{r['name']}:fold", False, f"row not foldable: {r['error']}", file, r["line"])
                continue
            if o is None:
                rep.count(f"{arch}-rows-not-in-oracle")
                continue
            for attr, ok, detail in reloc_oracle.attr_mismatches(arch, r, o):
                if attr in ("kind", "size", "mask"):
                    rep.ob("reloc-table", f"{arch}:{r['name']}:{attr}", ok, detail, file, r["line"])
        missing = sorted(set(O) - seen)
        rep.count(f"{arch}-oracle-rows-not-implemented", len(missing))
        # duplicates: a relocation type listed twice
        vals = [r["r_type"] for r in t]
        rep.ob("reloc-table", f"{arch}:no-duplicate-types", len(vals) == len(set(vals)), "each r_type appears in one arm")

    # ---- dispatch ------------------------------------------------------------------------------------
    adt = F.adt("linker_utils::elf::RelocationKind")
    variants = [v["name"] for v in adt["variants"]] if adt else []
    ar = F.body("libwild::elf_writer::apply_relocation")
    if ar is None or not variants:
        rep.lost("dispatch", "elf_writer::apply_relocation / RelocationKind")
    else:
        cfg, flow = P.cfg(ar), P.flow(ar)
        best = None
        for sb in cfg.reach:
            es = enum_switch(F, ar, flow, cfg, sb)
            if es and es[0] == "linker_utils::elf::RelocationKind":
                n = sum(1 for lab, names in es[1].items() if lab != "else" and names)
                if best is None or n > best[1]:
                    best = (sb, n, es)
        if best is None:
            rep.lost("dispatch", "switch on RelocationKind in apply_relocation")
        else:
            sb, n, es = best
            covered = set()
            for lab, names in es[1].items():
                if lab != "else":
                    covered |= set(names)
            els = es[1].get("else", frozenset())
            else_tgt = [t for l, t in cfg.succ[sb] if l == "else"]
            else_unreachable = all(ar.blocks[t]["t"]["k"] == "unreachable" for t in else_tgt)
            rep.ob("dispatch", "exhaustive", else_unreachable or not els,
                   f"the kind dispatch has explicit arms for {len(covered)}/{len(variants)} variants; otherwise-edge "
                   + ("is unreachable" if else_unreachable else f"catches {sorted(els)} (a kind added later would silently take it)"), ar.file, ar.blocks[sb]["t"]["l"])
            rep.count("relocation-kinds", len(variants))
            rep.count("relocation-kinds-with-arm", len(covered))

    # ---- dynreloc --------------------------------------------------------------------------------------
    check_dynreloc(rep, F, FD)

    # ---- single writer ---------------------------------------------------------------------------------
    if ar is not None:
        flow = P.flow(ar)
        writers = set()
        for bi, t in flow.calls():
            ck = callee_key(t["f"]) or ""
            if ck.endswith("copy_from_slice") or ck.endswith("::write_to_value") or ck.endswith("or_from_slice") or ck.endswith("and_from_slice"):
                writers.add(ck)
        rep.ob("single-writer", "no-raw-writes", not writers, f"apply_relocation performs no raw byte writes itself ({sorted(writers)})", ar.file, ar.line)
        w2b = [bi for bi, t in flow.calls() if callee_key(t["f"]) == "linker_utils::elf::RelocationKindInfo::write_to_buffer"]
        rep.ob("single-writer", "uses-write_to_buffer", len(w2b) >= 1, "the computed value goes through write_to_buffer (range checked, C12)", ar.file, ar.line)
    got_slot_layout(ctx, rep, F, P)
    tlsld_offset(ctx, rep, F, P)
    _merged_string_references(ctx, rep)
    rep.assume("values depend on layout addresses and the dynamic loader: not decided")


def check_dynreloc(rep, F, FD):
    adt = F.adt("libwild::elf::DynamicRelocationKind") or F.adt("linker_utils::elf::DynamicRelocationKind")
    if adt is None:
        rep.lost("dynreloc", "DynamicRelocationKind")
        return
    base = adt["path"].rsplit("::", 1)[0]
    kinds = [v["name"] for v in adt["variants"]]
    n_tables = 0
    # RISC-V and LoongArch have no GLOB_DAT: GotEntry and Absolute legitimately share R_*_64 there
    for arch in ("x86_64", "aarch64"):
        to_fn = f"{adt['path']}::{arch}_r_type"
        from_fn = f"{adt['path']}::from_{arch}_r_type"
        if FD.body_of(to_fn) is None:
            continue
        n_tables += 1
        fwd = {}
        for k in kinds:
            try:
                v = FD.call_fn(to_fn, [fold.Enum(f"{adt['path']}::{k}")], 0)
                fwd[k] = v
            except fold.FoldError as e:
                fwd[k] = None
        vals = [v for v in fwd.values() if isinstance(v, int)]
        rep.ob("dynreloc", f"{arch}:injective", len(vals) == len(set(vals)) and len(vals) >= 5,
               f"{arch}: {len(vals)} kinds map to {len(set(vals))} distinct r_type values", None, None)
        if FD.body_of(from_fn) is not None:
            for k, v in fwd.items():
                if not isinstance(v, int):
                    continue
                try:
                    back = FD.call_fn(from_fn, [v], 0)
                    name = back.args[0].name if isinstance(back, fold.Enum) and back.args else (back.name if isinstance(back, fold.Enum) else str(back))
                except fold.FoldError as e:
                    name = f"fold error: {e}"
                rep.ob("dynreloc", f"{arch}:{k}:roundtrip", name == k, f"from_{arch}_r_type({arch}_r_type({k})) = {name}")
    rep.floor("dynreloc", "architectures with dynamic relocation tables", n_tables, 2)


def got_slot_layout(ctx, rep, F, P):
    """Reader / writer / allocator agreement on the per-symbol GOT slot layout of TLS symbols.

    A TLS symbol may own up to three groups of GOT slots: [TPOFF][DTPMOD,DTPOFF][TLSDESC x2]. The relocation code *reads* a group's address
    through Resolution::{got_address, tlsgd_got_address, tls_descriptor_got_address}; TableWriter::process_resolution *writes* the groups at
    running offsets; create_resolution / allocate_resolution reserve the slots. For every combination of the three flags the offset a reader
    returns for a group must be the offset at which the writer fills that group (otherwise e.g. a TLSDESC reference lands on the TPOFF slot)."""
    import decide
    from mir import stable
    rep.rule("got-slot-layout", "for every combination of needs_got_tls_{offset,module,descriptor}: the offset returned by tlsgd_got_address / "
             "tls_descriptor_got_address equals the offset at which process_resolution writes that group; the GOT bytes reserved equal 8/16/16 per group")
    FL = {"o": "needs_got_tls_offset", "m": "needs_got_tls_module", "d": "needs_got_tls_descriptor"}

    def flags_of(assign):
        out = {}
        for a, v in assign.items():
            for k, nm in FL.items():
                if nm + "(" in a and isinstance(v, bool):
                    out[k] = v
        return out
    base = lambda k: "got" if k.endswith("::got_address") else None
    tg = F.body("libwild::elf::tlsgd_got_address")
    td = F.body("libwild::elf::tls_descriptor_got_address")
    wr = next((b for b in F.all_bodies if stable(b.key).endswith("TableWriter::process_resolution")), None)
    if tg is None or td is None or wr is None:
        rep.lost("got-slot-layout", "tlsgd_got_address / tls_descriptor_got_address / TableWriter::process_resolution")
        return
    try:
        t_gd = decide.lin_paths(P, F, tg, base_call=base)
        t_desc = decide.lin_paths(P, F, td, base_call=base, inline={tg.key: t_gd})
        EV = {"process_got_tls_offset": "o", "process_got_tls_mod_and_offset": "m", "process_got_tls_descriptor": "d"}
        t_wr = decide.lin_paths(P, F, wr, event_call=lambda k: EV.get(k.split("::")[-1]))
    except decide.NotLoopFree as e:
        rep.ob("got-slot-layout", "tabulate", False, f"one of the three functions is no longer loop-free ({e})", td.file, td.line)
        return
    readers = {"m": t_gd, "d": t_desc}
    written = {}      # (group, o, m, d) -> offset
    for assign, _res, events in t_wr:
        fl = flags_of(assign)
        if len(fl) < 3:
            continue
        for tag, args in events:
            offs = [a for a in args if a and a[0] == "lin" and "got_address" in str(a[1])]
            if len(offs) != 1:
                rep.ob("got-slot-layout", f"writer-arg:{tag}", False, f"cannot identify the GOT address argument of the writer for group `{tag}`: {args}", wr.file, wr.line)
                continue
            written.setdefault((tag, fl["o"], fl["m"], fl["d"]), set()).add(offs[0][2])
    rep.floor("got-slot-layout", "writer (group, flags) combinations tabulated", len(written), 12)
    n = 0
    for grp, table in readers.items():
        for assign, res, _ev in table:
            fl = flags_of(assign)
            if res is None or res[0] != "lin" or res[1] != "got":
                rep.ob("got-slot-layout", f"reader:{grp}:shape", False, f"reader of group `{grp}` returns {res}, not got_address + constant", td.file, td.line)
                continue
            # all completions of the flags the reader did not test
            for o in ([fl["o"]] if "o" in fl else [False, True]):
                for m in ([fl["m"]] if "m" in fl else [False, True]):
                    for d in ([fl["d"]] if "d" in fl else [False, True]):
                        if not {"m": m, "d": d}[grp]:
                            continue    # the group does not exist for this symbol
                        w = written.get((grp, o, m, d))
                        n += 1
                        rep.ob("got-slot-layout", f"{'tlsgd' if grp == 'm' else 'tlsdesc'}:offset={int(o)},module={int(m)},descriptor={int(d)}", w == {res[2]},
                               f"reader returns got+{res[2]}, writer fills the group at got+{sorted(w) if w else '?'}" + ("" if w == {res[2]} else
                               ": references to this group are resolved to a slot that holds something else"), td.file if grp == "d" else tg.file, td.line if grp == "d" else tg.line)
    rep.floor("got-slot-layout", "reader/writer comparisons", n, 8)
    # the TPOFF group is read through got_address() itself: the writer must fill it at offset 0
    for (grp, o, m, d), w in sorted(written.items()):
        if grp == "o":
            rep.ob("got-slot-layout", f"tpoff:offset={int(o)},module={int(m)},descriptor={int(d)}", w == {0}, f"the TPOFF slot is written at got+{sorted(w)} (readers use got_address())", wr.file, wr.line)
    # reservation: bytes of GOT reserved per group in allocate_resolution
    al = next((b for b in F.all_bodies if stable(b.key).endswith("::allocate_resolution") and "elf::Elf" in b.key), None)
    if al is None:
        rep.lost("got-slot-layout", "Elf::allocate_resolution")
        return
    flow, cfg = P.flow(al), P.cfg(al)
    from mir import callee_key, op_const, expr_tree, render, simplify
    per = {}
    for bi, t in flow.calls():
        if (callee_key(t["f"]) or "").endswith("::increment") and len(t["args"]) >= 3:
            c = op_const(t["args"][1])
            if not c or not (c.get("def") or "").endswith("part_id::GOT"):
                continue
            at = decide.atoms_at(P, F, al, bi)
            size = render(simplify(expr_tree(P, al, t["args"][2], depth=5, expand_params=0)))
            for k, nm in FL.items():
                if any(nm in a and v is True for a, v in at):
                    per.setdefault(k, []).append(size)
    want = {"o": ("8", "GOT_ENTRY_SIZE"), "m": ("16", "Mul(8, 2)", "Mul(2, 8)"), "d": ("16", "Mul(8, 2)", "Mul(2, 8)")}
    for k in "omd":
        got = per.get(k, [])
        ok = len(got) == 1 and any(w == got[0] or got[0].replace(" ", "") == w.replace(" ", "") for w in want[k])
        rep.ob("got-slot-layout", f"reserve:{FL[k]}", ok, f"GOT bytes reserved under {FL[k]}: {got} (group size {'8' if k == 'o' else '16'})", al.file, al.line)


def tlsld_offset(ctx, rep, F, P):
    """The shared TLSLD GOT pair of an executable holds (module id, offset) and __tls_get_addr returns block + offset + DTPOFF. apply_relocation
    computes DTPOFF for executables relative to the *aligned* end of the TLS segment (the thread pointer on x86-64), so the offset word must
    be the distance from the TLS block start to that same point: tp_offset_start(layout) - tls_start_address(). The raw segment size differs
    from it whenever the size is not a multiple of the alignment, and every un-relaxed local-dynamic access is then off by the padding."""
    from mir import callee_key, declared_key, stable
    rep.rule("tlsld-offset", "in write_plt_got_entries the offset word of the executable's TLSLD GOT pair derives from tp_offset_start(layout) and tls_start_address() (the same reference point DtpOff uses), not from the raw segment size")
    b = F.body("libwild::elf_writer::write_plt_got_entries")
    if b is None:
        rep.lost("tlsld-offset", "elf_writer::write_plt_got_entries")
        return
    flow = P.flow(b)
    n = 0
    for bi, blk in enumerate(b.blocks):
        for st in blk["s"]:
            if st["k"] == "assign" and st["rv"]["k"] == "agg" and (st["rv"].get("adt") or "").endswith("Resolution") and "raw_value" in (st["rv"].get("fields") or []):
                op = st["rv"]["ops"][st["rv"]["fields"].index("raw_value")]
                o = flow.deep_origins(op)
                names = {((x[1] or "").split("::")[-1]) for x in o if x[0] == "call"}
                consts = {str(x[2] or x[1]) for x in o if x[0] == "const"}
                if any("CURRENT_EXE_TLS_MOD" in c for c in consts) and not names:
                    continue   # the module-id word
                n += 1
                ok = "tp_offset_start" in names and "tls_start_address" in names
                rep.ob("tlsld-offset", f"offset-word#{n}", ok, f"offset word derives from calls {sorted(names)}" + ("" if ok else
                       ": DtpOff is computed against the aligned end of the TLS segment, so the pair's offset must be tp_offset_start - tls_start_address"), b.file, st["l"])
    rep.floor("tlsld-offset", "offset words found", n, 1)


def _merged_string_references(ctx, rep):
    """A relocation whose target lies in a SHF_MERGE|SHF_STRINGS section gets its value from string_merging::get_merged_string_output_address / find_string.
    The clauses that decide whether that value is the address of the *referenced* string are C07's rules (shared implementation), reported here because a
    wrong answer is a wrong relocated value."""
    import C07
    import framework
    sub = framework.Report("C07")
    C07.run(ctx, sub)
    rep.rule("merged-string-references", "references into merged-string sections resolve to the referenced string: both offset tables are consulted, the backward search "
             "keeps the distance, the addend is applied once, and the start addresses use the part the strings were written to (C07's rules, shared)")
    n = 0
    for o in sub.obligations:
        if o["rule"] in ("lookup-both-tables", "fallback-distance", "addend-once", "same-part"):
            n += 1
            w = o.get("where", "") or ""
            f, _, l = w.rpartition(":")
            rep.ob("merged-string-references", f"{o['rule']}:{o['instance']}", o["ok"], o["detail"], f or None, int(l) if l.isdigit() else None)
    rep.floor("merged-string-references", "shared obligations", n, 10)
