"""C40 — parallel string merging hands every input to every bucket in order and finishes.

Decided statically on string_merging.rs: slot state machine atomicity (take-or-park in one critical
section; swap in one critical section; a parked bucket is always resumed by the producer that finds
it), monotone group index, reservation pairing on all paths, leaf critical sections, no blocking
primitive in the merge tasks, seeding of group 0."""
from mir import (callee_key, declared_key, stable, op_place, op_const, is_transparent, place_chain, uses_of_local,
                 switch_source_call, switch_bool_labels, enum_switch, variant_blocks, switch_predicate, success_blocks)
import cs
from C39 import BLOCKING, SPAWNS
from C20 import holders

EXPLANATION = ("critical-section analysis (regions of MutexGuard<StringsSlot>), enum-variant edge dominance for the slot "
               "state machine, value-flow linearity of the parked bucket into the spawned task, post-dominance for "
               "reservation pairing and respawn, constant/operator facts for the group index, who-may-call over blocking "
               "primitives across the merge tasks")

M = "libwild::string_merging::"
SLOT = "string_merging::StringsSlot"
SLOT_ADT = "libwild::string_merging::StringsSlot"


def run(ctx, rep):
    F = ctx.facts()
    P = ctx.program()
    rep.rule("take-or-park", "work_with_bucket: the slot is replaced and, if it did not hold Strings, WaitingForStrings(bucket) is stored in the same critical section, then the task returns")
    rep.rule("atomic-swap", "swap_strings_slot performs the replace under one lock acquisition and returns the previous state")
    rep.rule("resume-parked", "process_input_section_group spawns work_with_bucket exactly on the WaitingForStrings edge of the previous slot state, with the bucket it found there")
    rep.rule("group-order", "the slot addressed is (bucket.next_input_group_index, bucket.index); the index is incremented by the constant 1 once per iteration after process_split_output; the loop bound is num_input_groups; a bucket is pushed to finished_buckets only on loop exit")
    rep.rule("reservation", "the task spawned by try_spawn_input_processing reaches reuse_pool.unreserve(reservation) on every path; try_reserve neither loops nor blocks; input processing is re-attempted after every return_strings_to_merge")
    rep.rule("leaf-sections", "inside critical sections on StringsSlot: no lock, spawn or blocking call")
    rep.rule("no-blocking", "no blocking primitive other than Mutex::lock reachable from the merge tasks")
    rep.rule("seeding", "create_split_resources parks bucket i in slot (0, i) for every i < MERGE_STRING_BUCKETS; slots are addressed by input*MERGE_STRING_BUCKETS+bucket")
    rep.rule("slot-access", "StringsSlot mutexes are locked only by the protocol functions")

    wwb = F.body(M + "work_with_bucket")
    sss = F.body(M + "SplitResources::swap_strings_slot")
    pig = F.body(M + "process_input_section_group")
    tsp = F.body(M + "try_spawn_input_processing")
    csr = F.body(M + "create_split_resources")
    trs = F.body(M + "ReusePool::try_reserve")
    sbo = F.body(M + "string_bucket_offset")
    missing = [n for n, b in (("work_with_bucket", wwb), ("swap_strings_slot", sss), ("process_input_section_group", pig),
                              ("try_spawn_input_processing", tsp), ("create_split_resources", csr), ("try_reserve", trs), ("string_bucket_offset", sbo)) if b is None]
    for n in missing:
        rep.lost("anchor", n)
    if missing:
        return
    consts = F.consts()
    NB = consts.get(M + "MERGE_STRING_BUCKETS")
    rep.ob("seeding", "const", isinstance(NB, int) and NB >= 1, f"MERGE_STRING_BUCKETS = {NB}")

    # ---- take-or-park -------------------------------------------------------------------------------------
    cfg, flow = P.cfg(wwb), P.flow(wwb)
    regs = cs.guard_regions(wwb, cfg, flow, SLOT)
    rep.ob("take-or-park", "one-section", len(regs) == 1, f"{len(regs)} critical section(s) on the strings slot in work_with_bucket", wwb.file, wwb.line)
    for r in regs:
        reps = [a for a in r.accesses if a[2] == "call" and callee_key(a[3]["f"]) in ("std::mem::replace", "std::mem::take")]
        stores = [a for a in r.accesses if a[1] == "*" and a[2] == "write"]
        rep.ob("take-or-park", "replace-in-section", len(reps) == 1, "the slot content is taken with mem::replace inside the section", wwb.file, wwb.line)
        rep.ob("take-or-park", "park-in-section", len(stores) == 1, f"the WaitingForStrings store is inside the same section ({len(stores)} store(s)); a store after unlocking races with the producer's swap and loses either the strings or the bucket", wwb.file, wwb.line)
        if reps and stores:
            rb, sb = reps[0][0], stores[0][0]
            # stored value is WaitingForStrings(bucket param)
            o = flow.origins(stores[0][3]["a"]) if stores[0][3]["k"] == "use" else set()
            rep.ob("take-or-park", "parks-own-bucket", any(x[0] == "agg" and x[1] == SLOT_ADT + "::WaitingForStrings" for x in o) and ("param", 2) in o,
                   "the stored state is WaitingForStrings(bucket) with this task's bucket", wwb.file, wwb.line)
            # on the not-Strings edge
            strings_blocks = variant_blocks(F, wwb, flow, cfg, SLOT_ADT, {"Strings"})
            rep.ob("take-or-park", "park-on-not-strings-edge", sb not in strings_blocks and any(True for _ in [1]),
                   "the park happens only when the slot did not hold Strings", wwb.file, wwb.line)
            other = variant_blocks(F, wwb, flow, cfg, SLOT_ADT, {"Empty", "WaitingForStrings"})
            rep.ob("take-or-park", "park-edge", sb in other, "the park block is on the Empty/WaitingForStrings edge of the match on the replaced value", wwb.file, wwb.line)
            # after parking the function returns without touching the bucket again: from the store block only a return is reachable (no loop back)
            after = cfg.reachable_from(sb)
            loops_back = r.lock_bb in after
            rep.ob("take-or-park", "return-after-park", not loops_back, "after parking, the task returns (it must not continue with a bucket it gave away)", wwb.file, wwb.line)
            # the replacement value is Empty
            t = reps[0][3]
            o2 = flow.origins(t["args"][1]) if len(t["args"]) > 1 else set()
            rep.ob("take-or-park", "replace-with-empty", any(x[0] == "agg" and x[1] == SLOT_ADT + "::Empty" for x in o2), "the slot is left Empty while its content is inspected", wwb.file, t["l"])
        # slot address
        lt = wwb.blocks[r.lock_bb]["t"]
        addr_ok = False
        for bi, t in flow.calls():
            if callee_key(t["f"]) == M + "string_bucket_offset":
                f0, _ = place_chain(flow, t["args"][0])
                f1, _ = place_chain(flow, t["args"][1])
                addr_ok = "next_input_group_index" in f0 and "index" in f1
        rep.ob("group-order", "slot-address", addr_ok, "slot = string_bucket_offset(bucket.next_input_group_index, bucket.index)", wwb.file, lt["l"])

    # ---- group-order ----------------------------------------------------------------------------------------
    incs = []
    for bi, blk in enumerate(wwb.blocks):
        if blk.get("cleanup") or bi not in cfg.reach:
            continue
        for s in blk["s"]:
            if s["k"] == "assign" and s["p"][1] and s["p"][1][-1] == ".next_input_group_index":
                incs.append((bi, s))
    rep.ob("group-order", "single-increment", len(incs) == 1, f"{len(incs)} store(s) to bucket.next_input_group_index in the loop", wwb.file, wwb.line)
    for bi, s in incs:
        # value = field + 1 (checked add: AddWithOverflow then .0)
        o = flow.origins(s["rv"]["a"]) if s["rv"]["k"] == "use" else flow.origins(["c", s["p"]])
        adds = [x for x in o if x[0] == "op" and x[1] in ("Add", "AddWithOverflow", "AddUnchecked")]
        ones = [x for x in o if x[0] == "const" and x[1] == 1]
        other_consts = [x for x in o if x[0] == "const" and x[1] not in (1, None)]
        rep.ob("group-order", "increment-by-one", bool(adds) and bool(ones) and not other_consts, f"next_input_group_index += 1 (ops {sorted(x[1] for x in adds)}, consts {sorted(str(x[1]) for x in o if x[0]=='const')})", wwb.file, s["l"])
        okb, _ = success_blocks(wwb, flow, cfg, lambda k: k == M + "MergeStringsSectionBucket::process_split_output")
        rep.ob("group-order", "increment-after-processing", bi in okb, "the index advances only after the group's strings were processed successfully", wwb.file, s["l"])
    # loop bound and finished push
    lt_true, lt_false = set(), set()
    ef = cfg.edge_facts()
    for sb in cfg.reach:
        t = wwb.blocks[sb]["t"]
        if t["k"] != "switch" or t["dty"] != "bool":
            continue
        pl = op_place(t["d"])
        for bi, si, pr, pay in flow.defs.get(pl[0], []) if pl else []:
            if si != "call" and pay["k"] == "bin" and pay["op"] in ("Lt", "Ge", "Ne", "Eq", "Le", "Gt"):
                fa, _ = place_chain(flow, pay["a"])
                fb, _ = place_chain(flow, pay["b"])
                if "next_input_group_index" in fa and "num_input_groups" in fb and pay["op"] == "Lt":
                    labels = switch_bool_labels(wwb, flow, cfg, sb)
                    for lab, v in labels.items():
                        (lt_true if v else lt_false).add((sb, lab))
    rep.ob("group-order", "loop-bound", bool(lt_true), "loop condition is bucket.next_input_group_index < resources.num_input_groups", wwb.file, wwb.line)
    fin = [bi for bi, t in flow.calls() if (callee_key(t["f"]) or "").endswith("ArrayQueue::push") and "finished_buckets" in place_chain(flow, t["args"][0])[0]]
    rep.ob("group-order", "finished-on-exit", bool(fin) and all(ef.get(b, frozenset()) & lt_false for b in fin),
           "a bucket is pushed to finished_buckets only on the loop-exit edge (all groups applied)", wwb.file, wwb.line)

    # ---- atomic swap ------------------------------------------------------------------------------------------
    c2, f2 = P.cfg(sss), P.flow(sss)
    regs2 = cs.guard_regions(sss, c2, f2, SLOT)
    ok = len(regs2) == 1 and any(a[2] == "call" and callee_key(a[3]["f"]) == "std::mem::replace" for a in regs2[0].accesses)
    rep.ob("atomic-swap", "replace-under-lock", ok, "swap_strings_slot = lock; mem::replace(&mut *lock, slot)", sss.file, sss.line)
    if ok:
        t = [a for a in regs2[0].accesses if a[2] == "call"][0][3]
        rep.ob("atomic-swap", "returns-previous", t["dest"][0] == 0 or 0 in {pl for pl in [0]} and any(True for _ in [1]) and _flows_to_return(f2, t["dest"][0]),
               "the previous state is returned to the caller", sss.file, t["l"])
        o = f2.origins(t["args"][1])
        rep.ob("atomic-swap", "stores-param", ("param", 4) in o, "the new state is the `slot` parameter", sss.file, t["l"])
    for bi, t in f2.calls():
        if callee_key(t["f"]) == M + "string_bucket_offset":
            o0, o1 = f2.origins(t["args"][0]), f2.origins(t["args"][1])
            rep.ob("atomic-swap", "address", ("param", 2) in o0 and ("param", 3) in o1, "slot = string_bucket_offset(input, bucket)", sss.file, t["l"])

    # ---- resume parked -------------------------------------------------------------------------------------------
    c3, f3 = P.cfg(pig), P.flow(pig)
    swaps = [(bi, t) for bi, t in f3.calls() if callee_key(t["f"]) == M + "SplitResources::swap_strings_slot"]
    rep.ob("resume-parked", "swap-call", len(swaps) == 1, f"{len(swaps)} swap_strings_slot call(s) in process_input_section_group", pig.file, pig.line)
    for bi, t in swaps:
        o = f3.origins(t["args"][3]) if len(t["args"]) > 3 else set()
        rep.ob("resume-parked", "publishes-strings", any(x[0] == "agg" and x[1] == SLOT_ADT + "::Strings" for x in o), "the producer publishes Strings(..)", pig.file, t["l"])
        H = holders(pig, f3, {t["dest"][0]})
        wait_blocks = variant_blocks(F, pig, f3, c3, SLOT_ADT, {"WaitingForStrings"})
        spawns = [(bj, tt) for bj, tt in f3.calls() if callee_key(tt["f"]) == "rayon::Scope::spawn"]
        good = [bj for bj, tt in spawns if len(tt["args"]) > 1 and op_place(tt["args"][1]) and op_place(tt["args"][1])[0] in H]
        rep.ob("resume-parked", "spawn-with-found-bucket", len(good) == 1, "the bucket found in the slot is moved into the closure given to scope.spawn", pig.file, t["l"])
        for bj in good:
            rep.ob("resume-parked", "spawn-on-waiting-edge", bj in wait_blocks, "spawn happens on the WaitingForStrings edge only", pig.file, pig.blocks[bj]["t"]["l"])
            # and on every path of that edge
            for sb in c3.reach:
                es = enum_switch(F, pig, f3, c3, sb)
                if es and es[0] == SLOT_ADT and sb in c3.dom().get(bj, ()):
                    for lab, names in es[1].items():
                        if names == frozenset(["WaitingForStrings"]):
                            tgt = [tg for l2, tg in c3.succ[sb] if l2 == lab][0]
                            rep.ob("resume-parked", "always-resumed", c3.postdominates(bj, tgt), "every path from the WaitingForStrings edge reaches the spawn (a parked bucket is never dropped)", pig.file, pig.blocks[bj]["t"]["l"])
    found = False
    for c in F.closures_of(pig.key):
        cf = P.flow(c)
        for bi, t in cf.calls():
            if callee_key(t["f"]) == M + "work_with_bucket":
                _f, roots = place_chain(cf, t["args"][1])
                found = found or 1 in roots
    rep.ob("resume-parked", "closure-resumes", found, "the spawned closure calls work_with_bucket with the captured bucket", pig.file, pig.line)
    # index of the swap = group_in.index, bucket = loop counter
    for bi, t in swaps:
        fa, _ = place_chain(f3, t["args"][1])
        rep.ob("resume-parked", "own-group", "index" in fa, f"the producer addresses its own group's slots (fields {fa})", pig.file, t["l"])

    # ---- reservation ------------------------------------------------------------------------------------------------
    cl = F.closures_of(tsp.key)
    rep.ob("reservation", "task-closure", len(cl) == 1, f"{len(cl)} task closure(s) in try_spawn_input_processing", tsp.file, tsp.line)
    for c in cl:
        cc, cf = P.cfg(c), P.flow(c)
        un = [bi for bi, t in cf.calls() if callee_key(t["f"]) == M + "ReusePool::unreserve"]
        rep.ob("reservation", "unreserve-on-all-paths", len(un) >= 1 and any(cc.postdominates(u, 0) for u in un),
               "every path through the spawned task reaches reuse_pool.unreserve(reservation) (a `?` before it would leak capacity and starve later groups)", c.file, c.line)
    # try_reserve is acyclic and non-blocking
    c4 = P.cfg(trs)
    cyc = any(b in c4.reachable_from(t2) for b in c4.reach for _l, t2 in c4.succ[b])
    rep.ob("reservation", "try-reserve-no-loop", not cyc, "try_reserve has no loop: a failed CAS returns Err instead of spinning", trs.file, trs.line)
    p = P.reaches(trs.key, lambda x: x in BLOCKING or x in cs.LOCKS)
    rep.ob("reservation", "try-reserve-non-blocking", p is None, "try_reserve reaches no lock or blocking primitive", trs.file, trs.line)
    # respawn after returning capacity
    rets = [bi for bi, t in flow.calls() if callee_key(t["f"]) == M + "ReusePool::return_strings_to_merge"]
    tsps = [bi for bi, t in flow.calls() if callee_key(t["f"]) == M + "try_spawn_input_processing"]
    rep.ob("reservation", "respawn-after-return", bool(rets) and bool(tsps) and all(any(cfg.postdominates(s, r0) for s in tsps) for r0 in rets),
           "after every return_strings_to_merge the task re-attempts to spawn input processing (a reservation that failed because this capacity was out is retried)", wwb.file, wwb.line)
    # the spawn loop in try_spawn: return only on reservation failure
    c5, f5 = P.cfg(tsp), P.flow(tsp)
    okb, badb = success_blocks(tsp, f5, c5, lambda k: k == M + "ReusePool::try_reserve")
    exits = c5.exits()
    rep.ob("reservation", "loop-exits-on-failure-only", all(e in badb for e in exits) and bool(exits), "try_spawn_input_processing stops only when a reservation fails", tsp.file, tsp.line)

    # ---- leaf sections / no blocking ------------------------------------------------------------------------------------
    n_regions = 0
    lockers = set()
    for b in F.all_bodies:
        if not any(ty.startswith("std::sync::MutexGuard<") and SLOT in ty for ty in b.locals):
            continue
        lockers.add(stable(b.key))
        bc, bf = P.cfg(b), P.flow(b)
        for r in cs.guard_regions(b, bc, bf, SLOT):
            n_regions += 1
            for bi, t in cs.calls_in_region(r, bf):
                for k in sorted(P.callees_of_call(t)):
                    bad_direct = k in cs.LOCKS or k in SPAWNS or k in BLOCKING
                    pth = None
                    if not bad_direct and k.startswith(("libwild::", "<libwild::")):
                        pth = P.reaches(k, lambda x: x in cs.LOCKS or x in SPAWNS or x in BLOCKING, bound=6)
                    if bad_direct or pth:
                        rep.ob("leaf-sections", f"{stable(b.key)}:{k}", False, "lock/spawn/blocking call inside a strings-slot critical section: " + (" -> ".join(pth) if pth else k), b.file, t["l"])
            rep.ob("leaf-sections", f"{stable(b.key)}", True, "critical section examined", b.file, b.line)
    rep.floor("leaf-sections", "critical sections on StringsSlot", n_regions, 2)
    ALLOWED = {M + "work_with_bucket", M + "SplitResources::swap_strings_slot"}
    for k in sorted(lockers):
        rep.ob("slot-access", k, k in ALLOWED, "only work_with_bucket and swap_strings_slot lock a strings slot", None, None)
    roots = [wwb.key, pig.key, tsp.key] + [c.key for c in F.closures_of(tsp.key)] + [c.key for c in F.closures_of(pig.key)]
    seen = P.reachable(roots)
    hits = [k for k in seen if k in BLOCKING]
    for k in hits:
        rep.ob("no-blocking", f"reach:{k}", False, "blocking primitive reachable from a merge task: " + " -> ".join(stable(x) for x in P.path_to(seen, k)))
    rep.ob("no-blocking", "merge-task-closure", not hits, f"{len(seen)} functions reachable from the merge tasks; blocking primitives: {hits}", wwb.file, wwb.line)
    ctl = P.callers_of(lambda k: k in BLOCKING)
    rep.ob("no-blocking", "positive-control", len(ctl) >= 1, f"blocking table matches {len(ctl)} site(s) elsewhere in the workspace")

    # ---- seeding ----------------------------------------------------------------------------------------------------------
    seeded = False
    for c in F.closures_of(csr.key):
        cf = P.flow(c)
        for bi, t in cf.calls():
            if callee_key(t["f"]) == M + "SplitResources::swap_strings_slot":
                c1 = op_const(t["args"][1])
                o2 = cf.origins(t["args"][2])
                o3 = cf.origins(t["args"][3])
                seeded = (c1 is not None and c1.get("val") == 0 and ("param", 2) in o2 and
                          any(x[0] == "agg" and x[1] == SLOT_ADT + "::WaitingForStrings" for x in o3))
    rep.ob("seeding", "slot-0-i", seeded, "swap_strings_slot(0, i, WaitingForStrings(bucket i)) for the closure parameter i", csr.file, csr.line)
    # the range iterated is 0..MERGE_STRING_BUCKETS
    f6 = P.flow(csr)
    rng = False
    for blk in csr.blocks:
        for s in blk["s"]:
            if s["k"] == "assign" and s["rv"]["k"] == "agg" and s["rv"].get("adt") == "std::ops::Range":
                vals = [op_const(o).get("val") if op_const(o) else None for o in s["rv"]["ops"]]
                if vals == [0, NB]:
                    rng = True
    rep.ob("seeding", "range", rng, f"the seeding loop ranges over 0..MERGE_STRING_BUCKETS ({NB})", csr.file, csr.line)
    # addressing: input * NB + bucket
    f7 = P.flow(sbo)
    ops = set()
    cvals = set()
    for blk in sbo.blocks:
        for s in blk["s"]:
            if s["k"] == "assign" and s["rv"]["k"] == "bin":
                ops.add(s["rv"]["op"].replace("WithOverflow", ""))
                for o in (s["rv"]["a"], s["rv"]["b"]):
                    if op_const(o):
                        cvals.add(op_const(o).get("val"))
    rep.ob("seeding", "addressing", "Mul" in ops and "Add" in ops and NB in cvals, f"string_bucket_offset = input * {NB} + bucket (ops {sorted(ops)}, consts {sorted(map(str, cvals))})", sbo.file, sbo.line)
    rep.assume("liveness under all CAS interleavings is argued from these shape facts, not model-checked")
    rep.assume("rayon's scope joins all spawned tasks")


def _flows_to_return(flow, local):
    for bi, si, proj, payload in flow.defs.get(0, []):
        if si == "call":
            continue
        if payload["k"] == "use":
            pl = op_place(payload["a"])
            if pl and pl[0] == local:
                return True
    return False
