"""C33 — --wrap redirects references exactly as GNU ld does (wiring of the name overrides).

Program behaviour is not decided. Decided on SymbolDb::apply_wrapped_symbol_overrides / override_name:
 * the id bound to the plain name S is the result of looking up "__wrap_" + S (prefix, then the name);
 * the id bound to "__real_" + S is the result of looking up S itself;
 * S is looked up before anything is overridden (otherwise __real_S would bind to the wrapper);
 * each override happens only when its source lookup found a symbol (Some edge);
 * override_name rewrites the name→id map only (definitions are untouched, so references that do not go
   through a name lookup - those within the defining object - are unaffected);
 * the overrides are applied once, from SymbolDb construction, after the symbols have been loaded."""
import re

import decide
from mir import callee_key, stable, field_stores

EXPLANATION = ("value-flow (derivation closure incl. format templates) of the name and id arguments of every override_name call in "
               "apply_wrapped_symbol_overrides, dominance order of the original lookup, Some-edge guards, field-write confinement of override_name")
S = "libwild::symbol_db::SymbolDb::"


def template_prefix(text, word):
    """format_args template `\\x07__wrap_\\xc0\\x00`: a literal piece `word` followed directly by one argument, nothing after.
    A bare string literal equal to `word` (used with concat/push_str/`+`) is accepted too; the order of concatenation is then not decided."""
    if text is None:
        return False
    t = text
    if t.strip() in ('"%s"' % word, 'b"%s"' % word, "const \"%s\"" % word):
        return True
    lit = "\\\\x%02x%s\\\\xc0\\\\x00" % (len(word), word)
    return bool(re.search(lit, t)) or bool(re.search(r'"\\x%02x%s\\xc0\\x00"' % (len(word), word), t))


def consts_with(origins, word):
    return [o for o in origins if o[0] == "const" and o[2] and word in o[2]]


def run(ctx, rep):
    F = ctx.facts(); P = ctx.program()
    rep.rule("wrap-binding", "override_name(S, id): id derives from the lookup of `__wrap_`+S; override_name(`__real_`+S, id): id derives from the lookup of S")
    rep.rule("lookup-order", "the lookup of S dominates every override_name call (S is read before it is rebound)")
    rep.rule("some-guard", "each override is performed only on the Some edge of the lookup that supplies its id")
    rep.rule("override-scope", "override_name inserts into buckets[..].name_to_id and writes nothing else")
    rep.rule("applied-once", "apply_wrapped_symbol_overrides has exactly one caller")

    b = F.body(S + "apply_wrapped_symbol_overrides")
    if b is None:
        rep.lost("wrap-binding", S + "apply_wrapped_symbol_overrides")
        return
    flow, cfg = P.flow(b), P.cfg(b)
    lookups = {}   # block -> kind
    for bi, t in flow.calls():
        if (callee_key(t["f"]) or "").endswith("SymbolDb::get_unversioned") or (callee_key(t["f"]) or "").endswith("::get_unversioned"):
            o = flow.deep_origins(t["args"][1]) if len(t["args"]) > 1 else set()
            w, r = consts_with(o, "__wrap_"), consts_with(o, "__real_")
            lookups[bi] = "wrap" if w else ("real" if r else "orig")
    overrides = [(bi, t) for bi, t in flow.calls() if (callee_key(t["f"]) or "").endswith("::override_name")]
    rep.ob("wrap-binding", "sites", len(overrides) == 2 and sorted(lookups.values()) == ["orig", "wrap"],
           f"{len(overrides)} override_name call(s); lookups: {sorted(lookups.values())}", b.file, b.line)
    orig_blocks = [bi for bi, k in lookups.items() if k == "orig"]
    seen_kinds = set()
    for bi, t in overrides:
        name_o = flow.deep_origins(t["args"][1])
        id_o = flow.deep_origins(t["args"][2])
        id_lookups = {lookups[o[2]] for o in id_o if o[0] == "call" and o[2] in lookups}
        real_c = consts_with(name_o, "__real_")
        wrap_c = consts_with(name_o, "__wrap_")
        if real_c:
            kind = "__real_S"
            seen_kinds.add(kind)
            rep.ob("wrap-binding", "real->orig", id_lookups == {"orig"}, f"`__real_`+S is bound to the id from lookup(s) {sorted(id_lookups)} (must be the lookup of S itself)", b.file, t["l"])
            rep.ob("wrap-binding", "real-prefix", all(template_prefix(c[2], "__real_") for c in real_c), f"the overridden name is `__real_` immediately followed by S: {[c[2] for c in real_c]}", b.file, t["l"])
        elif wrap_c:
            rep.ob("wrap-binding", "plain-name", False, "a `__wrap_` name is being overridden (GNU ld rebinds S, not __wrap_S)", b.file, t["l"])
        else:
            kind = "S"
            seen_kinds.add(kind)
            rep.ob("wrap-binding", "S->wrap", id_lookups == {"wrap"}, f"S is bound to the id from lookup(s) {sorted(id_lookups)} (must be the lookup of `__wrap_`+S)", b.file, t["l"])
            wl = [bi2 for bi2, k in lookups.items() if k == "wrap"]
            for bi2 in wl:
                cs = consts_with(flow.deep_origins(b.blocks[bi2]["t"]["args"][1]), "__wrap_")
                rep.ob("wrap-binding", "wrap-prefix", all(template_prefix(c[2], "__wrap_") for c in cs), f"the wrapper's name is `__wrap_` immediately followed by S: {[c[2] for c in cs]}", b.file, b.blocks[bi2]["t"]["l"])
        # order and guard
        rep.ob("lookup-order", f"before:{'real' if real_c else 'S'}", bool(orig_blocks) and all(cfg.dominates(ob, bi) for ob in orig_blocks),
               "the lookup of S dominates this override", b.file, t["l"])
        at = decide.atoms_at(P, F, b, bi)
        rep.ob("some-guard", "real" if real_c else "S", any(a.startswith("variant:Option") and "Some" in v for a, v in at if not isinstance(v, bool)),
               "performed only when the source lookup returned Some", b.file, t["l"])
    rep.ob("wrap-binding", "both-directions", seen_kinds == {"S", "__real_S"}, f"overrides present: {sorted(seen_kinds)}", b.file, b.line)

    # the orig lookup must come before the *first* override in every loop iteration: it dominates both (above) and is not
    # itself dominated by an override
    for ob in orig_blocks:
        rep.ob("lookup-order", "not-after-override", not any(cfg.dominates(bi, ob) for bi, _t in overrides), "no override_name call dominates the lookup of S", b.file, b.blocks[ob]["t"]["l"])

    # every --wrap name is handled independently: nothing inside the loop body may leave the function (a `return` where `continue`
    # is meant makes all later --wrap options silently ineffective after a name that has no definition / no wrapper)
    rep.rule("each-name", "inside the loop over the --wrap names no path returns from the function: the only exit is the iterator's end")
    nexts = []
    for bi, t in flow.calls():
        ck = callee_key(t["f"]) or ""
        nxt = t.get("to")
        if ck.endswith("as std::iter::Iterator>::next") and nxt is not None and bi in cfg.reachable_from(nxt):
            nexts.append(bi)
    rep.ob("each-name", "loop", len(nexts) >= 1, f"{len(nexts)} iterator loop(s) in apply_wrapped_symbol_overrides", b.file, b.line)
    for n_ in nexts:
        # blocks of the loop body: reachable from the call's successor on the Some edge and able to reach `next` again
        from mir import enum_switch
        some_targets = set()
        for sb in cfg.reachable_from(b.blocks[n_]["t"]["to"]):
            es = enum_switch(F, b, flow, cfg, sb)
            if es and es[0].endswith("Option") and cfg.dominates(n_, sb):
                for lab, names in es[1].items():
                    if names == frozenset({"Some"}):
                        some_targets |= {t2 for l2, t2 in cfg.succ[sb] if l2 == lab}
                break
        body_blocks = set()
        for st_ in some_targets:
            body_blocks |= {x for x in cfg.reachable_from(st_, avoid={n_}) | {st_}}
        body_blocks = {x for x in body_blocks if n_ in cfg.reachable_from(x)} - {n_}
        leaks = []
        for x in sorted(body_blocks):
            if any(bx == x for bx, _t in overrides) or any(x == k for k in lookups):
                after = cfg.reachable_from(x, avoid={n_})
                leaks += [y for y in after if b.blocks[y]["t"]["k"] == "return"]
        # general form: from any block that is part of the body, a return reachable without passing `next`
        general = set()
        for x in body_blocks:
            for y in cfg.reachable_from(x, avoid={n_}):
                if b.blocks[y]["t"]["k"] == "return":
                    general.add(y)
        rep.ob("each-name", "no-return-in-body", not general, ("no return statement is reachable from the loop body without going back to the iterator" if not general else
               f"a return is reachable from inside the loop body (block(s) {sorted(general)}): after a name that takes this path every later --wrap option is ignored"), b.file, b.blocks[n_]["t"]["l"])

    ov = F.body(S + "override_name")
    if ov is None:
        rep.lost("override-scope", S + "override_name")
    else:
        oflow = P.flow(ov)
        ins = [(bi, t) for bi, t in oflow.calls() if (callee_key(t["f"]) or "").split("::")[-1] in ("insert", "insert_unique", "entry", "remove", "push", "clear")]
        from mir import expr_tree, render
        tgt = [render(expr_tree(P, ov, t["args"][0], depth=6, expand_params=0)) for _bi, t in ins]
        rep.ob("override-scope", "name_to_id-only", len(ins) == 1 and all("name_to_id" in x for x in tgt), f"mutating calls in override_name: {tgt}", ov.file, ov.line)
        stores = [s for blk in ov.blocks if not blk.get("cleanup") for s in blk["s"] if s["k"] == "assign" and s["p"][1] and any(x.startswith(".") for x in s["p"][1]) and s["p"][0] != 0]
        rep.ob("override-scope", "no-field-stores", not stores, f"{len(stores)} direct field store(s) in override_name", ov.file, ov.line)
    callers = P.callers_of(lambda k: k.endswith("::apply_wrapped_symbol_overrides"))
    rep.ob("applied-once", "callers", len(callers) == 1, f"callers: {[stable(c[0].key) for c in callers]}", b.file, b.line)
    for cb, cbi, ct in callers:
        cflow, ccfg = P.flow(cb), P.cfg(cb)
        adds = [bi for bi, t in cflow.calls() if (callee_key(t["f"]) or "").endswith("SymbolDb::add_inputs")]
        ress = [bi for bi, t in cflow.calls() if (callee_key(t["f"]) or "").endswith("resolve_symbols_and_select_archive_entries")]
        rep.ob("applied-once", "after-loading", bool(adds) and all(ccfg.dominates(a, cbi) for a in adds),
               f"SymbolDb::add_inputs (which fills name_to_id) dominates the call in {stable(cb.key)}", cb.file, ct["l"])
        rep.ob("applied-once", "before-resolution", bool(ress) and all(ccfg.dominates(cbi, r) for r in ress),
               "the overrides are in place before references are resolved by name", cb.file, ct["l"])
    _bucket_selection(ctx, rep)
    rep.assume("references inside the defining object bind by symbol index, not by name lookup (design note in the function's doc comment); program behaviour is not decided")


def _bucket_selection(ctx, rep):
    """SymbolDb shards its name -> id table into buckets; a name lives in bucket hash(name) % buckets.len(). Every site that picks a bucket - the loader's
    per-bucket pending lists, add_synthetic_symbol, the lookups (get / get_unversioned) and override_name, through which --wrap installs S -> __wrap_S and
    __real_S -> S - must use the same selection, otherwise an override is stored where no lookup looks (sibling agreement, checked structurally)."""
    from mir import callee_key, place_chain, expr_tree, simplify
    F, P = ctx.facts(), ctx.program()
    rep.rule("bucket-selection", "every index into SymbolDb::buckets / pending_symbols_by_bucket in symbol_db.rs is Rem(<name>.hash(), <the same vector>.len()): writers "
             "(override_name, add_synthetic_symbol, the loader) and readers (get, get_unversioned) agree on where a name lives")
    n = 0
    shapes = {}
    for b in F.all_bodies:
        if not b.key.startswith(("libwild::symbol_db::", "<libwild::symbol_db::")):
            continue
        fl = P.flow(b)
        for bi, t in fl.calls():
            ck = callee_key(t["f"]) or ""
            if not (ck.endswith("::index") or ck.endswith("::index_mut")) or len(t["args"]) < 2:
                continue
            fields = place_chain(fl, t["args"][0])[0]
            which = next((f for f in ("buckets", "pending_symbols_by_bucket") if f in fields), None)
            if which is None:
                continue
            tr = simplify(expr_tree(P, b, t["args"][1], depth=7, expand_params=0))

            def has_call(x, name):
                if isinstance(x, tuple):
                    if x and x[0] == "call" and str(x[1]).split("::")[-1] == name:
                        return True
                    return any(has_call(y, name) for y in x if isinstance(y, (tuple, list)))
                if isinstance(x, list):
                    return any(has_call(y, name) for y in x)
                return False
            if not has_call(tr, "hash"):
                continue        # positional access (a loop over all buckets), not a selection by name
            n += 1
            ok = False
            shape = tr[0]
            if tr[0] == "bin":
                shape = tr[1]
                lhs, rhs = tr[2], tr[3]
                ok = tr[1] == "Rem" and has_call(lhs, "hash") and has_call(rhs, "len")
            shapes.setdefault(shape, []).append((b, t["l"], which, ok))
    rep.floor("bucket-selection", "bucket index sites in symbol_db.rs", n, 6)
    # sibling agreement: the shape used by the majority of the sites is the reference (today: Rem(hash, len))
    ref = max(shapes, key=lambda k: len(shapes[k])) if shapes else None
    k = 0
    for shape, sites in sorted(shapes.items(), key=lambda kv: str(kv[0])):
        for b, line, which, is_rem in sites:
            k += 1
            ok = shape == ref
            rep.ob("bucket-selection", f"{b.key.split('::')[-1]}:{which}#{k}", ok,
                   f"bucket = hash {shape} len, as at the other {len(shapes[ref]) - 1} site(s)" if ok else
                   f"bucket chosen with `{shape}` here, while {len(shapes[ref])} other site(s) use `{ref}`: names stored through this site are looked up in a different bucket "
                   "whenever the two expressions disagree (e.g. a mask vs a modulus with a bucket count that is not a power of two)", b.file, line)
