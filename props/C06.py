"""C06 — output bytes are deterministic.

Decided statically: every drain of a concurrently filled collection is determinised (sorted by a
schedule-independent key, placed by a carried index, folded order-insensitively) as recorded in a
table whose rows are re-verified on every run; every iteration over a hash container feeds a sort or
an order-insensitive fold; sources of nondeterminism (thread count, time, uuid, environment, pid) are
confined to an allow table; read-modify-write of output bytes is preceded by initialisation; padding
between sections and unused table space is zero-filled."""
import re

from mir import callee_key, declared_key, stable, op_place, op_const, place_chain, enum_switch
from C20 import _alias_roots

EXPLANATION = ("type-driven inventory of concurrent collections and hash containers with their drain sites, each matched "
               "against a determiniser table that is re-checked (sort call present in the named function, indexed placement "
               "present, map insert present); who-may-call over nondeterminism sources; dominance of fill over "
               "read-modify-write stores into output slices")

CONC = re.compile(r"(crossbeam_queue::ArrayQueue|crossbeam_queue::SegQueue|thread_local::ThreadLocal|std::sync::Mutex<std::vec::Vec|crossbeam_utils::atomic::AtomicCell<std::option::Option)")
DRAIN = re.compile(r"(::pop|::into_iter|::iter_mut|::into_inner|::take|::drain|::iter)$")
HASHC = re.compile(r"^&?(mut )?(hashbrown::HashMap|hashbrown::HashSet|std::collections::HashMap|std::collections::HashSet|hashbrown::HashTable)")
HITER = re.compile(r"::(iter|iter_mut|keys|values|values_mut|drain|into_iter|into_keys|into_values|par_iter|into_par_iter|extract_if)$")
SORTS = ("sort", "sort_by", "sort_by_key", "sort_unstable", "sort_unstable_by", "sort_unstable_by_key", "sort_by_cached_key",
         "sorted", "sorted_by", "sorted_by_key", "sorted_unstable", "sorted_unstable_by_key", "par_sort", "par_sort_by_key",
         "par_sort_unstable", "par_sort_unstable_by_key", "par_sort_by", "sorted_by_cached_key", "dedup")

# (stable body key, callee suffix, first field) -> (determiniser kind, argument, reason)
DRAINS = {
    ("libwild::input_data::FileLoader::load_inputs", "into_iter", "files"): ("indexed", None, "each LoadedFile carries its FileLoadIndex and is placed at files_by_index[index]"),
    ("<libwild::layout::SyntheticSymbolsLayoutState as libwild::layout::SymbolRequestHandler>::load_symbol", "pop", ""): ("set-only", None, "start/stop section requests are forwarded as work items; the kept set, not the order, is consumed"),
    ("libwild::layout::GroupActivationInputs::activate_group", "pop", "delay_processing"): ("set-only", None, "capacity-1 queue holding the single delayed group (C39)"),
    ("libwild::resolution::resolve_symbols_and_select_archive_entries", "into_iter", "loaded"): ("indexed", None, "each ResolvedFile is placed by its file_id into resolved_groups[group].files[file]"),
    ("libwild::resolution::resolve_symbols_and_select_archive_entries", "into_iter", "loaded_lto_objects"): ("indexed", None, "(feature `plugins`) each ResolvedLtoInput is placed by its file_id into resolved_groups[group].files[file]"),
    ("libwild::string_merging::MergedStringsSection::add_input_sections", "take", "overflowed_offsets"): ("map-insert", None, "moved out, then inserted into a map keyed by input offset"),
    ("libwild::string_merging::MergedStringsSection::add_input_sections", "into_iter", ""): ("map-insert", None, "overflowed offsets are inserted into a map keyed by input offset"),
    ("libwild::string_merging::MergedStringsSection::add_input_sections", "into_iter", "finished_buckets"): ("sort", "libwild::string_merging::MergedStringsSection::add_input_sections", "buckets.sort_by_key(index)"),
    ("libwild::string_merging::MergedStringsSection::add_input_sections", "into_iter", "finished_shards"): ("set-only", None, "a Vec indexed by group (not a queue): shards are returned to the writer, each owning a disjoint range"),
    ("libwild::string_merging::MergedStringsSection::add_input_sections::{closure}", "into_inner", ""): ("set-only", None, "AtomicCell of one shard, written once by the group's task"),
    ("libwild::string_merging::try_spawn_input_processing::{closure}", "pop", "unprocessed"): ("indexed", "libwild::string_merging::process_input_section_group", "every SectionGroup carries its index; results are stored at slots/shards addressed by it (C40)"),
    ("libwild::string_merging::ReusePool::take_string_merge_vec", "pop", "string_vecs"): ("set-only", None, "scratch vectors: contents cleared by reuse_vec before reuse"),
    ("libwild::thunks::ThunkLayoutBuilder::process_non_primary_part_refs", "take", "non_primary_referenced_symbols"): ("sort", "libwild::thunks::ThunkBlockBuilder::build", "symbols are sorted and deduplicated when the block is built"),
    ("<libwild::timing::TimingLayer as tracing_subscriber::Layer>::on_new_span::{closure}", "pop", ""): ("set-only", None, "timing layer: performance counters, never written to the output"),
}

# hash-container iteration: (stable body key) -> (kind, reason)
HASH_ITER = {
    "libwild::args::ArgumentParser::generate_help": ("sort", "help text only; entries are sorted before printing"),
    "libwild::elf::merge_gnu_property_notes": ("sort", "sorted_by_key(property type)"),
    "libwild::elf::allocate_for_copy_relocations": ("fold", "sizes are summed into per-alignment parts (commutative)"),
    "<libwild::elf::Elf as libwild::platform::Platform>::finalise_layout_dynamic": ("sort", "copy-relocation symbols are sorted before they are written"),
    "libwild::gc_stats::write_gc_stats": ("side-file", "gc statistics side file, not the output"),
    "libwild::save_dir::SaveDir::finish": ("side-file", "save-dir copy set"),
    "libwild::symbol_db::process_alternatives": ("fold", "per-symbol alternatives: each entry is processed independently and errors go to a sorted channel (C26)"),
    "libwild::symbol_db::SymbolDb::all_unversioned_symbols::{closure}": ("set-only", "diagnostic iterator"),
}

# hash-container iteration keyed by the *container* (first named field of the iterated place) instead of the
# iterating function; only kinds that are re-verified from the code on every run may appear here, so the row
# survives a rename/split of the function that holds the loop (e.g. handle_argument -> handle_nested_argument).
HASH_FIELD = {
    "prefix_options": ("prefix-free", "prefix option lookup selects entries with str::strip_prefix and the declared prefixes are "
                                      "pairwise prefix-free, so at most one entry matches whatever the iteration order"),
}
PREFIX_DECL = "libwild::args::OptionDeclaration::prefix"


def prefix_table(P, F):
    """(prefixes declared with OptionDeclaration::prefix(<const>), problems). Fails closed: a non-constant prefix,
    an insert into `prefix_options` or a push to `prefixes` outside OptionDeclaration is a problem."""
    probs, prefixes = [], []
    for b, bi, t in P.callers_of(lambda k: k == PREFIX_DECL):
        c = op_const(t["args"][1]) if len(t["args"]) > 1 else None
        m = re.fullmatch(r'"((?:[^"\\]|\\.)*)"', (c or {}).get("text") or "")
        if not m:
            probs.append(f"non-constant prefix at {b.file}:{t['l']}")
            continue
        prefixes.append(m.group(1))
    for b in F.all_bodies:
        if not b.key.startswith(("libwild::", "<libwild::")):
            continue
        flow = P.flow(b)
        for bi, t in flow.calls():
            ck = callee_key(t["f"]) or ""
            last = ck.split("::")[-1]
            if not t["args"] or last not in ("insert", "push", "extend", "entry", "extend_from_slice", "insert_unique_unchecked", "get_mut", "iter_mut", "values_mut", "retain", "append"):
                continue
            fields, _ = place_chain(flow, t["args"][0])
            named = [f for f in fields if not f.isdigit() and not f.startswith("@")]
            if named and named[0] in ("prefix_options", "prefixes") and not stable(b.key).startswith("libwild::args::OptionDeclaration"):
                probs.append(f"`{named[0]}` is modified by {stable(b.key)} ({b.file}:{t['l']}), outside OptionDeclaration")
    for i, a in enumerate(prefixes):
        for j, c in enumerate(prefixes):
            if i != j and a != c and c.startswith(a):
                probs.append(f"prefix {a!r} is a prefix of {c!r}: an argument starting with -{c} matches both entries and the hash order picks the handler")
    if "" in prefixes:
        probs.append("empty prefix matches every argument")
    return prefixes, probs


SELECTORS = ("strip_prefix", "starts_with")
ADAPTORS = ("find", "find_map", "filter", "filter_map", "any", "position", "all")


def derives_from(flow, op, local, depth=10):
    """`op` is `local`, or a (re)borrow/move/copy of it (no calls crossed)."""
    pl = op_place(op)
    seen = set()
    st = [pl[0]] if pl else []
    while st and depth:
        depth -= 1
        x = st.pop()
        if x == local:
            return True
        if x in seen:
            continue
        seen.add(x)
        for bi, si, lproj, rv in flow.defs.get(x, []):
            if lproj or si == "call":
                continue
            if rv["k"] in ("ref", "rawptr"):
                st.append(rv["p"][0])
            elif rv["k"] in ("use", "cast") and op_place(rv["a"]):
                st.append(op_place(rv["a"])[0])
    return False


def guarded_selection(F, P, b, t):
    """The iteration started by call terminator `t` (iter/into_iter/... on a hash container) acts on an entry only
    after testing its key with str::strip_prefix/starts_with: in a `for`/`while let` loop every path from the
    Some-arm of `next` to the loop head or to a return passes through such a call; for an adaptor chain
    (find/find_map/filter/any/...) the selecting closure contains one. Returns (ok, description)."""
    flow, cfg = P.flow(b), P.cfg(b)
    dest = t["dest"][0]
    is_sel = lambda blk: blk["t"]["k"] == "call" and (callee_key(blk["t"]["f"]) or "").split("::")[-1] in SELECTORS
    nexts, adaptors = [], []
    for bi, t2 in flow.calls():
        if not t2["args"] or bi not in cfg.reach:
            continue
        if not derives_from(flow, t2["args"][0], dest):
            continue
        last = (declared_key(t2["f"]) or "").split("::")[-1]
        if last == "next":
            nexts.append((bi, t2))
        elif last in ADAPTORS:
            adaptors.append((bi, t2))
        else:
            return False, f"the iterator is consumed by {callee_key(t2['f'])}, which is not a recognised selecting form"
    if not nexts and not adaptors:
        return False, "no consumer of the iterator found"
    for bi, t2 in adaptors:
        sel = any(is_sel(blk) for c in F.closures_of(b.key) for blk in c.blocks)
        if not sel:
            return False, f"adaptor {callee_key(t2['f'])} without a strip_prefix/starts_with test in its closure"
    G = {i for i in cfg.reach if is_sel(b.blocks[i])}
    for bi, t2 in nexts:
        sb = t2["to"]
        for _ in range(4):
            if sb is None or b.blocks[sb]["t"]["k"] == "switch":
                break
            sb = b.blocks[sb]["t"].get("to") if b.blocks[sb]["t"]["k"] == "goto" else None
        es = enum_switch(F, b, flow, cfg, sb) if sb is not None else None
        if not es or es[0] != "std::option::Option":
            return False, "the result of `next` is not matched on Some/None"
        some = [tgt for lab, tgt in cfg.succ[sb] if es[1].get(lab) == frozenset(["Some"])]
        if len(some) != 1:
            return False, "no unique Some arm after `next`"
        R = cfg.reachable_from(some[0], avoid=G)
        if bi in R:
            return False, "an entry can be skipped or acted on and the loop continued without testing its key (path from the Some arm back to `next` avoiding strip_prefix/starts_with)"
        rets = [i for i in R if b.blocks[i]["t"]["k"] == "return"]
        if rets:
            return False, "the function can return from the loop body without testing the entry's key: the first entry in hash order is acted on"
    return True, f"{len(nexts)} loop(s)/{len(adaptors)} adaptor(s): every path from the Some arm passes a strip_prefix/starts_with test"


SOURCES = re.compile(r"^(rayon::current_num_threads|rayon_core::current_num_threads|std::thread::available_parallelism|.*::new_v4|"
                     r"std::time::Instant::now|std::time::SystemTime::now|std::env::var|std::env::var_os|std::env::vars|std::process::id|"
                     r"std::thread::current|std::hash::RandomState::new|std::collections::hash_map::RandomState::new|rayon::current_thread_index|"
                     r"std::env::current_dir|std::env::temp_dir|libc::getpid|libc::time|libc::clock_gettime|libc::getrandom|rand::.*|getrandom::.*)$")
SOURCE_ALLOW = {
    ("<libwild::args::CommonArgs as std::default::Default>::default", "std::env::var"): "explicit configuration knobs (WILD_* variables), part of the arguments",
    ("libwild::args::CommonArgs::from_env", "std::env::var"): "explicit configuration knobs (WILD_FILES_PER_GROUP etc.)",
    ("libwild::args::CommonArgs::activate_thread_pool::{closure}", "std::thread::available_parallelism"): "thread count only; the rules below confine its influence",
    ("libwild::diff::maybe_diff", "std::env::var"): "developer diff tool",
    ("libwild::elf_writer::write_dynamic_symbol_definitions", "rayon::current_num_threads"): "sizes chunks of a slice whose results are written through pre-split, position-determined buffers",
    ("libwild::file_writer::copy_section_data", "rayon::current_num_threads"): "sizes chunks of a byte copy (dst[i]=src[i] for every chunking)",
    ("libwild::string_merging::merge_strings", "rayon::current_num_threads"): "sizes the scratch pool (capacity only; results are placed by index, C40)",
    ("libwild::file_writer::verify_allocations_message", "std::env::var"): "wording of an error hint",
    ("libwild::gc_stats::write_gc_stats", "std::env::current_dir"): "gc statistics side file",
    ("libwild::platform::Args::warn_unsupported", "std::env::var"): "warning suppression",
    ("libwild::save_dir::save_dir_from_env", "std::env::var"): "save-dir feature",
    ("libwild::save_dir::SaveDirState::finish", "std::env::var"): "save-dir feature",
    ("libwild::save_dir::write_env", "std::env::var"): "save-dir feature",
    ("<libwild::timing::TimingLayer as tracing_subscriber::Layer>::on_new_span", "std::time::Instant::now"): "timing layer only",
    ("<libwild::timing::TimingLayer as tracing_subscriber::Layer>::on_enter", "std::time::Instant::now"): "timing layer only",
    ("libwild::timing::perfetto_output_file", "std::env::var"): "trace output selection",
    ("libwild::elf_writer::write_gnu_build_id_note", "uuid::Uuid::new_v4"): "--build-id=uuid: random by request",
}


def has_sort(P, F, key):
    b = F.body(key)
    bodies = [b] if b else []
    bodies += F.closures_of(key) if b else []
    for x in bodies:
        for bi, t in P.flow(x).calls():
            ck = callee_key(t["f"]) or ""
            if ck.split("::")[-1] in SORTS:
                return True
    return False


def has_call(P, F, key, pred):
    b = F.body(key)
    if not b:
        return False
    for x in [b] + F.closures_of(key):
        for bi, t in P.flow(x).calls():
            if pred(callee_key(t["f"]) or "", declared_key(t["f"]) or ""):
                return True
    return False


def run(ctx, rep):
    F = ctx.facts()
    P = ctx.program()
    rep.rule("drains", "every drain of a concurrently filled collection is a row of the determiniser table, and the row's determiniser is present in the code (sort call in the named function / indexed store / map insert)")
    rep.rule("hash-iter", "every iteration over a hash container in libwild is a table row (by function, or by container for re-verified kinds); rows of kind `sort` have a sort in the same body; rows of kind `prefix-free` select with strip_prefix over a key set read from the declarations and checked pairwise prefix-free")
    rep.rule("sources", "every call of a nondeterminism source (thread count, time, uuid, env, pid, randomness) is a row of the allow table")
    rep.rule("rmw-init", "a read-modify-write store into an output slice is dominated by a fill of that slice or a plain store to the same place")
    rep.rule("total-order", "collections whose arrival order depends on scheduling are sorted by a total key: the dynamic symbols by (bucket, name) - the name makes the order total and schedule-independent")
    rep.rule("zero-fill", "padding between sections, unused trailing space of parts and hash-table arrays are zero-filled")

    # ---- drains -----------------------------------------------------------------------------------------
    n = 0
    for b in F.all_bodies:
        if not b.key.startswith(("libwild::", "<libwild::")):
            continue
        flow = P.flow(b)
        for bi, t in flow.calls():
            ck = callee_key(t["f"]) or ""
            if not t["args"] or not DRAIN.search(ck):
                continue
            pl = op_place(t["args"][0])
            if not pl:
                continue
            ty = b.locals[pl[0]]
            if not CONC.search(ty) or "error::Error>" in ty:
                continue
            fields, _ = place_chain(flow, t["args"][0])
            named = [f for f in fields if not f.isdigit() and not f.startswith("@")]
            key = (stable(b.key), ck.split("::")[-1], named[0] if named else "")
            n += 1
            row = DRAINS.get(key)
            inst = f"{key[0]}:{key[1]}:{key[2]}"
            if row is None:
                rep.ob("drains", inst, False, f"a concurrently filled collection ({ty[:70]}) is drained here and no determiniser is recorded for it: its arrival order is schedule dependent", b.file, t["l"])
                continue
            kind, arg, reason = row
            ok = True
            detail = reason
            if kind == "sort":
                ok = has_sort(P, F, arg)
                detail = f"{reason}; sort call in {arg}: {'present' if ok else 'MISSING'}"
            elif kind == "indexed":
                target = arg or b.key
                ok = has_call(P, F, target, lambda c, d: d in ("std::ops::IndexMut::index_mut", "std::ops::Index::index") or c.endswith("::store") or c.endswith("get_mut") or c.endswith("get_unchecked_mut"))
                detail = f"{reason}; indexed placement in {stable(target)}: {'present' if ok else 'MISSING'}"
            elif kind == "map-insert":
                ok = has_call(P, F, b.key, lambda c, d: c.endswith("::insert"))
                detail = f"{reason}; map insert: {'present' if ok else 'MISSING'}"
            rep.ob("drains", inst, ok, detail, b.file, t["l"])
    rep.floor("drains", "drain sites", n, 12)

    # ---- hash iteration ---------------------------------------------------------------------------------------
    n = 0
    pfx = None
    for b in F.all_bodies:
        if not b.key.startswith(("libwild::", "<libwild::")):
            continue
        flow = P.flow(b)
        for bi, t in flow.calls():
            ck = callee_key(t["f"]) or ""
            if not t["args"] or not HITER.search(ck):
                continue
            pl = op_place(t["args"][0])
            if not pl:
                continue
            ty = b.locals[pl[0]]
            if not HASHC.search(ty):
                continue
            n += 1
            row = HASH_ITER.get(stable(b.key))
            inst = f"{stable(b.key)}:{ck.split('::')[-1]}"
            if row is None:
                fields, _ = place_chain(flow, t["args"][0])
                named = [f for f in fields if not f.isdigit() and not f.startswith("@")]
                frow = HASH_FIELD.get(named[0]) if named else None
                if frow is not None and frow[0] == "prefix-free":
                    if pfx is None:
                        pfx = prefix_table(P, F)
                    selects, how = guarded_selection(F, P, b, t)
                    ok = not pfx[1] and len(pfx[0]) >= 5 and selects
                    detail = (f"{frow[1]}; declared prefixes {sorted(pfx[0])}; selection: {how if selects else 'MISSING - ' + how}"
                              + ("; " + "; ".join(pfx[1]) if pfx[1] else ""))
                    rep.ob("hash-iter", inst, ok, detail, b.file, t["l"])
                    continue
            if row is None:
                rep.ob("hash-iter", inst, False, f"iteration over a hash container ({ty[:60]}) with no recorded determiniser: iteration order depends on the hasher and insertion history", b.file, t["l"])
                continue
            kind, reason = row
            ok = True
            if kind == "sort":
                ok = has_sort(P, F, b.key)
                reason += f"; sort in body: {'present' if ok else 'MISSING'}"
            rep.ob("hash-iter", inst, ok, reason, b.file, t["l"])
    rep.floor("hash-iter", "hash iteration sites", n, 8)

    # ---- sources -------------------------------------------------------------------------------------------------
    sites = [x for x in P.callers_of(lambda k: bool(SOURCES.match(k))) if x[0].key.startswith(("libwild::", "<libwild::", "wild::", "linker_utils::"))]
    for b, bi, t in sites:
        ck = callee_key(t["f"])
        if ck == "std::env::args" or ck == "std::env::current_dir" and False:
            continue
        row = SOURCE_ALLOW.get((stable(b.key), ck)) or SOURCE_ALLOW.get((stable(b.key), re.sub(r"^.*::new_v4$", "uuid::Uuid::new_v4", ck)))
        rep.ob("sources", f"{stable(b.key)}->{ck}", row is not None, row or "a nondeterminism source is read outside the allow table: anything derived from it must not reach the output bytes", b.file, t["l"])
    rep.floor("sources", "nondeterminism source sites", len(sites), 15)
    # uuid only under BuildIdOption::Uuid
    from mir import variant_blocks
    for b, bi, t in sites:
        if (callee_key(t["f"]) or "").endswith("new_v4"):
            vb = variant_blocks(F, b, P.flow(b), P.cfg(b), "libwild::args::elf::BuildIdOption", {"Uuid"})
            rep.ob("sources", "uuid-only-on-request", bi in vb, "Uuid::new_v4 is reached only on the BuildIdOption::Uuid arm", b.file, t["l"])

    # ---- rmw-init ---------------------------------------------------------------------------------------------------
    n = 0
    for b in F.all_bodies:
        if not b.key.startswith(("libwild::elf_writer", "<libwild::elf_writer", "libwild::sframe", "libwild::file_writer", "libwild::elf::write")):
            continue
        cfg, flow = P.cfg(b), P.flow(b)
        dom = None
        for bi, blk in enumerate(b.blocks):
            if blk.get("cleanup") or bi not in cfg.reach:
                continue
            for si, s in enumerate(blk["s"]):
                if s["k"] != "assign" or s["rv"]["k"] != "bin" or s["rv"]["op"] not in ("BitOr", "BitAnd", "BitXor", "Add", "AddWithOverflow"):
                    continue
                p = s["p"]
                a = op_place(s["rv"]["a"])
                if not p[1] or not a or [a[0], a[1]] != [p[0], p[1]]:
                    continue
                ty = b.locals[p[0]]
                if not re.match(r"^&mut (\[u(8|16|32|64)\]|u(8|16|32|64))$", ty):
                    continue
                n += 1
                dom = dom or cfg.dom()
                ok = False
                why = ""
                if ty.startswith("&mut ["):
                    for bj, t in flow.calls():
                        if (callee_key(t["f"]) or "").endswith("::fill") and t["args"]:
                            apl = op_place(t["args"][0])
                            visited = _alias_roots(flow, apl[0]) if apl else set()
                            if p[0] in visited and bj in dom.get(bi, ()):
                                ok = True
                                why = "dominated by a fill of the same slice"
                else:
                    # a dominating plain store to the same place
                    for bj, blk2 in enumerate(b.blocks):
                        for sj, s2 in enumerate(blk2["s"]):
                            if s2["k"] == "assign" and s2["p"] == p and not (s2["rv"]["k"] == "bin" and op_place(s2["rv"]["a"]) and list(op_place(s2["rv"]["a"])) == [p[0], p[1]]):
                                if (bj in dom.get(bi, ()) and bj != bi) or (bj == bi and sj < si):
                                    ok = True
                                    why = "dominated by a plain store to the same place"
                rep.ob("rmw-init", f"{stable(b.key)}:{s['rv']['op']}:{b.local_name(p[0]) or p[0]}", ok,
                       why or "read-modify-write of output bytes that were never initialised by this link: with --update-in-place the result depends on the previous file contents", b.file, s["l"])
    rep.floor("rmw-init", "read-modify-write stores into output integers", n, 2)

    # ---- zero-fill ---------------------------------------------------------------------------------------------------
    FILLS = {
        "libwild::elf_writer::fill_padding": "unused tail of every section-part buffer",
        "libwild::file_writer::split_output_into_sections": "padding between sections",
        "libwild::elf_writer::write_gnu_hash_tables": "bloom + buckets",
        "libwild::elf_writer::write_sysv_hash_table": "buckets + chains",
    }
    for key, what in FILLS.items():
        ok = has_call(P, F, key, lambda c, d: c.endswith("::fill"))
        if F.body(key) is None:
            # try suffix match (function renamed inside the module)
            cands = [b for b in F.all_bodies if b.key.split("::")[-1] == key.split("::")[-1]]
            if not cands and key.endswith("write_sysv_hash_table"):
                rep.note("write_sysv_hash_table not found under that name; skipped")
                continue
            rep.lost("zero-fill", key)
            continue
        rep.ob("zero-fill", key.split("::")[-1], ok, f"zero fill of {what}", F.body(key).file, F.body(key).line)
    # fill_padding is called on the write path
    w = F.body("libwild::elf_writer::write_file_contents")
    if w is not None:
        rep.ob("zero-fill", "fill_padding-called", has_call(P, F, w.key, lambda c, d: c == "libwild::elf_writer::fill_padding"), "write_file_contents ends with fill_padding", w.file, w.line)
    # ---- total order of the dynamic symbols ---------------------------------------------------------------------------
    # Export requests that cross groups (WorkItem::ExportDynamic) are pushed to dynamic_symbol_definitions in arrival order, which
    # depends on the thread count and on scheduling; .dynsym/.dynstr/.gnu.hash are written in the order of that vector. Only a sort
    # by a *total* key removes the dependency: a stable sort by bucket alone keeps arrival order inside a bucket.
    import sortkey
    ok, why = sortkey.gnu_hash_sort_is_total(F, P)
    if ok is None:
        rep.lost("total-order", why)
    else:
        rep.ob("total-order", "dynamic-symbols", ok, f"create_gnu_hash_layout: {why}", "libwild/src/elf.rs", 0)
    # ---- the output file's length is always set -----------------------------------------------------------------------------
    # In the update-in-place modes the output is opened without O_TRUNC; if its length were not set, a longer file left by an earlier
    # link would keep its tail, so the bytes (and length) of the output would depend on what was at the path before.
    rep.rule("output-sized", "every path of OutputBuffer::new sets the file's length (File::set_len directly or through new_mmapped) before a buffer is returned")
    ob = F.body("libwild::file_writer::OutputBuffer::new")
    if ob is None:
        rep.lost("output-sized", "file_writer::OutputBuffer::new")
    else:
        oflow, ocfg = P.flow(ob), P.cfg(ob)
        sizers = [bi for bi, t in oflow.calls() if (callee_key(t["f"]) or "").endswith(("File::set_len", "OutputBuffer::new_mmapped"))]
        rets = [x for x in ocfg.reach if ob.blocks[x]["t"]["k"] == "return"]
        uncovered = [r for r in rets if not any(ocfg.dominates(s_, r) for s_ in sizers)]
        # a return is also fine when every path to it passes one of the sizers (two arms): check by removing the sizers
        still = set()
        for r in uncovered:
            if r in ocfg.reachable_from(0, avoid=set(sizers)):
                still.add(r)
        rep.ob("output-sized", "all-paths", bool(sizers) and not still, f"{len(sizers)} sizing call(s); {len(still)} return(s) reachable without sizing the file", ob.file, ob.line)
        nm = F.body("libwild::file_writer::OutputBuffer::new_mmapped")
        if nm is not None:
            nflow, ncfg = P.flow(nm), P.cfg(nm)
            sl = [bi for bi, t in nflow.calls() if (callee_key(t["f"]) or "").endswith("File::set_len")]
            rep.ob("output-sized", "new_mmapped-sets-len", bool(sl) and all(ncfg.dominates(s_, bi) for s_ in sl for bi, t in nflow.calls() if "map_mut" in (callee_key(t["f"]) or "")),
                   "new_mmapped sets the length before mapping", nm.file, nm.line)
    _got_words_written(ctx, rep)
    rep.assume("byte equality across thread counts itself needs execution; decided here are the code-shape conditions without which it cannot hold")
    rep.assume("hashbrown with a fixed-state hasher iterates deterministically for identical insertion sequences; rows of kind set-only/fold do not depend on it")


def _got_words_written(ctx, rep):
    """With --update-in-place the output buffer starts out holding the previous file's bytes. A GOT slot that is *taken* (take_next_got_entry) but not stored
    on some successful path keeps those bytes: the output then depends on what was at the output path before (even if a dynamic relocation overwrites the
    word at load time, the file - and a fast build ID over it - differs)."""
    from mir import callee_key
    F, P = ctx.facts(), ctx.program()
    rep.rule("got-word-written", "every GOT slot obtained from TableWriter::take_next_got_entry is assigned on every path from the take to a successful return of the function")
    n = 0
    for b, bi, t in P.callers_of(lambda k: k.endswith("TableWriter::take_next_got_entry")):
        flow, cfg = P.flow(b), P.cfg(b)
        # the `&mut u64` local that receives the slot
        slots = []
        for l, ty in enumerate(b.locals):
            if ty.strip() == "&mut u64" and l > b.d["argc"]:
                o = flow.origins(("c", (l, [])))
                if any(x[0] == "call" and x[2] == bi for x in o):
                    slots.append(l)
        if not slots:
            rep.ob("got-word-written", f"{b.key.split('::')[-1]}#{t['l']}:slot", False, "the taken slot is not bound to a `&mut u64` local (cannot follow it)", b.file, t["l"])
            continue
        stores = set()
        for bj, blk in enumerate(b.blocks):
            if blk.get("cleanup"):
                continue
            for st in blk["s"]:
                if st["k"] == "assign" and st["p"][1] == ["*"] and st["p"][0] in slots:
                    stores.add(bj)
        # error exits: blocks that build Err(..) / propagate a residual / diverge
        errs = set()
        for bj, blk in enumerate(b.blocks):
            tt = blk["t"]
            if tt["k"] == "call" and ((callee_key(tt["f"]) or "").endswith("FromResidual>::from_residual") or (callee_key(tt["f"]) or "").endswith("::from_residual")):
                errs.add(bj)
            for st in blk["s"]:
                if st["k"] == "assign" and st["p"] == [0, []] and st["rv"]["k"] == "agg" and st["rv"].get("variant") == "Err":
                    errs.add(bj)
        # where does the slot become available: the block after the `?` on the take
        start = t.get("to")
        n += 1
        reach = cfg.reachable_avoiding_edges(start, set(), avoid_blocks=stores | errs) if start is not None else set()
        leaks = sorted(x for x in cfg.exits() if x in reach)
        # a tail call `return self.write_..(..)` also ends the function successfully: exits cover it
        name = b.key.split("::")[-1]
        rep.ob("got-word-written", f"{name}#{n}", not leaks,
               f"{name}: the slot taken at line {t['l']} is stored on every successful path ({len(stores)} store site(s))" if not leaks else
               f"{name}: a successful return is reachable from the take at line {t['l']} without any store to the slot: under --update-in-place the word keeps the bytes of the "
               "previous output file", b.file, t["l"])
    rep.floor("got-word-written", "take_next_got_entry call sites", n, 6)
