"""C14 — x86-64 GOT and TLS relaxations preserve instruction semantics.

Decided statically: every Relaxation literal of ElfX86_64::new_relaxation pairs its kind with a
replacement relocation whose signedness matches how the CPU extends the immediate; the byte rewrite of
each GOT relaxation arm (bit-provenance interpretation of RelaxationKind::apply) produces the oracle's
opcode and /digit, moves the old `reg` field (and REX.R) into `rm` (and REX.B), touches no other
byte, zeroes the addend for absolute forms; template arms write the oracle's byte templates and move
the relocation offset to the template's immediate; no catch-all over RelaxationKind; GOT-dropping
relaxations of addresses are built only on the non-interposable edge."""
import os
import sys

sys.path.insert(0, os.path.join(os.path.dirname(os.path.dirname(os.path.abspath(__file__))), "oracles"))
import bitflow
import fold
import hirq
from bitflow import Bytes, Cell, Enum, SymEval, atoms, fmt_cell
from mir import bool_edge_blocks, callee_key, enum_switch, stable

EXPLANATION = ("structural extraction of every Relaxation{kind, rel_info} literal from HIR with the constant-folded relocation "
               "type, compared with an operand-size/sign-extension oracle; bit-provenance abstract interpretation of "
               "RelaxationKind::apply over a symbolic byte buffer; exhaustiveness from MIR; edge-dominance for the interposable guard")

RK = "linker_utils::x86_64::RelaxationKind"
APPLY = "linker_utils::x86_64::RelaxationKind::apply"
OFF = 12


def run_apply(F, FD, var, args=()):
    se = SymEval(F, FD)
    cells = [("a", ("old", j)) for j in range(40 * 8)]
    buf = Bytes(cells)
    off, add = Cell(OFF), Cell(-4)
    se.run_fn(APPLY, [Enum(RK + "::" + var, args), buf, off, add])
    return cells, off.v, add.v


def byte(cells, i):
    return [cells[i * 8 + j] for j in range(8)]


def const_byte(bits):
    if all(b[0] == "c" for b in bits):
        return sum(b[1] << j for j, b in enumerate(bits))
    return None


def run(ctx, rep):
    F = ctx.facts(); P = ctx.program()
    import x86_relax as O
    FD = fold.Folder(F)
    rep.rule("pairs", "each Relaxation literal pairs its kind with a replacement relocation type the oracle allows for that operand form")
    rep.rule("modrm-rewrite", "ModRM-rewriting arms: opcode byte and /digit per oracle, mod=11, rm := old reg, REX.B := old REX.R and REX.R := 0, every other byte untouched, addend zeroed")
    rep.rule("templates", "template arms write the oracle's bytes at the oracle's position and move the relocation offset onto the template's immediate")
    rep.rule("exhaustive", "apply and next_modifier match every RelaxationKind without a catch-all")
    rep.rule("interposable-guard", "relaxations that drop the GOT indirection for an address are constructed only on the !is_interposable edge")

    # ---- pairs -----------------------------------------------------------------------------------------
    nr = None
    for k in F.hir():
        if k.endswith("::new_relaxation") and "elf_x86_64" in k:
            nr = F.hir()[k][0]
    if nr is None:
        rep.lost("pairs", "ElfX86_64::new_relaxation")
    else:
        n = 0
        for x in fold.walk(nr["body"]):
            if x.get("e") == "struct" and x["ty"].endswith("Relaxation") and "elf_x86_64" in x["ty"]:
                fields = dict((a, b) for a, b in x["fields"])
                kind = hirq.strip(fields.get("kind"))
                ri = fields.get("rel_info")
                kinds = kind_names(kind, nr)
                rtypes = [l.get("text", "").split("::")[-1] for l in fold.walk(ri) if l.get("e") == "path" and l.get("res") == "Const" and "R_X86_64_" in (l.get("def") or "")]
                rtypes = [l.get("def").split("::")[-1] for l in fold.walk(ri) if l.get("e") == "path" and l.get("res") == "Const" and "R_X86_64_" in (l.get("def") or "")]
                for kn in kinds:
                    n += 1
                    allowed = O.PAIRS.get(kn)
                    if allowed is None:
                        rep.ob("pairs", f"{kn}:unknown-kind", False, "relaxation kind without an oracle row", nr["file"], x["l"])
                        continue
                    ok = bool(rtypes) and all(r in allowed for r in rtypes)
                    rep.ob("pairs", f"{kn}->{','.join(rtypes)}", ok,
                           f"replacement relocation {rtypes} for {kn}; oracle allows {sorted(allowed)}" +
                           ("" if ok else ": the rewritten instruction sign-extends its imm32 under REX.W, so an unsigned 32-bit relocation lets values in [2^31, 2^32) through and the register receives 0xffffffff_xxxxxxxx"),
                           nr["file"], x["l"])
        rep.floor("pairs", "Relaxation literals", n, 20)

    # ---- modrm rewrite ------------------------------------------------------------------------------------
    for var, (opc, digit) in O.MODRM.items():
        variants = [()] if var == "MovIndirectToAbsolute" else [(3,), (4,)]
        for args in variants:
            tag = var + (f"({args[0]})" if args else "")
            try:
                cells, off, add = run_apply(F, FD, var, args)
            except Exception as e:
                rep.ob("modrm-rewrite", f"{tag}:interp", False, f"arm could not be interpreted: {type(e).__name__}: {e}")
                continue
            ob = byte(cells, OFF - 2)
            rep.ob("modrm-rewrite", f"{tag}:opcode", const_byte(ob) == opc, f"opcode byte {const_byte(ob)!r} vs {opc:#x}")
            m = byte(cells, OFF - 1)
            old_modrm = (OFF - 1) * 8
            mod_ok = m[7] == ("c", 1) and m[6] == ("c", 1)
            dig = [m[3], m[4], m[5]]
            dig_ok = all(b[0] == "c" for b in dig) and sum(b[1] << j for j, b in enumerate(dig)) == digit
            rm_ok = all(m[j] == ("a", ("old", old_modrm + 3 + j)) for j in range(3))
            rep.ob("modrm-rewrite", f"{tag}:mod11", mod_ok, "ModRM.mod = 11 (register direct)")
            rep.ob("modrm-rewrite", f"{tag}:digit", dig_ok, f"ModRM.reg = /{digit} selects the operation (got {[fmt_cell(b) for b in reversed(dig)]})")
            rep.ob("modrm-rewrite", f"{tag}:rm=old-reg", rm_ok, f"ModRM.rm carries the old reg field (same destination register): {[fmt_cell(b) for b in reversed(m[:3])]}")
            rep.ob("modrm-rewrite", f"{tag}:addend", add == 0, f"addend zeroed for the absolute form (is {add})")
            rep.ob("modrm-rewrite", f"{tag}:offset", off == OFF, "relocation offset unchanged")
            touched = {OFF - 2, OFF - 1}
            if args:
                r = byte(cells, OFF - 3)
                old_rex = (OFF - 3) * 8
                rex_r_cleared = r[2] == ("c", 0)
                b_atoms = atoms(r[0])
                rex_b = ("old", old_rex + 2) in b_atoms and b_atoms <= {("old", old_rex), ("old", old_rex + 2)}
                if args[0] == 3:
                    others = all(r[j] == ("a", ("old", old_rex + j)) for j in (1, 3, 4, 5, 6, 7))
                else:
                    # REX2 payload byte: R4 (bit 6) moves to B4 (bit 4) like R3 (bit 2) to B3 (bit 0)
                    b4 = atoms(r[4])
                    others = (r[6] == ("c", 0) and ("old", old_rex + 6) in b4 and b4 <= {("old", old_rex + 4), ("old", old_rex + 6)}
                              and all(r[j] == ("a", ("old", old_rex + j)) for j in (1, 3, 5, 7)))
                rep.ob("modrm-rewrite", f"{tag}:rex", rex_r_cleared and rex_b and others,
                       f"REX.R cleared, REX.B := old REX.R (and R4 -> B4 for the REX2 form), other prefix bits kept: {[fmt_cell(b) for b in reversed(r)]}")
                touched.add(OFF - 3)
            stray = [i for i in range(40) if i not in touched and byte(cells, i) != [("a", ("old", i * 8 + j)) for j in range(8)]]
            rep.ob("modrm-rewrite", f"{tag}:local", not stray, f"no byte outside REX/opcode/ModRM changes (changed: {stray})")
    # lea
    try:
        cells, off, add = run_apply(F, FD, "MovIndirectToLea")
        changed = [i for i in range(40) if byte(cells, i) != [("a", ("old", i * 8 + j)) for j in range(8)]]
        rep.ob("modrm-rewrite", "MovIndirectToLea", changed == [OFF - 2] and const_byte(byte(cells, OFF - 2)) == 0x8D and add == -4 and off == OFF,
               f"mov (8b) -> lea (8d): only the opcode byte changes, addend and offset kept (changed {changed})")
    except Exception as e:
        rep.ob("modrm-rewrite", "MovIndirectToLea:interp", False, str(e))

    # ---- TLSDESC register-preserving rewrites -------------------------------------------------------------------
    rep.rule("tlsdesc-register", "TLSDESC -> LE/IE rewrites keep the destination register: `mov $imm,%reg` carries it in ModRM.rm + REX.B, `mov x@gottpoff(%rip),%reg` in ModRM.reg + REX.R; REX.W set, other prefix bits clear, immediate zeroed, nothing else touched")
    for (var, args), spec in O.REGFORMS.items():
        tag = var + (f"({args[0]})" if args else "")
        try:
            cells, off, add = run_apply(F, FD, var, args)
        except Exception as e:
            rep.ob("tlsdesc-register", f"{tag}:interp", False, f"arm could not be interpreted: {type(e).__name__}: {e}")
            continue
        old_rex, old_modrm = (OFF - 3) * 8, (OFF - 1) * 8

        def want_bits(pattern):
            out = []
            ri = 0
            for ch in pattern:           # MSB first
                if ch in "01":
                    out.append(("c", int(ch)))
                elif ch == "R":
                    out.append(("a", ("old", old_rex + 2)))
                elif ch == "r":
                    out.append(("a", ("old", old_modrm + 5 - ri)))
                    ri += 1
            return list(reversed(out))   # LSB first, like byte()
        r = byte(cells, OFF - 3)
        rep.ob("tlsdesc-register", f"{tag}:rex", r == want_bits(spec["rex"]), f"REX byte {[fmt_cell(b) for b in reversed(r)]} vs {spec['rex']} (R = old REX.R: the destination's high bit must stay with the field that holds the destination)")
        rep.ob("tlsdesc-register", f"{tag}:opcode", const_byte(byte(cells, OFF - 2)) == spec["opcode"], f"opcode {const_byte(byte(cells, OFF - 2))!r} vs {spec['opcode']:#x}")
        m = byte(cells, OFF - 1)
        rep.ob("tlsdesc-register", f"{tag}:modrm", m == want_bits(spec["modrm"]), f"ModRM {[fmt_cell(b) for b in reversed(m)]} vs {spec['modrm']} (r = old reg field)")
        rep.ob("tlsdesc-register", f"{tag}:imm", all(const_byte(byte(cells, OFF + i)) == 0 for i in range(4)), "the 4 immediate/displacement bytes are zeroed before the relocation is applied")
        rep.ob("tlsdesc-register", f"{tag}:addend", add == spec["addend"] and off == OFF, f"addend {add} (want {spec['addend']}), offset delta {off - OFF}")
        stray = [i for i in range(40) if not (OFF - 3 <= i < OFF + 4) and byte(cells, i) != [("a", ("old", i * 8 + j)) for j in range(8)]]
        rep.ob("tlsdesc-register", f"{tag}:local", not stray, f"no byte outside the 7-byte instruction changes ({stray})")

    # ---- templates ----------------------------------------------------------------------------------------
    for var, (start, tmpl, imm_idx) in O.TEMPLATES.items():
        try:
            cells, off, add = run_apply(F, FD, var)
        except Exception as e:
            rep.ob("templates", f"{var}:interp", False, f"{type(e).__name__}: {e}")
            continue
        got = [const_byte(byte(cells, OFF + start + i)) for i in range(len(tmpl))]
        rep.ob("templates", f"{var}:bytes", got == tmpl, f"bytes at offset{start:+d}: {[('%02x' % b) if b is not None else '??' for b in got]}")
        stray = [i for i in range(40) if not (OFF + start <= i < OFF + start + len(tmpl)) and byte(cells, i) != [("a", ("old", i * 8 + j)) for j in range(8)]]
        rep.ob("templates", f"{var}:local", not stray, f"nothing outside the template changes ({stray})")
        if imm_idx is not None:
            rep.ob("templates", f"{var}:offset", off == OFF + start + imm_idx, f"relocation offset moves to the template's immediate (delta {off - OFF:+d}, expected {start + imm_idx:+d})")

    # ---- exhaustive -----------------------------------------------------------------------------------------
    adt = F.adt(RK)
    for key in (APPLY, RK + "::next_modifier"):
        b = F.body(key)
        if b is None or adt is None:
            rep.lost("exhaustive", key)
            continue
        cfg, flow = P.cfg(b), P.flow(b)
        best = None
        for sb in cfg.reach:
            es = enum_switch(F, b, flow, cfg, sb)
            if es and es[0] == RK:
                n = sum(len(v) for lab, v in es[1].items() if lab != "else")
                if best is None or n > best[0]:
                    best = (n, sb, es)
        if best is None:
            rep.lost("exhaustive", f"switch over RelaxationKind in {key}")
            continue
        n, sb, es = best
        els = es[1].get("else", frozenset())
        tgt = [t for l, t in cfg.succ[sb] if l == "else"]
        unreachable = all(b.blocks[t]["t"]["k"] == "unreachable" for t in tgt)
        rep.ob("exhaustive", key.split("::")[-1], unreachable or not els, f"{n}/{len(adt['variants'])} variants have explicit arms; otherwise edge {'unreachable' if unreachable else 'catches ' + str(sorted(els))}", b.file, b.line)

    # ---- interposable guard -----------------------------------------------------------------------------------
    nb = None
    for b in F.all_bodies:
        if b.key.endswith("::new_relaxation") and "elf_x86_64" in b.key:
            nb = b
    if nb is None:
        rep.lost("interposable-guard", "MIR of ElfX86_64::new_relaxation")
    else:
        cfg, flow = P.cfg(nb), P.flow(nb)
        tb, fb = bool_edge_blocks(nb, flow, cfg, lambda k: k == "libwild::value_flags::ValueFlags::is_interposable")
        n = 0
        for bi, blk in enumerate(nb.blocks):
            if blk.get("cleanup") or bi not in cfg.reach:
                continue
            for s in blk["s"]:
                if s["k"] == "assign" and s["rv"]["k"] == "agg" and s["rv"].get("adt") == RK and s["rv"]["variant"] in O.NEEDS_NON_INTERPOSABLE:
                    n += 1
                    rep.ob("interposable-guard", f"{s['rv']['variant']}@{'guarded' if bi in fb else 'unguarded'}", bi in fb,
                           "an interposable symbol may be defined elsewhere at run time: bypassing the GOT binds the reference to the local definition", nb.file, s["l"])
        rep.floor("interposable-guard", "GOT-dropping relaxation constructions", n, 4)
    _relax_filter(ctx, rep)
    _tlsdesc_pairing(ctx, rep)
    rep.assume("the instruction bytes matched before a relaxation is chosen (REX.W=1, X=0, B=0) are those new_relaxation tests; runtime values of symbols are not decided")


def kind_names(kind, body):
    """Variant names a `kind:` expression can take (a Ctor path, a Ctor call, or a local bound by a match)."""
    if kind.get("e") == "path" and kind.get("res") == "Ctor":
        return [kind["def"].split("::")[-1]]
    if kind.get("e") == "call" and kind["f"].get("res") == "Ctor":
        return [kind["f"]["def"].split("::")[-1]]
    if kind.get("e") == "path" and kind.get("res") == "Local":
        # find the let that binds it and collect the constructors in its initialiser
        out = []
        for x in fold.walk(body["body"]):
            if x.get("e") == "block":
                for s in x["stmts"]:
                    if s["s"] == "let" and s["pat"].get("p") == "bind" and s["pat"]["id"] == kind["id"] and s["init"]:
                        for y in fold.walk(s["init"]):
                            if y.get("e") == "path" and y.get("res") == "Ctor" and "RelaxationKind::" in y["def"]:
                                out.append(y["def"].split("::")[-1])
        return sorted(set(out))
    return []


def _relax_filter(ctx, rep):
    """A relaxation found by new_relaxation is used iff relaxation is enabled or the relaxation is mandatory (e.g. TLS transitions the output kind requires):
    --no-relax must not drop mandatory rewrites, and optional ones must not be applied when relaxation is off. The same filter guards the layout-time
    (elf::process_relocation) and the write-time (elf_writer::apply_relocation) use."""
    import decide
    from mir import callee_key
    F, P = ctx.facts(), ctx.program()
    rep.rule("relax-filter", "the filter on new_relaxation's result keeps a relaxation iff args.should_relax() || relaxation.is_mandatory() - at layout time and at write time alike")
    n = 0
    for parent in ("libwild::elf::process_relocation", "libwild::elf_writer::apply_relocation"):
        for c in F.closures_of(parent):
            names = {(callee_key(t["f"]) or "").split("::")[-1] for _b, t in P.flow(c).calls()}
            if "is_mandatory" not in names or c.locals[0].strip() != "bool":
                continue
            n += 1
            paths = decide.bool_paths(P, F, c)
            dom = decide.table_atoms(paths)
            # `args.should_relax()` (layout time) and the field it returns, `args.relax` (write time), are the same predicate (ElfArgs::should_relax = self.relax)
            relax_atom = "should_relax" if any("should_relax" in a for a in dom) else ".relax"
            ok, why = decide.check_formula(paths, {"relax": relax_atom, "mand": "is_mandatory"}, lambda v: bool(v["relax"] or v["mand"]))
            rep.ob("relax-filter", parent.split("::")[-1], ok, why if ok else why + ": with --no-relax a mandatory rewrite is dropped, or an optional one is applied", c.file, c.line)
    rep.floor("relax-filter", "relaxation filters (layout time, write time)", n, 2)


def _tlsdesc_pairing(ctx, rep):
    """A TLSDESC access is a pair: `lea x@tlsdesc(%rip),%rax` (R_X86_64_GOTPC32_TLSDESC) and `call *x@tlscall(%rax)` (R_X86_64_TLSDESC_CALL). When the lea is
    rewritten (to local-exec for non-interposable symbols, otherwise to an initial-exec GOT load) the call must be skipped, and vice versa: the call's arm
    must fire under exactly the conditions under which *some* lea rewrite fires - i.e. those of the weakest one, TlsDescToInitialExec."""
    import decide
    F, P = ctx.facts(), ctx.program()
    rep.rule("tlsdesc-pairing", "in ElfX86_64::new_relaxation the facts guarding RelaxationKind::SkipTlsDescCall equal those guarding TlsDescToInitialExec (the lea rewrite that "
             "applies whenever any does): the call is dropped exactly when the lea was rewritten")
    bs = [b for b in F.all_bodies if b.key.endswith("new_relaxation") and "x86_64" in b.key and b.d["kind"] != "Closure"]
    if not bs:
        rep.lost("tlsdesc-pairing", "ElfX86_64::new_relaxation")
        return
    b = bs[0]
    guards = {}
    for bi, blk in enumerate(b.blocks):
        if blk.get("cleanup"):
            continue
        for st in blk["s"]:
            if st["k"] == "assign" and st["rv"]["k"] == "agg" and str(st["rv"].get("adt") or "").endswith("RelaxationKind") and \
                    st["rv"].get("variant") in ("SkipTlsDescCall", "TlsDescToInitialExec", "TlsDescToLocalExec"):
                at = frozenset((str(a[0]), a[1]) for a in decide.atoms_at(P, F, b, bi) if str(a[0]).startswith("call:"))
                guards.setdefault(st["rv"]["variant"], []).append((at, st.get("l")))
    if not guards.get("SkipTlsDescCall") or not guards.get("TlsDescToInitialExec"):
        rep.lost("tlsdesc-pairing", f"constructions of SkipTlsDescCall / TlsDescToInitialExec (found {sorted(guards)})")
        return
    skip, ie = guards["SkipTlsDescCall"][0], guards["TlsDescToInitialExec"][0]
    extra = sorted(skip[0] - ie[0])
    missing = sorted(ie[0] - skip[0])
    rep.ob("tlsdesc-pairing", "call-iff-lea", not extra and not missing,
           f"both arms are guarded by {sorted(skip[0])}" if not extra and not missing else
           f"the call arm additionally requires {extra} and lacks {missing}: for inputs on which the two differ the lea is rewritten to a GOT/TP-offset load while the "
           "`call *(%rax)` stays (or the reverse) - the sequence then calls through a TP offset", b.file, skip[1])
