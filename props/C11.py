"""C11 — AArch64 long branches reach their intended target (structural clauses).

Decided statically:
 * which relocation types are routed through thunks (exactly CALL26/JUMP26), that their accepted
   range is +-128 MiB = ThunkConfig.min_branch_range, and that the planning range is that minus a
   positive safety margin smaller than the range;
 * the thunk template decodes to ADRP x16 / ADD x16,x16,#imm / BR x16 and write_thunk fills it with
   page(target)-page(thunk) and target&0xfff through the Adr/Add encoders (whose bit placement C13
   decides);
 * in apply_relocation the thunk decision sees the final (place, value) and its result replaces the
   value before the only write; inside, for a thunkable out-of-range value the only outcomes are
   Some(thunk-relative value) or an error - never a silent write of the out-of-range value;
 * the thunk-relative value is (thunk + bias) & mask - (place & mask), the same formula as the
   direct branch with the thunk in place of S+A;
 * addend-awareness: a thunk stands in for "symbol + addend", so the addend has to reach the thunk key,
   the thunk's target or a guard. It does not (known finding, demonstrated)."""
import fold
import hirq
from mir import (callee_key, declared_key, expr_tree, op_const, render, simplify, stable, switch_bool_labels, switch_source_call,
                 tree_leaves, switch_chain)

EXPLANATION = ("constant folding of the relocation table and thunk constants; instruction decoding of the thunk template; HIR operator "
               "skeletons of write_thunk and of the thunk-relative value; restricted-CFG reachability in "
               "maybe_get_thunk_for_relocation (thunkable, out-of-range edges); value-flow of the relocation addend into the thunk path")
EW = "libwild::elf_writer::"
A64 = "<libwild::elf_aarch64::ElfAArch64 as libwild::platform::Arch>::"


def run(ctx, rep):
    F = ctx.facts(); P = ctx.program()
    consts = F.consts()
    rep.rule("thunkable-set", "thunkable relocation types are exactly the range-limited branches CALL26/JUMP26, range +-2^27, equal to min_branch_range")
    rep.rule("planning-range", "the planning range is min_branch_range minus a positive margin smaller than the range")
    rep.rule("template", "thunk = ADRP x16 / ADD x16,x16,#lo12 / BR x16, filled with page delta and low 12 bits")
    rep.rule("decision", "apply_relocation consults the thunk decision with the final value before the only write; out-of-range thunkable values become Some(thunk value) or an error")
    rep.rule("thunk-value", "thunk-relative value = ((thunk + bias) & mask.symbol_plus_addend) - (place & mask.place)")
    rep.rule("addend", "the relocation addend reaches the thunk key, the thunk target or a guard (a thunk stands for symbol+addend)")
    rep.rule("thunk-target", "write_thunks targets the symbol's resolved address (PLT stub for ifuncs)")

    # ---- thunkable set
    h = F.hir_body("linker_utils::aarch64::relocation_type_from_raw")
    if h is None:
        rep.lost("thunkable-set", "relocation_type_from_raw")
    else:
        names = None
        for x in fold.walk(h["body"]):
            if x.get("e") == "struct":
                for n, v in x["fields"]:
                    if n == "thunkable":
                        v = hirq.strip(v)
                        if v.get("e") == "match":
                            names = set()
                            for arm in v["arms"]:
                                b = hirq.strip(arm["body"])
                                if b.get("e") == "lit" and b["v"] is True:
                                    pats = arm["pat"]["alts"] if arm["pat"]["p"] == "or" else [arm["pat"]]
                                    for p_ in pats:
                                        if p_["p"] == "expr":
                                            names.add((p_["v"].get("def") or "?").split("::")[-1])
                        elif v.get("e") == "lit":
                            names = set() if v["v"] is False else {"*"}
        rep.ob("thunkable-set", "aarch64", names == {"R_AARCH64_CALL26", "R_AARCH64_JUMP26"}, f"thunkable = {sorted(names) if names is not None else None}", h["file"], h["line"])
        import tables
        FD = fold.Folder(F)
        t = tables.table(FD, "linker_utils::aarch64::relocation_type_from_raw") or []
        mbr = next((v for k, v in consts.items() if k.endswith("elf_aarch64::MIN_BRANCH_RANGE")), None)
        for r in t:
            if r["name"] in ("R_AARCH64_CALL26", "R_AARCH64_JUMP26"):
                rng = r.get("range")
                rep.ob("thunkable-set", f"range:{r['name']}", rng == [-(1 << 27), 1 << 27] and mbr == 1 << 27,
                       f"range {rng}, MIN_BRANCH_RANGE {mbr}", h["file"], r["line"])
        # every other range-limited branch type with a narrower range must not exist unthunked? (CONDBR19/TSTBR14 have no thunks in any linker)
        # other architectures: no thunk_config -> thunkable must be constant false
        for arch, fn in (("x86_64", "linker_utils::x86_64::relocation_from_raw"), ("riscv64", "linker_utils::riscv64::relocation_type_from_raw"), ("loongarch64", "linker_utils::loongarch64::relocation_type_from_raw")):
            hb = F.hir_body(fn)
            if hb is None:
                continue
            vals = []
            for x in fold.walk(hb["body"]):
                if x.get("e") == "struct":
                    for n, v in x["fields"]:
                        if n == "thunkable":
                            v = hirq.strip(v)
                            vals.append(v.get("v") if v.get("e") == "lit" else "expr")
            rep.ob("thunkable-set", f"{arch}:none", bool(vals) and all(v is False for v in vals), f"{arch}: thunkable = {vals} (no thunk_config for this architecture)", hb["file"], hb["line"])
    # thunk_config
    tc = F.hir_body(A64 + "thunk_config")
    if tc is None:
        rep.lost("planning-range", "ElfAArch64::thunk_config")
    else:
        sk = hirq.skeleton(tc["body"], lambda n: None)
        rep.ob("planning-range", "config", "min_branch_range: MIN_BRANCH_RANGE" in sk and "thunk_size: (THUNK_TEMPLATE.len() as u64)" in sk, sk[:260], tc["file"], tc["line"])
    nb = F.hir_body("libwild::thunks::ThunkLayoutBuilder::new")
    margin = next((v for k, v in consts.items() if k.endswith("thunks::MAXIMUM_THUNK_BYTES_PER_BLOCK")), None)
    mbr = next((v for k, v in consts.items() if k.endswith("elf_aarch64::MIN_BRANCH_RANGE")), None)
    if nb is None:
        rep.lost("planning-range", "ThunkLayoutBuilder::new")
    else:
        sk = hirq.inlined(nb["body"], hirq.let_map(nb["body"]))
        rep.ob("planning-range", "formula", "branch_range: (Arch::thunk_config().min_branch_range - MAXIMUM_THUNK_BYTES_PER_BLOCK)" in sk or "branch_range: (config.min_branch_range - MAXIMUM_THUNK_BYTES_PER_BLOCK)" in sk,
               "branch_range = config.min_branch_range - MAXIMUM_THUNK_BYTES_PER_BLOCK", nb["file"], nb["line"])
        rep.ob("planning-range", "margin", margin is not None and mbr is not None and 0 < margin < mbr, f"margin {margin} < range {mbr}", nb["file"], nb["line"])
        rep.ob("planning-range", "disabled-only-if-small", "if (" in sk and "< Arch::thunk_config().min_branch_range) {return None}" in sk.replace("config.min_branch_range", "Arch::thunk_config().min_branch_range"),
               "thunks are disabled only when the total executable input size is below the branch range", nb["file"], nb["line"])

    # ---- template
    tmpl = None
    tb = F.hir_body("libwild::elf_aarch64::THUNK_TEMPLATE")
    if tb is not None:
        try:
            tmpl = _bytes_of(fold.Folder(F).const("libwild::elf_aarch64::THUNK_TEMPLATE"))
        except Exception as e:  # noqa
            tmpl = None
    if tmpl is None:
        rep.lost("template", "THUNK_TEMPLATE")
    else:
        words = [int.from_bytes(bytes(tmpl[i:i + 4]), "little") for i in range(0, len(tmpl), 4)]
        ok = len(words) == 3
        dec = []
        if ok:
            w0, w1, w2 = words
            adrp = (w0 >> 31) == 1 and ((w0 >> 24) & 0x1f) == 0x10
            rd0 = w0 & 0x1f
            imm0 = ((w0 >> 29) & 3) | (((w0 >> 5) & 0x7ffff) << 2)
            add = (w1 >> 22) == 0b1001000100  # sf=1, op=0, S=0, 100010, sh=0
            rd1, rn1, imm1 = w1 & 0x1f, (w1 >> 5) & 0x1f, (w1 >> 10) & 0xfff
            br = (w2 & 0xfffffc1f) == 0xd61f0000
            rn2 = (w2 >> 5) & 0x1f
            dec = [f"{'ADRP' if adrp else '?'} x{rd0},#{imm0}", f"{'ADD' if add else '?'} x{rd1},x{rn1},#{imm1}", f"{'BR' if br else '?'} x{rn2}"]
            ok = adrp and add and br and rd0 == rd1 == rn1 == rn2 and rd0 in (16, 17) and imm0 == 0 and imm1 == 0
        rep.ob("template", "decode", ok, f"{[hex(w) for w in words]} = {dec} (IP0/IP1 may be clobbered by veneers per AAPCS64)", tb["file"], tb["line"])
    wt = F.hir_body(A64 + "write_thunk")
    if wt is None:
        rep.lost("template", "write_thunk")
    else:
        sk = hirq.inlined(wt["body"], hirq.let_map(wt["body"]), depth=8)
        pm = next((v for k, v in consts.items() if k.endswith("elf::PAGE_MASK_4KB")), None)
        sz = next((v for k, v in consts.items() if k.endswith("elf::SIZE_4KB")), None)
        rep.ob("template", "copy", "buf.copy_from_slice(THUNK_TEMPLATE)" in sk, "the template is copied first", wt["file"], wt["line"])
        rep.ob("template", "page-delta",
               "Adr.write_to_value((((((target_address & (!PAGE_MASK_4KB)) as i64).wrapping_sub(((thunk_address & (!PAGE_MASK_4KB)) as i64)) / (SIZE_4KB as i64)) as u64) & lit:2097151), lit:False, buf[struct{start: lit:0, end: lit:4}])" in sk,
               "word 0 <- ((page(target) - page(thunk)) / 4096) & 0x1fffff via the ADR/ADRP encoder", wt["file"], wt["line"])
        rep.ob("template", "lo12", "Add.write_to_value((target_address & PAGE_MASK_4KB), lit:False, buf[struct{start: lit:4, end: lit:8}])" in sk,
               "word 1 <- target & 0xfff via the ADD encoder", wt["file"], wt["line"])
        rep.ob("template", "constants", pm == 0xfff and sz == 0x1000, f"PAGE_MASK_4KB={pm}, SIZE_4KB={sz}", wt["file"], wt["line"])

    # ---- decision in apply_relocation
    mg = F.body(EW + "maybe_get_thunk_for_relocation")
    ar = [b for b in F.all_bodies if stable(b.key) == EW + "apply_relocation" and b.d["kind"] != "Closure"]
    if mg is None or not ar:
        rep.lost("decision", "maybe_get_thunk_for_relocation/apply_relocation")
        return
    ar = ar[0]
    flow, cfg = P.flow(ar), P.cfg(ar)
    mgc = [(bi, t) for bi, t in flow.calls() if (callee_key(t["f"]) or "").endswith("maybe_get_thunk_for_relocation")]
    wtb = [(bi, t) for bi, t in flow.calls() if (callee_key(t["f"]) or "").endswith("RelocationKindInfo::write_to_buffer")]
    rep.ob("decision", "sites", len(mgc) == 1 and len(wtb) == 1 and len(P.callers_of(lambda k: k.endswith("maybe_get_thunk_for_relocation"))) == 1,
           f"{len(mgc)} thunk decision(s), {len(wtb)} write(s) in apply_relocation", ar.file, ar.line)
    if len(mgc) == 1 and len(wtb) == 1:
        dom = cfg.dom()
        rep.ob("decision", "before-write", mgc[0][0] in dom[wtb[0][0]], "the thunk decision dominates the write", ar.file, mgc[0][1]["l"])
        names = [mg.local_name(i) for i in range(1, mg.d["argc"] + 1)]
        args = {n: render(simplify(expr_tree(P, ar, a, depth=3, expand_params=0))) for n, a in zip(names, mgc[0][1]["args"])}
        rep.ob("decision", "sees-final-value", args.get("value", "").startswith(("phi:value", "value")) and args.get("place", "").startswith(("place", "phi:place", "Add(")),
               f"passes value={args.get('value')}, place={args.get('place')}", ar.file, mgc[0][1]["l"])
        # the written value is the same local `value`, which is reassigned on the Some edge
        vloc = next((i for i in range(len(ar.locals)) if ar.local_name(i) == "value"), None)
        wv = render(simplify(expr_tree(P, ar, wtb[0][1]["args"][1], depth=3, expand_params=0)))
        re_assigned = False
        if vloc is not None:
            for bi, si, _p, payload in flow.defs.get(vloc, []):
                if si != "call" and payload.get("k") == "use":
                    tr = render(simplify(expr_tree(P, ar, payload["a"], depth=6, expand_params=0)))
                    if "maybe_get_thunk_for_relocation(" in tr and "@Some" in tr:
                        re_assigned = True
        rep.ob("decision", "result-used", re_assigned and wv.startswith(("phi:value", "value")), f"`value` is overwritten with the Some payload and then written ({wv})", ar.file, wtb[0][1]["l"])
    # inside the decision
    flow, cfg = P.flow(mg), P.cfg(mg)
    avoid = set()
    found = {"thunkable": False, "contains": False}
    for sb in cfg.reach:
        t = mg.blocks[sb]["t"]
        if t["k"] != "switch":
            continue
        tr = render(simplify(expr_tree(P, mg, t["d"], depth=6, expand_params=0)))
        labs = switch_bool_labels(mg, flow, cfg, sb)
        if "rel_info.thunkable" in tr:
            found["thunkable"] = True
            for lab, v in labs.items():
                # the switch is on !thunkable or thunkable depending on lowering; switch_bool_labels already undoes negation
                if v is False:
                    avoid.add((sb, lab))
        src = switch_source_call(mg, flow, sb)
        if src and src[0].endswith("AllowedRange::contains"):
            a0 = render(simplify(expr_tree(P, mg, src[2]["args"][0], depth=4, expand_params=0)))
            a1 = render(simplify(expr_tree(P, mg, src[2]["args"][1], depth=4, expand_params=0)))
            found["contains"] = ("rel_info.range" in a0 and a1 == "value")
            for lab, v in labs.items():
                if v is True:
                    avoid.add((sb, lab))
        if tr.startswith("discr(thunk_config("):
            for lab, v in ((l, None) for l, _ in cfg.succ[sb]):
                pass
    rep.ob("decision", "tests", found["thunkable"] and found["contains"], f"decision tests rel_info.thunkable and rel_info.range.contains(value): {found}", mg.file, mg.line)
    reach = cfg.reachable_avoiding_edges(0, avoid)
    oks = []
    for bi in reach:
        blk = mg.blocks[bi]
        if blk.get("cleanup"):
            continue
        for s in blk["s"]:
            if s["k"] == "assign" and s["p"] == [0, []] and s["rv"]["k"] == "agg" and s["rv"].get("variant") == "Ok":
                oks.append((bi, render(simplify(expr_tree(P, mg, s["rv"]["ops"][0], depth=5, expand_params=0))), s["l"]))
    # with config None the function returns Ok(None): that edge is the `thunk_config()` None edge
    none_oks = [o for o in oks if "None" in o[1] and "Some" not in o[1]]
    some_oks = [o for o in oks if "Some" in o[1]]
    cfg_none = []
    for o in none_oks:
        facts = cfg.edge_facts().get(o[0], ())
        ok_ = False
        for fct in facts:
            if fct[0] == "any":
                continue
            tr = render(simplify(expr_tree(P, mg, mg.blocks[fct[0]]["t"]["d"], depth=5, expand_params=0)))
            if "thunk_config(" in tr:
                # Option discriminant: 0 = None; an `else` edge of a switch that lists only Some(1) is also None
                t_ = mg.blocks[fct[0]]["t"]
                listed = {v for v, _ in t_["arms"]}
                if fct[1] == 0 or (fct[1] == "else" and listed == {1}):
                    ok_ = True
        cfg_none.append(ok_)
    rep.ob("decision", "no-silent-pass", len(some_oks) >= 1 and all(cfg_none),
           f"for a thunkable, out-of-range value the Ok returns are {[o[1][:40] for o in oks]}: Some(..) or (architecture without thunks) None; every other exit is an error", mg.file, mg.line)
    # thunk value formula
    hb = F.hir_body(EW + "maybe_get_thunk_for_relocation")
    sk = hirq.inlined(hb["body"], hirq.let_map(hb["body"]), depth=6, keep=("thunk_address",)) if hb else ""
    rep.ob("thunk-value", "formula", "thunk_address.wrapping_add(rel_info.bias).bitand(get_page_mask(rel_info.mask).symbol_plus_addend).wrapping_sub(place.bitand(get_page_mask(rel_info.mask).place))" in sk,
           "new_value = (thunk + bias) & mask.S+A  -  place & mask.P", mg.file, mg.line)
    rep.ob("thunk-value", "zero-is-error", "if (thunk_address == lit:0) {return Err(" in sk, "an unassigned (0) thunk address is an error", mg.file, mg.line)
    blk_sel = "if (section_info.part_id == Arch::thunk_config()" in sk.replace("config.primary_function_part_id", "Arch::thunk_config().primary_function_part_id") or "if (section_info.part_id == config.primary_function_part_id) object_layout.thunk_block_id else FIRST" in sk
    rep.ob("thunk-value", "block-selection", "object_layout.thunk_block_id else FIRST" in sk.replace("{", "").replace("}", ""), "block = the object's block for primary-part code, FIRST for everything else", mg.file, mg.line)

    # ---- addend awareness
    names = [mg.local_name(i) for i in range(1, mg.d["argc"] + 1)]
    aware = any(n and "addend" in n for n in names)
    if not aware and some_oks:
        # does the Some payload or the lookup key depend on `value` (which includes the addend)?
        for o in some_oks:
            tr = simplify(expr_tree(P, mg, _ok_operand(mg, o[0]), depth=14, expand_params=0))
            leaves = tree_leaves(tr)
            if any(l[0] == "param" and l[1].split(".")[0] in ("value", "addend") for l in leaves):
                aware = True
    if not aware:
        # guard on an addend-derived condition?
        for sb in cfg.reach:
            t = mg.blocks[sb]["t"]
            if t["k"] == "switch":
                tr = render(simplify(expr_tree(P, mg, t["d"], depth=6, expand_params=0)))
                if "addend" in tr:
                    aware = True
    wth = F.hir_body(EW + "write_thunks")
    tgt = ""
    if wth is not None:
        lets = hirq.let_map(wth["body"])
        for k_, v_ in lets.items():
            s_ = hirq.inlined(v_, lets, depth=3)
            if "raw_value" in s_ and "plt_address" in s_:
                tgt = s_
        rep.ob("thunk-target", "address", "if " in tgt and ".flags.is_ifunc()" in tgt and "plt_address()" in tgt and tgt.rstrip("}").endswith("raw_value"),
               f"target = {tgt[:200]}", wth["file"], wth["line"])
        if "addend" in tgt:
            aware = True
    rep.ob("addend", "maybe_get_thunk_for_relocation", aware,
           "the thunk path is addend-aware" if aware else
           "neither the thunk key (definition(local_symbol_id)), nor the thunk-relative value, nor the thunk's target (res.raw_value) depends on the relocation addend, and no guard tests it: `b sym+N` through a thunk lands on `sym`",
           mg.file, mg.line)
    # ---- conservative range proof --------------------------------------------------------------------------------------
    # Thunks are allocated for a (caller object, symbol) pair unless the branch is *provably* in range. The proof must hold for every
    # branch site inside the caller object, so it has to be made from the object's far end: comparing the object's start against the
    # branch range declares an object that straddles the limit "in range", no thunk is allocated and the link of a valid program fails.
    conservative_range(ctx, rep, F, P)
    block_reach(ctx, rep, F, P)
    block_selection_agreement(ctx, rep, F, P)
    rep.assume("thunk placement (block positions vs. object sizes) is a runtime quantity and is not decided; the Adr/Add field encoders are decided by C13")


def _ok_operand(body, bi):
    for s in body.blocks[bi]["s"]:
        if s["k"] == "assign" and s["p"] == [0, []] and s["rv"]["k"] == "agg":
            return s["rv"]["ops"][0]
    return None


def _bytes_of(v):
    if isinstance(v, (bytes, bytearray)):
        return list(v)
    if isinstance(v, (list, tuple)):
        out = []
        for x in v:
            if isinstance(x, int):
                out.append(x)
            else:
                r = _bytes_of(x)
                if r is None:
                    return None
                out += r
        return out
    if hasattr(v, "items"):
        return _bytes_of(getattr(v, "items"))
    if hasattr(v, "args"):
        return _bytes_of(v.args)
    return None


def conservative_range(ctx, rep, F, P):
    from mir import callee_key, declared_key, expr_tree, op_place, render, simplify, stable
    rep.rule("conservative-range", "every `< branch_range` proof in ThunkLayoutBuilder::process_primary_part_refs is made from the end of the caller's span (the argument that "
             "receives the `.1` of the primary range), never from its start alone")
    parent = "libwild::thunks::ThunkLayoutBuilder::process_primary_part_refs"
    cls = F.closures_of(parent)
    if not cls:
        rep.lost("conservative-range", parent)
        return
    # which closure is the proof, and which of its parameters receives the span's end: read it from the call site
    proof = end_param = start_param = None
    for c in cls:
        flow = P.flow(c)
        for bi, t in flow.calls():
            if (declared_key(t["f"]) or "") not in ("std::ops::Fn::call", "std::ops::FnMut::call_mut", "std::ops::FnOnce::call_once"):
                continue
            tgt = next((x for x in cls if x.key == (callee_key(t["f"]) or "")), None)
            if tgt is None or tgt.locals[0].strip() != "bool" or len(t["args"]) < 2:
                continue
            tup = op_place(t["args"][1])
            for d in flow.defs.get(tup[0], []) if tup else []:
                if d[1] != "call" and d[3]["k"] == "agg":
                    for i_, o in enumerate(d[3]["ops"]):
                        r = render(simplify(expr_tree(P, c, o, depth=5, expand_params=0)))
                        if r.endswith(".1"):
                            proof, end_param = tgt, 2 + i_
                        elif r.endswith(".0") and "@Some" in r:
                            start_param = 2 + i_
    if proof is None or end_param is None:
        rep.lost("conservative-range", "the call of the range-proof closure with (start, end, symbol) taken from the primary range tuple")
        return
    end_name = proof.local_name(end_param) or f"_{end_param}"
    start_name = (proof.local_name(start_param) or f"_{start_param}") if start_param else None
    flow = P.flow(proof)
    n = 0
    for bi, blk in enumerate(proof.blocks):
        for st in blk["s"]:
            if st["k"] == "assign" and st["rv"]["k"] == "bin" and st["rv"]["op"] in ("Lt", "Le"):
                rhs = render(simplify(expr_tree(P, proof, st["rv"]["b"], depth=5, expand_params=0)))
                if "branch_range" not in rhs:
                    continue
                n += 1
                lhs = render(simplify(expr_tree(P, proof, st["rv"]["a"], depth=8, expand_params=0)))
                ok = end_name in lhs
                rep.ob("conservative-range", f"proof#{n}", ok, f"in-range proof `{lhs[:120]} < {rhs}`" + ("" if ok else f" does not involve the end of the caller's span (`{end_name}`): an object that begins "
                       "inside the range but extends beyond it is declared in range and gets no thunk"), proof.file, st["l"])
    rep.floor("conservative-range", "`< branch_range` proofs", n, 2)


def block_reach(ctx, rep, F, P):
    """assign_thunk_blocks walks objects (file, start, end) in address order and keeps an object with the previously placed thunk block only while the object is
    within reach of it. "Within reach" must be judged from the object's *end* (component .2 of the item): its last instruction is the farthest from the block."""
    import re
    import decide
    rep.rule("block-reach", "every distance compared with max_branch_range in assign_thunk_blocks is measured from the *end* (third component) of the object being placed")
    b = next((x for x in F.all_bodies if x.key == "libwild::thunks::assign_thunk_blocks"), None)
    if b is None:
        rep.lost("block-reach", "thunks::assign_thunk_blocks")
        return
    rng = next((i for i in range(1, b.d["argc"] + 1) if b.locals[i].strip() == "u64"), None)
    rng_name = b.local_name(rng) if rng else None
    full = decide.all_edge_atoms_full(P, F, b)
    seen = {}
    for (sb, lab), (atom, _truth) in full.items():
        m = re.match(r"bin:(Ge|Gt|Lt|Le)\(Sub\((.*?), (.*)\), (\w+)\)$", str(atom))
        if not m or m.group(4) != rng_name:
            continue
        seen[sb] = (m.group(2), m.group(3), b.blocks[sb]["t"].get("l"))
    rep.floor("block-reach", "distance-vs-range comparisons", len(seen), 2)
    for n, (sb, (minuend, subtrahend, line)) in enumerate(sorted(seen.items())):
        comp = re.search(r"@Some\.0\.(\d)$", minuend)
        ok = bool(comp) and comp.group(1) == "2" and "next(" in minuend
        rep.ob("block-reach", f"comparison#{n}", ok,
               f"distance = <item>.2 (end) - {subtrahend}" if ok else
               f"distance = {minuend} - {subtrahend}: measured from {'the start' if comp and comp.group(1) == '1' else 'something other than the end'} of the object - an object that starts within reach of the "
               "block but ends beyond it keeps using that block, and the branches in its tail cannot reach their thunks (the link fails with an out-of-range error)", b.file, line)


def block_selection_agreement(ctx, rep, F, P):
    """Which thunk block serves a branch is decided twice: when thunks are *allocated* (thunks::handle_thunk_extensions_for_relocation: the referring section's
    part == the primary function part -> the object's own block, anything else -> FIRST) and when the branch is *written* (maybe_get_thunk_for_relocation).
    The two must use the same test on the same kind of value (PartId against config.primary_function_part_id), otherwise the writer looks for the thunk in a
    block where none was allocated ("no thunk allocated") or picks one that is out of reach."""
    import re
    import decide
    rep.rule("block-selection-agreement", "allocation time and write time choose the thunk block with the same test: PartId == thunk_config().primary_function_part_id, compared "
             "directly (no mapping of the part ids to sections or anything coarser on either side)")
    tests = {}
    for key in ("libwild::thunks::handle_thunk_extensions_for_relocation", "libwild::elf_writer::maybe_get_thunk_for_relocation"):
        b = F.body(key)
        if b is None:
            rep.lost("block-selection-agreement", key)
            return
        full = decide.all_edge_atoms_full(P, F, b)
        atoms = sorted({str(a) for a, _t in full.values() if "primary_function_part_id" in str(a)})
        tests[key] = (b, atoms)
    for key, (b, atoms) in tests.items():
        name = key.split("::")[-1]
        def top_args(a):
            inner = a[a.index("(") + 1:-1]
            out, depth, cur = [], 0, ""
            for ch in inner:
                if ch == "(":
                    depth += 1
                elif ch == ")":
                    depth -= 1
                if ch == "," and depth == 0:
                    out.append(cur.strip())
                    cur = ""
                else:
                    cur += ch
            out.append(cur.strip())
            return out

        def is_direct(a):
            if not re.match(r"call:PartialEq::(eq|ne)\(", a):
                return False
            ops = top_args(a)
            if len(ops) != 2:
                return False
            lhs, rhs = ops
            rhs_ok = rhs.endswith(".primary_function_part_id") and rhs.replace("thunk_config()", "").count("(") == 0
            lhs_ok = lhs.count("(") == 0 or lhs.startswith("part_id_for_symbol(")
            return rhs_ok and lhs_ok
        direct = [a for a in atoms if is_direct(a)]
        wrapped = [a for a in atoms if a not in direct]
        rep.ob("block-selection-agreement", name, bool(direct) and not wrapped,
               f"{name} tests {direct}" if direct and not wrapped else
               f"{name} compares something derived from the part ids ({wrapped}) instead of the part ids themselves: sections that share an output section but not the "
               "primary part (e.g. `.text` input sections with a different alignment) are classified differently from the other side", b.file, b.line)
