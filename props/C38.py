"""C38 — every function and object has one address across modules (PARTIAL).

The property itself is settled by the dynamic loader at run time. What is decided statically here are
structural clauses of the *linker's* side of the contract, each a necessary condition:

copy relocations (data): when the executable refers directly to a data object of a shared library the
object is copied into the executable's .bss. All modules then see one object only if
  (a) every symbol of the library that names the same address (aliases: environ/__environ/_environ) is
      exported from the executable and flagged as copied (select_copy_relocation_alternatives),
  (b) all of them resolve to the *same* .bss address, keyed by the library-side address
      (finalise_layout_dynamic / assign_copy_relocation_addresses),
  (c) the exported dynsym entry is a definition in .bss at that address, and the R_*_COPY entry targets the
      same address with the symbol's own dynsym index,
  (d) the space reserved for a copy and the space consumed when addresses are assigned are the same
      expression (copies cannot overlap),
  (e) a direct reference to a library object from a read-only section always ends in a copy relocation, a
      PLT (functions) or an error - never in a silently unresolved address.

canonical PLT (functions): a non-PIC executable that takes a library function's address directly uses its
own PLT entry as that address; shared libraries agree only if the import's dynsym entry carries the PLT
address (st_value != 0, st_shndx == UND). wild writes 0 for every import: genuine defect, known finding."""
from mir import callee_key, op_const, op_place, place_chain, expr_tree, render, simplify, stable
import decide

EXPLANATION = ("guarded-effect and value-flow rules over MIR: must-pass-through inside the alias loop, argument provenance of the dynsym / "
               "relocation writers, allocator-vs-assigner expression agreement, decision atoms of the direct-reference branch")

E = "libwild::elf::"
W = "libwild::elf_writer::"


def _const_def(op):
    return ((op_const(op) or {}).get("def") or "")


def _tree(P, b, op, depth=7):
    return render(simplify(expr_tree(P, b, op, depth=depth, expand_params=0)))


def run(ctx, rep):
    F = ctx.facts()
    P = ctx.program()
    rep.rule("alias-export", "in select_copy_relocation_alternatives every canonical symbol whose library address carries a copy relocation passes through "
             "export_dynamic and fetch_or(COPY_RELOCATION) before the loop continues; the lookup key is the symbol's address")
    rep.rule("alias-address", "finalise_layout_dynamic gives a copy-relocated symbol the .bss address looked up by its library-side address (symbol.value()), so "
             "aliases share one address; assign_copy_relocation_addresses builds that map as (symbol.value(), assigned address)")
    rep.rule("copy-dynsym", "the dynsym entry of a copy-relocated symbol is a definition in .bss at the resolution's address; the COPY relocation targets the same "
             "address with the symbol's dynamic index and addend 0")
    rep.rule("copy-space", "allocate_for_copy_relocations reserves, and assign_copy_relocation_address consumes, the same part (BSS with the section's alignment) and the "
             "same amount (alignment.align_up(size))")
    rep.rule("direct-reference", "in process_relocation a direct reference to an interposable symbol ends in a dynamic relocation (writable section), a PLT (function), a "
             "copy relocation or an error; only absolute (undefined weak) symbols fall through")
    rep.rule("canonical-plt", "an import whose PLT entry serves as the function's address in the executable must be written to .dynsym with that PLT address as st_value")

    # ---- (a) alias-export ---------------------------------------------------------------------------------------------------------
    b = F.body(E + "select_copy_relocation_alternatives")
    if b is None:
        rep.lost("alias-export", "elf::select_copy_relocation_alternatives")
    else:
        flow, cfg = P.flow(b), P.cfg(b)
        heads = [bi for bi, t in flow.calls() if (callee_key(t["f"]) or "").endswith("::next")]
        canon = [(bi, t) for bi, t in flow.calls() if (callee_key(t["f"]) or "").endswith("SymbolDb::is_canonical")]
        exp = [bi for bi, t in flow.calls() if callee_key(t["f"]) == "libwild::layout::export_dynamic"]
        flag = [bi for bi, t in flow.calls() if (callee_key(t["f"]) or "").endswith("AtomicValueFlags::fetch_or")
                and any(_const_def(a).endswith("ValueFlags::COPY_RELOCATION") for a in t["args"])]
        if len(heads) != 1 or len(canon) != 1:
            rep.lost("alias-export", f"loop head / is_canonical test ({len(heads)} next(), {len(canon)} is_canonical)")
        else:
            h = heads[0]
            ef = cfg.edge_facts()
            # the true edge of is_canonical
            true_targets = set()
            from mir import switch_source_call, switch_bool_labels
            for sb in cfg.reach:
                src = switch_source_call(b, flow, sb)
                if src and src[1] == canon[0][0]:
                    for lab, v in switch_bool_labels(b, flow, cfg, sb).items():
                        if v is True:
                            true_targets |= {t for l, t in cfg.succ[sb] if l == lab}
            rep.ob("alias-export", "canonical-edge", len(true_targets) == 1, f"is_canonical()==true edge found ({len(true_targets)})", b.file, canon[0][1]["l"])
            for name, blocks in (("export_dynamic", exp), ("flag:COPY_RELOCATION", flag)):
                ok = bool(blocks)
                for t0 in true_targets:
                    if t0 in blocks:
                        continue
                    r = cfg.reachable_avoiding_edges(t0, set(), avoid_blocks=set(blocks))
                    if h in r:
                        ok = False
                rep.ob("alias-export", name, ok,
                       f"every way round the loop from the canonical edge passes {name}" if ok else
                       f"the loop can continue for a canonical alias without {name}: an alias of a copied object (e.g. __environ for environ) would keep "
                       "pointing at the library's original while the executable uses the copy", b.file, b.line)
            gm = [(bi, t) for bi, t in flow.calls() if (callee_key(t["f"]) or "").endswith("HashMap::get_mut") or (callee_key(t["f"]) or "").endswith("HashMap::get")]
            key_ok = False
            for bi, t in gm:
                o = flow.deep_origins(t["args"][-1])
                if any(x[0] == "call" and (x[1] or "").endswith("::value") for x in o):
                    key_ok = True
            rep.ob("alias-export", "keyed-by-address", key_ok, "the copy-relocation table is looked up by symbol.value() (the address inside the library)", b.file, b.line)

    # ---- (b) alias-address -----------------------------------------------------------------------------------------------------------
    fl = F.body("<libwild::elf::Elf as libwild::platform::Platform>::finalise_layout_dynamic")
    if fl is None:
        rep.lost("alias-address", "Elf::finalise_layout_dynamic")
    else:
        flow, cfg = P.flow(fl), P.cfg(fl)
        cr = [(bi, t) for bi, t in flow.calls() if (callee_key(t["f"]) or "").endswith("Platform>::create_resolution")]
        rep.ob("alias-address", "one-create_resolution", len(cr) == 1, f"{len(cr)} create_resolution call(s)", fl.file, fl.line)
        gets = [(bi, t) for bi, t in flow.calls() if (callee_key(t["f"]) or "").endswith("HashMap::get")]
        good_get = []
        for bi, t in gets:
            m = flow.deep_origins(t["args"][0])
            k = flow.deep_origins(t["args"][-1])
            from_map = any(x[0] == "call" and (x[1] or "").endswith("assign_copy_relocation_addresses") for x in m)
            by_value = any(x[0] == "call" and (x[1] or "").endswith("::value") for x in k)
            if from_map and by_value:
                good_get.append(bi)
        rep.ob("alias-address", "lookup", len(good_get) == 1, f"{len(good_get)} lookup(s) of the assigned-address map by local_symbol.value()", fl.file, fl.line)
        if cr and good_get:
            at = decide.atoms_at(P, F, fl, good_get[0])
            on_edge = any(a[0].endswith("needs_copy_relocation") and a[1] is True for a in at if isinstance(a[0], str))
            rep.ob("alias-address", "on-copy-edge", on_edge, "the lookup happens on the needs_copy_relocation() edge", fl.file, fl.blocks[good_get[0]]["t"]["l"])
            # the address argument of create_resolution: one definition from the lookup, the other the constant 0 (plain imports)
            addr = cr[0][1]["args"][1]
            o = flow.deep_origins(addr)
            from_get = any(x[0] == "call" and x[2] == good_get[0] for x in o)
            consts = sorted({x[1] for x in o if x[0] == "const" and isinstance(x[1], int)})
            rep.ob("alias-address", "resolution-address", from_get, f"create_resolution's address comes from that lookup (other definitions: constants {consts})", fl.file, cr[0][1]["l"])
    ac = F.body(E + "assign_copy_relocation_addresses::{closure#0}")
    if ac is None:
        rep.lost("alias-address", "assign_copy_relocation_addresses::{closure#0}")
    else:
        flow = P.flow(ac)
        tuples = []
        for bi, blk in enumerate(ac.blocks):
            if blk.get("cleanup"):
                continue
            for s in blk["s"]:
                if s["k"] == "assign" and s["rv"]["k"] == "agg" and s["rv"]["ak"] == "tuple" and len(s["rv"]["ops"]) == 2:
                    tuples.append(s)
        ok = False
        for s in tuples:
            k = flow.deep_origins(s["rv"]["ops"][0])
            v = flow.deep_origins(s["rv"]["ops"][1])
            if any(x[0] == "call" and (x[1] or "").endswith("::value") for x in k) and any(x[0] == "call" and (x[1] or "").endswith("assign_copy_relocation_address") for x in v):
                ok = True
        rep.ob("alias-address", "map-entries", ok, "each map entry is (symbol.value(), assign_copy_relocation_address(..))", ac.file, ac.line)

    # ---- (c) copy-dynsym ---------------------------------------------------------------------------------------------------------------
    wd = F.body(W + "write_copy_relocation_dynamic_symbol_definition")
    if wd is None:
        rep.lost("copy-dynsym", "write_copy_relocation_dynamic_symbol_definition")
    else:
        flow = P.flow(wd)
        cs = [(bi, t) for bi, t in flow.calls() if (callee_key(t["f"]) or "").endswith("SymbolTableWriter::copy_symbol_shndx")]
        rep.ob("copy-dynsym", "definition:one-call", len(cs) == 1, f"{len(cs)} copy_symbol_shndx call(s)", wd.file, wd.line)
        for bi, t in cs:
            args = t["args"]
            sh = flow.deep_origins(args[3])
            in_bss = any(x[0] == "call" and (x[1] or "").endswith("output_index_of_section") for x in sh) and \
                any(x[0] == "const" and str(x[2] or "").find("BSS") >= 0 for x in sh) or \
                any(_const_def(a).endswith("output_section_id::BSS") for bj, tt in flow.calls() if (callee_key(tt["f"]) or "").endswith("output_index_of_section") for a in tt["args"])
            rep.ob("copy-dynsym", "definition:in-bss", bool(in_bss), "st_shndx is the output index of .bss", wd.file, t["l"])
            val = _tree(P, wd, args[4])
            rep.ob("copy-dynsym", "definition:value", "raw_value" in val and "local_symbol_resolution" in val,
                   f"st_value = {val}", wd.file, t["l"])
    wc = F.body(W + "write_copy_relocation_for_symbol")
    if wc is None:
        rep.lost("copy-dynsym", "write_copy_relocation_for_symbol")
    else:
        flow = P.flow(wc)
        cs = [(bi, t) for bi, t in flow.calls() if (callee_key(t["f"]) or "").endswith("TableWriter::write_rela_dyn_general")]
        rep.ob("copy-dynsym", "relocation:one-call", len(cs) == 1, f"{len(cs)} write_rela_dyn_general call(s)", wc.file, wc.line)
        for bi, t in cs:
            a = t["args"]
            place = _tree(P, wc, a[1])
            idx = flow.deep_origins(a[2])
            ty = flow.deep_origins(a[3])
            add = op_const(a[4]) or {}
            rep.ob("copy-dynsym", "relocation:place", "raw_value" in place and "local_symbol_resolution" in place, f"r_offset = {place}", wc.file, t["l"])
            rep.ob("copy-dynsym", "relocation:symbol", any(x[0] == "call" and (x[1] or "").endswith("dynamic_symbol_index") for x in idx),
                   "r_sym = the symbol's own dynamic index", wc.file, t["l"])
            kinds = set()
            for x in ty:
                if x[0] == "call" and (x[1] or "").endswith("get_dynamic_relocation_type"):
                    for y in flow.origins(wc.blocks[x[2]]["t"]["args"][0]):
                        if y[0] == "agg":
                            kinds.add(str(y[1]).split("::")[-1])
            rep.ob("copy-dynsym", "relocation:type", kinds == {"Copy"}, f"r_type = get_dynamic_relocation_type({sorted(kinds)})", wc.file, t["l"])
            rep.ob("copy-dynsym", "relocation:addend", add.get("val") == 0, "r_addend = 0", wc.file, t["l"])

    # ---- (d) copy-space ------------------------------------------------------------------------------------------------------------------
    al = F.body(E + "allocate_for_copy_relocations")
    asg = F.body(E + "assign_copy_relocation_address")
    if al is None or asg is None:
        rep.lost("copy-space", "allocate_for_copy_relocations / assign_copy_relocation_address")
    else:
        fa, fs = P.flow(al), P.flow(asg)
        reserve = None
        for bi, t in fa.calls():
            if (callee_key(t["f"]) or "").endswith("CommonGroupState::allocate"):
                part = _tree(P, al, t["args"][1])
                if "BSS" in part or "part_id_with_alignment" in part:
                    reserve = (part, _tree(P, al, t["args"][2]), t["l"])
        consume = None
        part_s = None
        for bi, t in fs.calls():
            if (callee_key(t["f"]) or "").endswith("OutputSectionPartMap::get_mut"):
                part_s = _tree(P, asg, t["args"][1])
        for bi, t in fs.calls():
            if (callee_key(t["f"]) or "").endswith("Alignment::align_up"):
                consume = _tree(P, asg, t["args"][1]) if len(t["args"]) > 1 else None
        ok_part = reserve is not None and part_s is not None and "part_id_with_alignment" in reserve[0] and "part_id_with_alignment" in part_s
        rep.ob("copy-space", "same-part", ok_part, f"reserved in {reserve[0] if reserve else None}; consumed from {part_s}", al.file, reserve[2] if reserve else al.line)
        ok_amt = reserve is not None and "align_up" in reserve[1] and consume is not None
        rep.ob("copy-space", "same-amount", ok_amt, f"reserved {reserve[1] if reserve else None}; consumed align_up({consume})", al.file, reserve[2] if reserve else al.line)
        # the caller passes symbol.size() and the section's alignment to both
        ac2 = F.body(E + "assign_copy_relocation_addresses::{closure#0}")
        if ac2 is not None:
            f2 = P.flow(ac2)
            for bi, t in f2.calls():
                if (callee_key(t["f"]) or "").endswith("assign_copy_relocation_address"):
                    sz = f2.deep_origins(t["args"][1])
                    rep.ob("copy-space", "size-arg", any(x[0] == "call" and (x[1] or "").endswith("::size") for x in sz), "the size consumed is symbol.size()", ac2.file, t["l"])
        szr = any((callee_key(t["f"]) or "").endswith("::size") for _bi, t in fa.calls())
        rep.ob("copy-space", "size-reserved", szr, "the size reserved is symbol.size()", al.file, al.line)

    # ---- (e) direct-reference ------------------------------------------------------------------------------------------------------------
    pr = F.body(E + "process_relocation")
    if pr is None:
        rep.lost("direct-reference", "elf::process_relocation")
    else:
        flow, cfg = P.flow(pr), P.cfg(pr)
        sets = []
        for bi, blk in enumerate(pr.blocks):
            if blk.get("cleanup") or bi not in cfg.reach:
                continue
            t = blk["t"]
            if t["k"] == "call" and any(_const_def(a).endswith("ValueFlags::COPY_RELOCATION") for a in t["args"]):
                sets.append((bi, t))
        rep.ob("direct-reference", "copy-flag-site", len(sets) >= 1, f"{len(sets)} site(s) add COPY_RELOCATION", pr.file, pr.line)
        for bi, t in sets[:1]:
            at = {a[0]: a[1] for a in decide.atoms_at(P, F, pr, bi) if isinstance(a[0], str)}
            need = {"needs_direct": True, "is_interposable": True, "is_writable": False, "is_function": False, "is_absolute": False}
            miss = [k for k, v in need.items() if not any(n.endswith(k) and at[n] is v for n in at)]
            rep.ob("direct-reference", "copy-guard", not miss,
                   "COPY_RELOCATION is requested exactly under needs_direct && interposable && !writable && !function && !absolute" if not miss else f"guard atoms missing: {miss}", pr.file, t["l"])

    # ---- canonical PLT ---------------------------------------------------------------------------------------------------------------------
    wf = F.body(W + "write_dynamic_file")
    if wf is None:
        rep.lost("canonical-plt", "elf_writer::write_dynamic_file")
    else:
        flow = P.flow(wf)
        defs = [(bi, t) for bi, t in flow.calls() if (callee_key(t["f"]) or "").endswith("SymbolTableWriter::define_symbol")]
        rep.floor("canonical-plt", "import entries written by write_dynamic_file", len(defs), 1)
        for n, (bi, t) in enumerate(defs):
            v = op_const(t["args"][3]) or {}
            always_zero = v.get("val") == 0
            rep.ob("canonical-plt", f"import-value#{n}", not always_zero,
                   "st_value of an import may carry the PLT address" if not always_zero else
                   "every import is written with st_value = 0: when a non-PIC executable takes the address of a library function (R_X86_64_32S/PC32 from .text, "
                   "turned into a PLT reference by process_relocation) the executable sees its PLT entry while every shared library sees the function itself",
                   wf.file, t["l"])
    rep.assume("which definition the dynamic loader binds each reference to at run time (search order, LD_PRELOAD, dlopen scopes) is not decided")
