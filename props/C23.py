"""C23 — size accounting never fails on valid input (a narrow structural clause).

The property as a whole — bytes reserved in finalise_sizes == bytes the writers consume, for every input — quantifies over
data-dependent counters and is NOT decided (see DESIGN.md). Decided is one necessary condition that is visible in the code
and whose violation was a genuine defect: for the three TLS GOT groups of a symbol (TPOFF slot, DTPMOD/DTPOFF pair, TLSDESC
pair) allocate_resolution reserves a `.rela.dyn` (general) entry whenever the output is a shared object (for the descriptor:
always); therefore every successful path of the group's writer that emits *no* dynamic relocation must lie on an edge where
the output is known not to be a shared object. Otherwise the link of a valid input fails with "Allocated too much space"."""
import decide
from mir import callee_key, stable

EXPLANATION = ("path tabulation (decision atoms + call events) of allocate_resolution and of the three TLS GOT group writers over MIR; "
               "variant tables of OutputKind::is_executable / is_shared_object; comparison of `reserved` and `emitted` per path")
GROUPS = {"needs_got_tls_offset": "process_got_tls_offset", "needs_got_tls_module": "process_got_tls_mod_and_offset", "needs_got_tls_descriptor": "process_got_tls_descriptor"}


def run(ctx, rep):
    F = ctx.facts(); P = ctx.program()
    rep.rule("output-kind-exclusive", "no OutputKind is both is_executable() and is_shared_object()")
    rep.rule("reserved-for-shared", "for each TLS GOT group, every path of allocate_resolution with the group's flag set and the output a shared object reserves at least one RELA_DYN_GENERAL entry")
    rep.rule("emitted-when-reserved", "every successful path of a TLS GOT group writer that emits no dynamic relocation carries the fact is_shared_object()==false or is_executable()==true")

    # ---- OutputKind predicates are exclusive ----------------------------------------------------------------------------
    sets = {}
    for nm in ("is_executable", "is_shared_object"):
        b = F.body("libwild::output_kind::OutputKind::" + nm)
        if b is None:
            rep.lost("output-kind-exclusive", "OutputKind::" + nm)
            continue
        try:
            paths = decide.bool_paths(P, F, b)
        except decide.NotLoopFree as e:
            rep.ob("output-kind-exclusive", nm, False, str(e), b.file, b.line)
            continue
        true_variants = set()
        resolved = True
        for assign, res in paths:
            vs = [v for a, v in assign.items() if a.startswith("variant:")]
            if res is True:
                if not vs:
                    resolved = False
                for v in vs[:1]:
                    true_variants |= set(v.split("|"))
            elif isinstance(res, tuple):
                resolved = False
        sets[nm] = (true_variants, resolved)
        rep.ob("output-kind-exclusive", f"{nm}:tabulated", resolved and bool(true_variants), f"{nm}() is true exactly for {sorted(true_variants)}", b.file, b.line)
    if len(sets) == 2:
        both = sets["is_executable"][0] & sets["is_shared_object"][0]
        rep.ob("output-kind-exclusive", "disjoint", not both, f"variants for which both hold: {sorted(both)}", "libwild/src/output_kind.rs", 0)

    # ---- allocator -----------------------------------------------------------------------------------------------------------
    al = next((b for b in F.all_bodies if stable(b.key).endswith("::allocate_resolution") and "elf::Elf" in b.key), None)
    if al is None:
        rep.lost("reserved-for-shared", "Elf::allocate_resolution")
    else:
        try:
            table = decide.lin_paths(P, F, al, event_call=lambda k: "inc" if k.endswith("::increment") else None)
        except decide.NotLoopFree as e:
            table = None
            rep.ob("reserved-for-shared", "tabulate", False, f"allocate_resolution is not loop-free any more ({e})", al.file, al.line)
        if table is not None:
            rep.floor("reserved-for-shared", "paths of allocate_resolution", len(table), 100)
            for flag, writer in GROUPS.items():
                n = bad = 0
                example = None
                for assign, _res, events in table:
                    def val(sub):
                        for a, v in assign.items():
                            if sub in a and isinstance(v, bool):
                                return v
                        return None
                    if val(flag + "(") is not True:
                        continue
                    # only this group's own increments: count paths where *only* this TLS flag is set, so that increments are attributable
                    others = [f for f in GROUPS if f != flag]
                    if any(val(o + "(") is True for o in others):
                        continue
                    shared = val("is_shared_object(")
                    executable = val("is_executable(")
                    if flag == "needs_got_tls_offset" and shared is not True:
                        continue
                    if flag == "needs_got_tls_module" and executable is not False:
                        continue
                    n += 1
                    relas = sum(1 for tag, args in events if any(a and a[0] == "const" and str(a[1]).endswith("part_id::RELA_DYN_GENERAL") for a in args))
                    if relas < 1:
                        bad += 1
                        example = {a.split("(")[0]: v for a, v in assign.items() if isinstance(v, bool)}
                rep.ob("reserved-for-shared", flag, n >= 1 and bad == 0,
                       f"{n} path(s) with {flag} set and the output a shared object (for the module pair: not an executable); {bad} reserve no RELA_DYN_GENERAL entry" + (f", e.g. {example}" if example else ""), al.file, al.line)

    # ---- writers ----------------------------------------------------------------------------------------------------------------
    EV = lambda k: k.split("::")[-1] if (k.split("::")[-1].startswith("write_") and k.split("::")[-1].endswith("_relocation")) else None
    for flag, fn in GROUPS.items():
        b = next((x for x in F.all_bodies if stable(x.key).endswith("TableWriter::" + fn)), None)
        if b is None:
            rep.lost("emitted-when-reserved", "TableWriter::" + fn)
            continue
        try:
            table = decide.lin_paths(P, F, b, event_call=EV)
        except decide.NotLoopFree as e:
            rep.ob("emitted-when-reserved", f"{fn}:tabulate", False, str(e), b.file, b.line)
            continue
        n_silent = 0
        for assign, _res, events in table:
            if events:
                continue
            n_silent += 1
            facts_ = {a.split("(")[0].replace("call:", ""): v for a, v in assign.items() if isinstance(v, bool)}
            not_shared = facts_.get("OutputKind::is_shared_object") is False or facts_.get("OutputKind::is_executable") is True
            rep.ob("emitted-when-reserved", f"{fn}:silent-path:{'+'.join(sorted(k.split('::')[-1] + '=' + str(v)[0] for k, v in facts_.items()))}", not_shared,
                   ("no relocation emitted, output known not to be a shared object" if not_shared else
                    f"this successful path emits no dynamic relocation although nothing excludes a shared-object output (facts: {facts_}); allocate_resolution reserves one there, so the "
                    "link fails with `Allocated too much space in .rela.dyn (general)`"), b.file, b.line)
        rep.ob("emitted-when-reserved", f"{fn}:paths", len(table) >= 2, f"{len(table)} successful path(s), {n_silent} of them emit no relocation", b.file, b.line)
    rep.assume("all other size accounting (symbol tables, string tables, GOT/PLT counts, relocation counts outside the TLS GOT groups) depends on input data and is not decided")
