"""C26 — diagnostics are deterministic.

Decided statically: every parallel error channel (a container of `Error` filled from tasks and
drained afterwards, discovered by type) is consumed by a deterministic selection: sorted before use,
or — for first-arrival channels — every error that can reach it carries a constant, context-free
message. Channels drained by `pop()`/first-arrival whose errors carry per-input context are
violations (two are known findings, demonstrated against the real binary)."""
import re

from mir import (callee_key, declared_key, stable, op_place, op_const, is_transparent, place_chain)

EXPLANATION = ("type-driven discovery of error channels (ArrayQueue/SegQueue/Mutex<Vec>/Vec of libwild::error::Error), "
               "classification of each draining site (sorted / first-arrival / pop) and, for unsorted ones, a call-graph "
               "check that every error reaching the channel is built from a constant message (no runtime formatting, no "
               "with_context closure)")

ERR = "libwild::error::Error"
POPPERS = {"crossbeam_queue::ArrayQueue::pop", "crossbeam_queue::SegQueue::pop", "std::vec::Vec::pop",
           "<crossbeam_queue::SegQueue as std::iter::IntoIterator>::into_iter",
           "<crossbeam_queue::ArrayQueue as std::iter::IntoIterator>::into_iter",
           "std::vec::Vec::remove", "std::vec::Vec::swap_remove", "core::slice::first", "core::slice::last"}
PUSHERS = {"crossbeam_queue::ArrayQueue::push", "crossbeam_queue::SegQueue::push", "std::vec::Vec::push",
           "crossbeam_queue::ArrayQueue::force_push"}
SORTS = ("sort", "sort_by", "sort_by_key", "sort_unstable", "sort_unstable_by", "sort_unstable_by_key", "sort_by_cached_key")
RAYON_FIRST_ERROR = ("try_for_each", "try_for_each_with", "try_for_each_init", "try_reduce", "try_reduce_with", "find_any", "find_map_any")


def is_err_container(ty):
    return ERR in ty and re.search(r"(ArrayQueue|SegQueue|Vec)<libwild::error::Error>", ty) is not None


def run(ctx, rep):
    F = ctx.facts()
    P = ctx.program()
    rep.rule("channel", "every drain of a container of Error is either preceded by a sort of that container in the same body, or the channel only ever carries constant-message errors")
    rep.rule("inventory", "rayon first-error combinators over parallel iterators are inventoried (their choice among several simultaneous errors is not decided here)")

    _queue_drain_exits(rep, F, P)
    drains, pushes = [], []
    for b in F.all_bodies:
        if not b.key.startswith(("libwild::", "<libwild::")):
            continue
        flow = P.flow(b)
        for bi, t in flow.calls():
            ck = callee_key(t["f"]) or ""
            if not t["args"]:
                continue
            pl = op_place(t["args"][0])
            if not pl:
                continue
            ty = b.locals[pl[0]]
            if not is_err_container(ty):
                continue
            if ck in POPPERS:
                drains.append((b, bi, t, ty))
            elif ck in PUSHERS:
                pushes.append((b, bi, t, ty))
    rep.floor("channel", "drain sites of error channels", len(drains), 4)
    rep.floor("channel", "push sites into error channels", len(pushes), 5)

    for b, bi, t, ty in drains:
        cfg, flow = P.cfg(b), P.flow(b)
        ck = callee_key(t["f"])
        # a sort on a Vec<Error>/[Error] in this body that dominates the first use of the drained data
        sorted_here = False
        for bj, tt in flow.calls():
            k2 = callee_key(tt["f"]) or ""
            if k2.split("::")[-1] in SORTS and tt["args"]:
                p2 = op_place(tt["args"][0])
                if p2 and ERR in b.locals[p2[0]]:
                    sorted_here = True
        module = b.file
        kind = re.search(r"(ArrayQueue|SegQueue|Vec)", ty).group(1)
        inst = f"{stable(b.key)}:{ck.split('::')[-1]}:{kind}"
        if sorted_here:
            rep.ob("channel", inst, True, "drained into a vector that is sorted by a schedule-independent key before use", b.file, t["l"])
            continue
        # unsorted: all producers must be context-free
        prods = [p for p in pushes if p[0].file == module and re.search(r"(ArrayQueue|SegQueue|Vec)", p[3]).group(1) == kind]
        if not prods:
            rep.ob("channel", inst, False, "unsorted drain with no producer found (cannot establish what it carries)", b.file, t["l"])
            continue
        reasons = []
        for pb, pbi, pt, _pty in prods:
            reasons += context_sources(P, F, pb, pt["args"][1], depth=0, seen=set())
        reasons = sorted(set(reasons))
        ok = not reasons
        rep.ob("channel", inst, ok,
               ("first-arrival/pop selection, but every error that can reach the channel is a constant message (no per-input context): which task arrives first cannot change the text"
                if ok else
                "first-arrival/pop selection among errors that carry per-input context: with several failing inputs the reported error depends on thread scheduling; context added at: " + "; ".join(reasons[:4])),
               b.file, t["l"])
    # ---- complete production into sorted channels ------------------------------------------------------------------------
    # "all errors, sorted" is deterministic only if the set of errors is: a producer that pushes from inside a loop over a hash
    # container (iteration order differs between runs, and the partition into buckets differs between thread counts) must keep
    # going after a push - stopping at the first error makes *which* errors exist depend on the iteration order.
    rep.rule("complete-production", "a push into a sorted error channel from inside a loop over a hash container is followed by the next iteration on every path (no early exit after the first error)")
    sorted_kinds = set()
    for b, bi, t, ty in drains:
        flow = P.flow(b)
        for bj, tt in flow.calls():
            k2 = callee_key(tt["f"]) or ""
            if k2.split("::")[-1] in SORTS and tt["args"]:
                p2 = op_place(tt["args"][0])
                if p2 and ERR in b.locals[p2[0]]:
                    sorted_kinds.add((b.file, re.search(r"(ArrayQueue|SegQueue|Vec)", ty).group(1)))
    n_cp = 0

    def hash_loops_around(body, block):
        cfg, flow = P.cfg(body), P.flow(body)
        out = []
        for bi, t in flow.calls():
            ck = callee_key(t["f"]) or ""
            nxt = t.get("to")
            in_cycle = nxt is not None and bi in cfg.reachable_from(nxt)
            if ck.endswith("as std::iter::Iterator>::next") and cfg.dominates(bi, block) and in_cycle and re.search(r"hashbrown|HashMap|HashSet|hash_map|hash_set|hash_table", ck):
                out.append(bi)
        return out

    def check_site(body, block, line, label):
        """`block` (a push, or a call of a helper that pushes) lies in a hash-container loop: the loop must go on afterwards"""
        nonlocal n_cp
        nexts = set(hash_loops_around(body, block))
        if not nexts:
            return False
        n_cp += 1
        cfg = P.cfg(body)
        after = cfg.reachable_from(block, avoid=nexts)
        exits = [x for x in after if body.blocks[x]["t"]["k"] == "return"]
        rep.ob("complete-production", label, not exits,
               ("after pushing an error the loop over the hash container continues" if not exits else
                "after pushing an error the function can return without visiting the remaining entries: which errors are reported then depends on the hash "
                "iteration order (randomly seeded) and on the number of buckets (= threads)"), body.file, line)
        return True
    for pb, pbi, pt, pty in pushes:
        kind = re.search(r"(ArrayQueue|SegQueue|Vec)", pty).group(1)
        if (pb.file, kind) not in sorted_kinds:
            continue
        if check_site(pb, pbi, pt["l"], f"{stable(pb.key)}:{kind}"):
            continue
        # the push may sit in a small helper: look one level up, at the helper's call sites
        if pb.d["kind"] != "Closure":
            for cb, cbi, ct in P.callers_of(lambda k, kk=pb.key: k == kk):
                check_site(cb, cbi, ct["l"], f"{stable(cb.key)}:{kind}")
    rep.floor("complete-production", "pushes into sorted channels from hash-container loops", n_cp, 1)

    # inventory of rayon first-error combinators
    n = 0
    for b in F.all_bodies:
        if not b.key.startswith(("libwild::", "<libwild::")):
            continue
        for bi, t in P.flow(b).calls():
            ck = callee_key(t["f"]) or ""
            dk = declared_key(t["f"]) or ""
            if dk.startswith("rayon::iter::") and dk.split("::")[-1] in RAYON_FIRST_ERROR:
                n += 1
    rep.count("rayon-first-error-combinators", n)
    rep.note(f"{n} rayon first-error combinator call sites (try_for_each & co.) inventoried; with several simultaneously failing items their choice is rayon's, not decided here")
    rep.assume("the set of warnings is emitted directly from tasks; only its order can vary, which the property does not constrain")


ERR_CTORS = {"libwild::error::Error::with_message", "anyhow::Error::msg"}


def context_sources(P, F, body, op, depth, seen):
    """Reasons why the error value `op` in `body` may carry runtime (per-input) context."""
    out = []
    if depth > 4:
        return out
    flow = P.flow(body)
    origins = flow.origins(op)
    calls = set()
    for o in origins:
        if o[0] == "call" and o[1]:
            calls.add((o[1], o[2]))
        elif o[0] == "param":
            # go to the callers
            if body.d["kind"] == "Closure":
                continue
            for cb, cbi, ct in P.callers_of(lambda k, kk=body.key: k == kk):
                i = o[1]
                if i - 1 < len(ct["args"]) and (cb.key, cbi) not in seen:
                    seen.add((cb.key, cbi))
                    out += context_sources(P, F, cb, ct["args"][i - 1], depth + 1, seen)
    for ck, bi in calls:
        if ck.endswith("Context>::with_context") or ck.endswith("Context::with_context"):
            out.append(f"{stable(body.key)}:with_context")
        if is_transparent(ck):
            continue
        # everything reachable from the producing call
        if (ck,) in seen:
            continue
        seen.add((ck,))
        reach = P.reachable([ck])
        for k in reach:
            kb = F.body(k)
            if kb is None or not k.startswith(("libwild::", "<libwild::", "linker_utils::", "<linker_utils::")):
                continue
            kf = P.flow(kb)
            for bj, tt in kf.calls():
                c2 = callee_key(tt["f"]) or ""
                if c2.endswith("Context>::with_context") or c2.endswith("Context::with_context"):
                    out.append(f"{stable(k)}:with_context")
                elif c2 in ERR_CTORS and tt["args"]:
                    oc = kf.origin_calls(tt["args"][-1])
                    if any(x in ("std::fmt::format", "alloc::fmt::format") for x in oc) and _has_runtime_args(kf, tt["args"][-1]):
                        out.append(f"{stable(k)}:formatted-message")
    return out


def _has_runtime_args(flow, op):
    oc = flow.origin_calls(op)
    return any(x.endswith("Arguments::new") or x.endswith("Arguments::new_v1") or x.endswith("Arguments::new_v1_formatted") for x in oc)


QUEUE_INTO_ITER = ("<crossbeam_queue::SegQueue as std::iter::IntoIterator>::into_iter", "<crossbeam_queue::ArrayQueue as std::iter::IntoIterator>::into_iter")


def _queue_drain_exits(rep, F, P):
    """A `for x in queue` over a concurrent queue visits elements in arrival order (schedule dependent). Placing each element by its own
    index or sorting afterwards removes that dependence - leaving the loop early (return / break with the element) does not: which element
    is seen first depends on which task finished first."""
    rep.rule("queue-drain-exit", "a loop draining a crossbeam queue (elements in task-completion order) has no early exit: every path from the loop body to the "
             "function's return goes back through the loop head (panics excepted), so the outcome cannot depend on which element arrived first")
    n = 0
    for b in F.all_bodies:
        if not b.key.startswith(("libwild::", "<libwild::")):
            continue
        flow = P.flow(b)
        srcs = [(bi, t) for bi, t in flow.calls() if (callee_key(t["f"]) or "") in QUEUE_INTO_ITER]
        # `while let Some(x) = queue.pop()` over a queue this function owns (a local, not a shared reference: the producers have finished)
        pops = []
        for bi, t in flow.calls():
            if (callee_key(t["f"]) or "") in ("crossbeam_queue::SegQueue::pop", "crossbeam_queue::ArrayQueue::pop") and t["args"]:
                _fields, roots = place_chain(flow, t["args"][0])
                owned = roots and all(r > b.d["argc"] and not b.locals[r].lstrip().startswith("&") for r in roots)
                if owned:
                    pops.append((bi, t))
        if not srcs and not pops:
            continue
        cfg = P.cfg(b)
        for sbi, st in srcs + pops:
            # loop heads: `next` calls whose receiver derives from this iterator
            heads = []
            if (sbi, st) in pops:
                if st.get("to") is not None and sbi in cfg.reachable_from(st["to"]):
                    heads.append((sbi, st))
                else:
                    continue
            for bi, t in flow.calls():
                ck = callee_key(t["f"]) or ""
                if (sbi, st) in srcs and ck.endswith("::next") and t["args"]:
                    o = flow.origins(t["args"][0])
                    if any(x[0] == "call" and x[2] == sbi for x in o):
                        heads.append((bi, t))
            inst = f"{stable(b.key)}:{re.search(r'(ArrayQueue|SegQueue)', callee_key(st['f'])).group(1)}"
            if not heads:
                rep.note(f"{b.key}: queue drained through an adaptor chain (no explicit loop), line {st['l']}")
                continue
            for hbi, ht in heads:
                n += 1
                # the block that switches on the Option returned by next: Some-target starts the body
                nxt = ht["to"]
                sw = None
                seen = set()
                cur = nxt
                while cur is not None and cur not in seen and len(seen) < 6:
                    seen.add(cur)
                    tt = b.blocks[cur]["t"]
                    if tt["k"] == "switch":
                        sw = cur
                        break
                    cur = tt.get("to") if tt["k"] in ("goto", "call") else None
                if sw is None:
                    rep.ob("queue-drain-exit", inst + ":shape", False, "could not find the Some/None test after next()", b.file, ht["l"])
                    continue
                tt = b.blocks[sw]["t"]
                some_t = [to for c, to in tt["arms"] if c == 1] or [tt["else"]]
                body_reach = set()
                for s0 in some_t:
                    body_reach |= cfg.reachable_avoiding_edges(s0, set(), avoid_blocks={hbi})
                early = sorted(x for x in cfg.exits() if x in body_reach)
                lines = sorted({b.blocks[x]["t"].get("l") for x in early})
                rep.ob("queue-drain-exit", inst, not early,
                       "the loop has no early exit" if not early else
                       f"the loop over the queue can leave the function from inside its body (return reached without going back to the loop head): with several "
                       f"candidate elements the one that triggers it is the first to *arrive*, which depends on thread scheduling", b.file, ht["l"])
    rep.floor("queue-drain-exit", "explicit loops over drained concurrent queues", n, 2)
