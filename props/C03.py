"""C03 — archive members are loaded exactly when needed.

The fixpoint over arbitrary reference graphs is not decided. Decided: activation guards in
resolve_symbol (a file is requested exactly for non-weak references to a different file, unless both
sides are dynamic; weak references register a conditional undefined symbol), exactly-once activation
by type (AtomicTake of the per-file definitions slice), optional files are parked and the others queued
in resolve_group, the atoms of is_optional, and independence from command-line position (no ordering
comparison on file ids in the activation path)."""
import fold
import hirq
from mir import (bool_edge_blocks, bool_edges_of, callee_key, op_place, place_chain, stable, switch_chain, switch_bool_labels)

EXPLANATION = ("guarded-call rules over the MIR of resolve_symbol / resolve_group / try_request_file_id, type facts for the "
               "per-file AtomicTake, operator skeleton of SequencedInputObject::is_optional from HIR, who-may-call over ordering "
               "comparisons on FileId in the activation path")

R = "libwild::resolution::"


def run(ctx, rep):
    F = ctx.facts(); P = ctx.program()
    rep.rule("activation-guard", "resolve_symbol calls try_request_file_id only on the edge `symbol_file_id != file_id && !is_weak`, and skips it only when both the referrer and the definer are dynamic")
    rep.rule("weak-conditional", "on the weak / same-file edge an UndefinedSymbol with ignore_if_loaded = Some(file) is registered")
    rep.rule("exactly-once", "definitions_per_file holds AtomicTake<&mut [SymbolId]> and try_request_file_id obtains the slice through AtomicTake::take before queuing work")
    rep.rule("optional-parked", "resolve_group: on the is_optional() edge the file's slice is stored with AtomicTake::new and no work is queued; otherwise work is queued and AtomicTake::empty stored")
    rep.rule("is-optional-atoms", "is_optional = (has_archive_semantics && !whole_archive) || (is_dynamic && as_needed)")
    rep.rule("position-independent", "no ordering comparison on FileId / group index in resolve_symbol and try_request_file_id")

    rs = F.body(R + "resolve_symbol")
    if rs is None:
        rep.lost("activation-guard", R + "resolve_symbol")
    else:
        cfg, flow = P.cfg(rs), P.flow(rs)
        reqs = [bi for bi, t in flow.calls() if (callee_key(t["f"]) or "").endswith("try_request_file_id")]
        rep.ob("activation-guard", "request-site", len(reqs) == 1, f"{len(reqs)} try_request_file_id call(s)", rs.file, rs.line)
        ne_t, ne_f = bool_edge_blocks(rs, flow, cfg, lambda k: k is not None and k.split("::")[-1] in ("ne",) and "PartialEq" in k)
        eq_t, eq_f = bool_edge_blocks(rs, flow, cfg, lambda k: k is not None and k.split("::")[-1] in ("eq",) and "PartialEq" in k)
        differs = ne_t | eq_f
        weak_false, weak_true = set(), set()
        ef = cfg.edge_facts()
        for sb in cfg.reach:
            k, pl, _b, fl = switch_chain(rs, flow, sb)
            if k == "place" and ".is_weak" in pl[1]:
                for lab, v in switch_bool_labels(rs, flow, cfg, sb).items():
                    (weak_true if v else weak_false).add((sb, lab))
        dyn_t, dyn_f = bool_edges_of(rs, flow, cfg, lambda k: k is not None and k.endswith("::is_dynamic"))
        for r in reqs:
            l = rs.blocks[r]["t"]["l"]
            rep.ob("activation-guard", "different-file", r in differs, "requested only when the definition lives in another file", rs.file, l)
            rep.ob("activation-guard", "non-weak", bool(ef.get(r, frozenset()) & weak_false), "requested only for non-weak references (a weak reference must not pull an archive member in)", rs.file, l)
        # UndefinedSymbol pushes
        pushes = []
        for bi, blk in enumerate(rs.blocks):
            for s in blk["s"]:
                if s["k"] == "assign" and s["rv"]["k"] == "agg" and (s["rv"].get("adt") or "").endswith("UndefinedSymbol"):
                    fld = dict(zip(s["rv"]["fields"], s["rv"]["ops"]))
                    o = flow.origins(fld["ignore_if_loaded"])
                    some = any(x[0] == "agg" and x[1].endswith("Option::Some") for x in o)
                    pushes.append((bi, some, s["l"]))
        cond = [p for p in pushes if p[1]]
        rep.ob("weak-conditional", "conditional-undefined", len(cond) == 1, f"{len(cond)} UndefinedSymbol with ignore_if_loaded = Some(..)", rs.file, rs.line)
        for bi, some, l in cond:
            rep.ob("weak-conditional", "not-on-request-edge", not (bi in differs and bool(ef.get(bi, frozenset()) & weak_false)), "registered on the complementary (weak or same-file) edge", rs.file, l)
        # ordering comparisons
    for key in (R + "resolve_symbol", R + "ResolutionResources::try_request_file_id"):
        b = F.body(key)
        if b is None:
            rep.lost("position-independent", key)
            continue
        bad = []
        for bi, t in P.flow(b).calls():
            ck = callee_key(t["f"]) or ""
            fa = t["f"].get("fn_args") or ""
            if ck.split("::")[-1] in ("lt", "le", "gt", "ge", "cmp", "partial_cmp", "max", "min") and ("FileId" in fa or "usize" in fa and False):
                bad.append((ck, t["l"]))
        # primitive comparisons of group()/file() indices
        for blk in b.blocks:
            for s in blk["s"]:
                if s["k"] == "assign" and s["rv"]["k"] == "bin" and s["rv"]["op"] in ("Lt", "Le", "Gt", "Ge"):
                    oc = P.flow(b).origin_calls(s["rv"]["a"]) | P.flow(b).origin_calls(s["rv"]["b"])
                    if any(c.endswith(("FileId::group", "FileId::file", "FileId::as_u32")) for c in oc):
                        bad.append((s["rv"]["op"], s["l"]))
        rep.ob("position-independent", key.split("::")[-1], not bad, f"ordering comparisons on file ids: {bad}", b.file, b.line)

    # ---- exactly once -------------------------------------------------------------------------------------
    adt = F.adt("libwild::resolution::ResolutionResources")
    if adt is None:
        rep.lost("exactly-once", "ResolutionResources")
    else:
        f = [x for x in adt["variants"][0]["fields"] if x["name"] == "definitions_per_file"]
        rep.ob("exactly-once", "field-type", bool(f) and "atomic_take::AtomicTake<&" in f[0]["ty"] and "mut [" in f[0]["ty"], f"definitions_per_file: {f[0]['ty'] if f else None}", adt["file"], adt["line"])
    tr = F.body(R + "ResolutionResources::try_request_file_id")
    if tr is None:
        rep.lost("exactly-once", "try_request_file_id")
    else:
        cfg, flow = P.cfg(tr), P.flow(tr)
        takes = [bi for bi, t in flow.calls() if (callee_key(t["f"]) or "").endswith("AtomicTake::take")]
        works = [(bi, t) for bi, t in flow.calls() if callee_key(t["f"]) == R + "work_items_do"]
        rep.ob("exactly-once", "take-site", len(takes) == 1 and len(works) == 1, f"take x{len(takes)}, work_items_do x{len(works)}", tr.file, tr.line)
        for bi, t in works:
            oc = flow.origin_calls(t["args"][1])
            rep.ob("exactly-once", "work-gets-taken-slice", any(c.endswith("AtomicTake::take") for c in oc), "the slice handed to work_items_do is the one obtained from AtomicTake::take (a unique &mut cannot be handed out twice)", tr.file, t["l"])
            dom = cfg.dom()
            rep.ob("exactly-once", "take-dominates-work", all(tk in dom.get(bi, ()) for tk in takes), "work is queued only after a successful take", tr.file, t["l"])

    # ---- optional parked --------------------------------------------------------------------------------------
    found = False
    for c in F.closures_of(R + "resolve_group"):
        cfg, flow = P.cfg(c), P.flow(c)
        if not any((callee_key(t["f"]) or "").endswith("is_optional") for bi, t in flow.calls()):
            continue
        found = True
        tb, fb = bool_edge_blocks(c, flow, cfg, lambda k: k is not None and k.endswith("::is_optional"))
        news = [bi for bi, t in flow.calls() if (callee_key(t["f"]) or "").endswith("AtomicTake::new")]
        empties = [bi for bi, t in flow.calls() if (callee_key(t["f"]) or "").endswith("AtomicTake::empty")]
        works = [bi for bi, t in flow.calls() if callee_key(t["f"]) == R + "work_items_do"]
        rep.ob("optional-parked", "park-on-optional", len(news) == 1 and all(n in tb for n in news), "AtomicTake::new(slice) on the is_optional() edge", c.file, c.line)
        rep.ob("optional-parked", "queue-otherwise", len(works) == 1 and all(w in fb for w in works) and all(e in fb for e in empties) and len(empties) == 1,
               "work_items_do + AtomicTake::empty on the other edge (a non-optional file is always loaded)", c.file, c.line)
    if not found:
        rep.lost("optional-parked", "closure of resolve_group calling is_optional")

    # ---- the null-symbol skip uses the absolute symbol index ----------------------------------------------------------
    # resolve_symbols is called once per chunk of MAX_SYMBOLS_PER_WORK_ITEM symbols; the enumerate() index inside it is relative to the
    # chunk. "Symbol zero" (the ELF null symbol, never resolved) must therefore be recognised by chunk start + index: testing the bare
    # index would also skip the first symbol of every later chunk, and an archive member needed only by that symbol is never loaded.
    rep.rule("null-symbol-skip", "in resolve_symbols the `== 0` test that skips the null symbol compares start_symbol_offset + index, not the chunk-relative index")
    import chunkidx
    r_ = chunkidx.analyse(F, P)
    if r_ is None:
        rep.lost("null-symbol-skip", R + "resolve_symbols and its closure")
    else:
        bad = [u for u in r_["uses"] if not u[3]] if r_["relative"] is not False else []
        rep.ob("null-symbol-skip", "present", len(r_["uses"]) >= 1 and r_["cap"] is not None, f"{len(r_['uses'])} use(s) of the enumerate index in the closure; start_symbol_offset is capture #{r_['cap']}; index is {'chunk-relative' if r_['relative'] else 'absolute'}", "libwild/src/resolution.rs", 0)
        for c_, line, kind, ok, detail in r_["uses"]:
            rep.ob("null-symbol-skip", f"absolute-index:{kind}", ok or r_["relative"] is False, detail + ("" if ok else ": symbols beyond the first chunk of 5000 are confused with those of the first chunk (the first symbol of each later chunk is skipped as `symbol zero`, references are recorded under the wrong symbol)"), c_.file, line)

    # ---- is_optional: boolean function (truth table over MIR decision atoms; robust to reordering / let-extraction) ----
    import decide
    io = F.body("libwild::grouping::SequencedInputObject::is_optional")
    if io is None:
        rep.lost("is-optional-atoms", "SequencedInputObject::is_optional")
    else:
        try:
            paths = decide.bool_paths(P, F, io)
            dom = decide.table_atoms(paths)
            if any("has_archive_semantics" in a for a in dom):
                ok, why = decide.check_formula(paths, {"arch": "has_archive_semantics", "whole": "whole_archive", "dyn": "is_dynamic", "asn": "as_needed"},
                                               lambda v: (v["arch"] and not v["whole"]) or (v["dyn"] and v["asn"]))
            else:
                # has_archive_semantics() written out: archive entry (regular archives) || modifiers.archive_semantics (thin members, --start-lib)
                ok, why = decide.check_formula(paths, {"entry": "is_archive_entry", "sem": "archive_semantics", "whole": "whole_archive", "dyn": "is_dynamic", "asn": "as_needed"},
                                               lambda v: ((v["entry"] or v["sem"]) and not v["whole"]) or (v["dyn"] and v["asn"]))
                why += " (has_archive_semantics expanded to is_archive_entry || modifiers.archive_semantics)"
            rep.ob("is-optional-atoms", "truth-table", ok, f"{len(paths)} paths; {why}", io.file, io.line)
        except decide.NotLoopFree as e:
            rep.ob("is-optional-atoms", "truth-table", False, f"is_optional is no longer loop-free: {e}", io.file, io.line)
    _thin_member_modifiers(rep, P, F)
    rep.assume("the transitive closure over reference graphs is input-dependent: not decided")


def _thin_member_modifiers(rep, P, F):
    """The files a thin archive refers to are opened as inputs of their own; is_optional() reads each member's *own* modifiers. A member is inside a whole-archive
    region iff its archive is, so the member's whole_archive flag (and as_needed / allow_shared) must be copied from the archive's modifiers; only
    archive_semantics is forced to true."""
    from mir import place_chain, op_const
    rep.rule("thin-member-modifiers", "process_thin_archive builds each member's Modifiers with archive_semantics = true and whole_archive / as_needed / allow_shared read from "
             "the archive's own modifiers (`..input_file.modifiers`), so --whole-archive applies to thin archives as it does to regular ones")
    b = next((x for x in F.all_bodies if x.key.endswith("input_data::process_thin_archive") and x.d["kind"] != "Closure"), None)
    bodies = [b] if b else []
    bodies += list(F.closures_of("libwild::input_data::process_thin_archive"))
    n = 0
    for body in bodies:
        if body is None:
            continue
        flow = P.flow(body)
        for blk in body.blocks:
            if blk.get("cleanup"):
                continue
            for st in blk["s"]:
                if st["k"] == "assign" and st["rv"]["k"] == "agg" and str(st["rv"].get("adt") or "").endswith("Modifiers") and st["rv"].get("fields"):
                    n += 1
                    fields = st["rv"]["fields"]
                    ops = dict(zip(fields, st["rv"]["ops"]))
                    sem = (op_const(ops.get("archive_semantics")) or {}).get("val") == 1 if ops.get("archive_semantics") and ops["archive_semantics"][0] == "k" else False
                    inherited = {}
                    for f in ("whole_archive", "as_needed", "allow_shared"):
                        o = ops.get(f)
                        inherited[f] = bool(o) and o[0] != "k" and "modifiers" in place_chain(flow, o)[0] and f in place_chain(flow, o)[0]
                    ok = sem and all(inherited.values())
                    rep.ob("thin-member-modifiers", f"member#{n}", ok,
                           "archive_semantics = true; whole_archive, as_needed, allow_shared come from the archive's modifiers" if ok else
                           f"member modifiers: archive_semantics const true = {sem}; inherited from the archive: {inherited} - a thin archive inside --whole-archive would "
                           "load only the members something references", body.file, st.get("l"))
    rep.floor("thin-member-modifiers", "Modifiers built in process_thin_archive", n, 1)
