"""C04 — output ELF files are structurally well-formed.

Addresses, offsets and sizes are runtime quantities: overlap, congruence and alignment clauses are not
decided. Decided on the definition tables (constant-folded from HIR): no LOAD segment definition is
both writable and executable; every allocated built-in section's (W,X) class has exactly one LOAD
definition; relro sections are writable; every target segment type exists; the special segments have
source sections; the LOAD arm of should_include_section is the conjunction of the three flag
agreements."""
import fold
import hirq
from mir import callee_key

EXPLANATION = ("constant folding of PROGRAM_SEGMENT_DEFS / STACK_SEGMENT_DEF / SECTION_DEFINITIONS from type-checked HIR "
               "(struct update syntax and index assignments included) and table rules over them; operator skeleton of the "
               "LOAD arm of ProgramSegmentDef::should_include_section")

PF_X, PF_W, PF_R = 1, 2, 4
SHF_WRITE, SHF_ALLOC, SHF_EXEC, SHF_TLS = 1, 2, 4, 0x400
PT = {1: "LOAD", 2: "DYNAMIC", 3: "INTERP", 4: "NOTE", 6: "PHDR", 7: "TLS", 0x6474e550: "GNU_EH_FRAME", 0x6474e551: "GNU_STACK",
      0x6474e552: "GNU_RELRO", 0x6474e553: "GNU_PROPERTY", 0x6474e554: "GNU_SFRAME", 0x70000003: "RISCV_ATTRIBUTES"}


def val(e):
    return e.args[0] if isinstance(e, fold.Enum) and e.args else e


def run(ctx, rep):
    F = ctx.facts(); P = ctx.program()
    FD = fold.Folder(F)
    FD.lenient = True
    rep.rule("wx", "no PT_LOAD definition (nor the stack segment) has both WRITABLE and EXECUTABLE; exactly one LOAD definition per permission class R, RX, RW")
    rep.rule("section-class", "every built-in section with SHF_ALLOC has a (W,X) class for which a LOAD definition exists; relro sections are writable; target segment types exist")
    rep.rule("special-segments", "TLS, GNU_RELRO, DYNAMIC, INTERP, PHDR, GNU_EH_FRAME, NOTE each have at least one source section in the tables")
    rep.rule("include-atoms", "should_include_section's LOAD arm = ALLOC && (WRITE == is_writable) && (EXECINSTR == is_executable)")
    try:
        segs = FD.const("libwild::elf::PROGRAM_SEGMENT_DEFS")
        stack = FD.const("libwild::elf::STACK_SEGMENT_DEF")
        secs = FD.const("libwild::elf::SECTION_DEFINITIONS")
    except fold.FoldError as e:
        rep.lost("wx", f"definition tables could not be folded: {e}")
        return
    hb = F.hir_body("libwild::elf::PROGRAM_SEGMENT_DEFS")
    file, line = (hb["file"], hb["line"]) if hb else (None, None)
    rep.floor("wx", "segment definitions", len(segs), 10)
    loads = {}
    types = set()
    for i, s in enumerate(segs + [stack]):
        ty, fl = val(s.fields["segment_type"]), val(s.fields["segment_flags"])
        types.add(ty)
        name = PT.get(ty, hex(ty))
        if ty in (1, 0x6474e551):
            rep.ob("wx", f"{name}:{flags_str(fl)}", not (fl & PF_W and fl & PF_X), f"segment definition {name} flags {flags_str(fl)}", file, line)
        if ty == 1:
            loads.setdefault((bool(fl & PF_W), bool(fl & PF_X)), []).append(fl)
        rep.ob("wx", f"readable:{name}#{i}", bool(fl & PF_R), f"{name} is readable", file, line)
    for cls, nm in (((False, False), "R"), ((False, True), "RX"), ((True, False), "RW")):
        rep.ob("wx", f"one-load:{nm}", len(loads.get(cls, [])) == 1, f"{len(loads.get(cls, []))} LOAD definition(s) for class {nm}", file, line)
    rep.ob("wx", "no-wx-load", (True, True) not in loads, "no LOAD definition for the W+X class", file, line)

    # sections
    hs = F.hir_body("libwild::elf::SECTION_DEFINITIONS")
    sfile, sline = (hs["file"], hs["line"]) if hs else (None, None)
    items = sorted(secs.items.items()) if hasattr(secs, "items") else list(enumerate(secs))
    rep.floor("section-class", "built-in section definitions", len(items), 40)
    tls_src, relro_src = [], []
    by_target = {}
    for idx, d in items:
        f = d.fields
        fl = val(f.get("section_flags", fold.Enum("x", (0,))))
        name = sec_name(f.get("kind"))
        if isinstance(fl, fold.Unknown) or not isinstance(fl, int):
            rep.ob("section-class", f"{name}:flags-folded", False, f"section flags not foldable: {fl!r}", sfile, sline)
            continue
        relro = f.get("is_relro", False)
        tgt = f.get("target_segment_type")
        if fl & SHF_ALLOC:
            cls = (bool(fl & SHF_WRITE), bool(fl & SHF_EXEC))
            rep.ob("section-class", f"{name}:class", cls in loads,
                   f"flags {sflags_str(fl)}: class {'W' if cls[0] else ''}{'X' if cls[1] else ''} {'has' if cls in loads else 'has NO'} LOAD definition (should_include_section would place it in no loadable segment)", sfile, sline)
        if relro is True:
            relro_src.append(name)
            rep.ob("section-class", f"{name}:relro-writable", bool(fl & SHF_WRITE), "a RELRO section must be writable (it lives in the RW segment and is remapped read-only after relocation)", sfile, sline)
        if fl & SHF_TLS:
            tls_src.append(name)
        if isinstance(tgt, fold.Enum) and tgt.path.endswith("::Some") and tgt.args:
            t = val(tgt.args[0])
            by_target.setdefault(t, []).append(name)
            rep.ob("section-class", f"{name}:target-exists", t in types, f"target segment type {PT.get(t, t)} is defined in PROGRAM_SEGMENT_DEFS", sfile, sline)
    for ty in (2, 3, 6, 0x6474e550):
        rep.ob("special-segments", PT[ty], bool(by_target.get(ty)), f"sections targeting PT_{PT[ty]}: {by_target.get(ty)}", sfile, sline)
    rep.ob("special-segments", "GNU_RELRO", bool(relro_src), f"relro sections: {relro_src[:8]}", sfile, sline)
    rep.note(f"TLS sources among built-ins by flag: {tls_src} (TLS sections are mostly regular input sections matched by SHF_TLS)")

    # include atoms
    b = None
    for k, v in F.hir().items():
        if k.endswith("should_include_section") and "elf::ProgramSegmentDef" in k:
            b = v[0]
    if b is None:
        rep.lost("include-atoms", "ProgramSegmentDef::should_include_section")
    else:
        m = fold.find_first(b["body"], lambda e: e.get("e") == "match" and e["src"] == "Normal")
        arm = None
        for a in m["arms"] if m else []:
            ctor, _ = hirq.pat_ctor(a["pat"])
            if ctor and ctor.endswith("pt::LOAD"):
                arm = a
        if arm is None:
            rep.lost("include-atoms", "pt::LOAD arm")
        else:
            sk = hirq.skeleton(arm["body"], lambda n: None)
            atoms = [("ALLOC", "contains(ALLOC)"), ("WRITE", "contains(WRITE) == local:self.is_writable()"), ("EXECINSTR", "contains(EXECINSTR) == local:self.is_executable()")]
            for nm, pat in atoms:
                rep.ob("include-atoms", nm, pat in sk.replace("(local:", "(").replace("local:info.section_attributes.flags.", "") or pat.replace("local:", "") in sk.replace("local:", ""),
                       f"LOAD arm: {sk[:220]}", b["file"], arm["l"])
            rep.ob("include-atoms", "conjunction", sk.count("&&") == 2 and "||" not in sk, "the three atoms are joined by && only", b["file"], arm["l"])
    # ---- header fields are filled from the matching layout quantities ------------------------------------------------
    header_fields(ctx, rep, F, P)
    dynamic_table(ctx, rep, F)
    segment_start_congruence(ctx, rep, F, P)
    segment_alignment(ctx, rep, F, P)
    phdr_order(ctx, rep, F, P)
    secondary_sections(ctx, rep, F, P)
    rep.assume("addresses, offsets, sizes: runtime quantities, not decided")


def flags_str(fl):
    return "".join(c for c, b in (("R", PF_R), ("W", PF_W), ("X", PF_X)) if fl & b)


def sflags_str(fl):
    return "".join(c for c, b in (("A", SHF_ALLOC), ("W", SHF_WRITE), ("X", SHF_EXEC), ("T", SHF_TLS)) if fl & b) or "-"


def sec_name(kind):
    try:
        inner = kind.args[0]
        if isinstance(inner, fold.Enum) and inner.args and isinstance(inner.args[0], list):
            return bytes(inner.args[0]).decode() or "<headers>"
        return repr(inner)[:30]
    except Exception:
        return "?"


HEADER_SPEC = {
    "libwild::elf_writer::write_program_headers": {
        "p_type": ["segment_type"], "p_flags": ["segment_flags"], "p_offset": ["file_offset"], "p_vaddr": ["mem_offset"], "p_paddr": ["mem_offset"],
        "p_filesz": ["file_size"], "p_memsz": ["mem_size"], "p_align": ["alignment"],
    },
    "libwild::elf_writer::populate_file_header": {
        "e_type": ["1", "2", "3"], "e_machine": ["arch_identifier"], "e_version": ["1"], "e_entry": ["entry_symbol_address"], "e_phoff": ["64"],
        "e_shoff": ["Add(64, program_headers_size("], "e_ehsize": ["64"], "e_phentsize": ["56"], "e_phnum": ["active_segment_ids"], "e_shentsize": ["64"],
        "e_shnum": ["num_output_sections_with_content"], "e_shstrndx": ["SHSTRTAB"], "e_flags": ["eflags"],
    },
    "libwild::elf_writer::write_section_headers": {
        "sh_name": ["name_offset"], "sh_type": [".ty"], "sh_flags": ["section_flags("], "sh_addr": ["mem_offset"], "sh_offset": ["file_offset"],
        "sh_size": ["mem_size"], "sh_link": ["output_index_of_section"], "sh_info": ["compute_info_values"], "sh_addralign": ["alignment"], "sh_entsize": ["entsize"],
    },
}
# what must NOT feed a field (the sibling quantity it is most easily confused with)
HEADER_FORBID = {"p_offset": ["mem_offset", "file_size"], "p_vaddr": ["file_offset"], "p_paddr": ["file_offset"], "p_filesz": ["mem_size", "file_offset"], "p_memsz": ["file_size"],
                 "sh_addr": ["file_offset"], "sh_offset": ["mem_offset"], "sh_size": ["file_size", "alignment"], "sh_addralign": ["entsize", "mem_size"], "sh_entsize": ["alignment"],
                 "e_phentsize": ["64"], "e_shentsize": ["56"], "e_ehsize": ["56"], "e_phnum": ["num_output_sections"], "e_shnum": ["active_segment_ids"]}


def header_fields(ctx, rep, F, P):
    """Every field of the ELF file header, the program headers and the section headers is stored from the layout quantity of the same
    meaning (p_offset <- file_offset, p_vaddr/p_paddr <- mem_offset, p_filesz <- file_size, p_memsz <- mem_size, ...; gABI sizes 64/56/64)."""
    from mir import alternatives, callee_key, expr_tree, render, simplify
    rep.rule("header-fields", "each ELF header field is set exactly once per header from the layout quantity of the same meaning; entry sizes are the gABI's (Ehdr 64, Phdr 56, Shdr 64)")
    for fn, spec in HEADER_SPEC.items():
        b = F.body(fn)
        if b is None:
            rep.lost("header-fields", fn)
            continue
        flow = P.flow(b)
        seen = {}
        for bi, t in flow.calls():
            k = callee_key(t["f"]) or ""
            if not (k.startswith("object::U") and k.endswith("::set")) or len(t["args"]) < 3:
                continue
            field = render(expr_tree(P, b, t["args"][0], depth=4, expand_params=0)).split(".")[-1]
            with alternatives():
                val = render(simplify(expr_tree(P, b, t["args"][2], depth=7, expand_params=0)))
            seen.setdefault(field, []).append((val, t["l"]))
        short = fn.split("::")[-1]
        for field, wants in spec.items():
            got = seen.get(field, [])
            if len(got) != 1:
                rep.ob("header-fields", f"{short}:{field}:once", False, f"{field} is set {len(got)} time(s) in {short}", b.file, b.line)
                continue
            val, line = got[0]
            ok = all(w in val for w in wants) if field not in ("e_type",) else all(w in val for w in wants)
            bad = [w for w in HEADER_FORBID.get(field, []) if w in val and not any(w in x and x != w for x in wants)]
            rep.ob("header-fields", f"{short}:{field}", ok and not bad, f"{field} <- {val[:140]}" + ("" if ok else f" (expected a value built from {wants})") + (f" (must not be built from {bad})" if bad else ""), b.file, line)
        extra = sorted(set(seen) - set(spec))
        rep.ob("header-fields", f"{short}:no-unknown-fields", not extra, f"fields set that the table does not know: {extra}", b.file, b.line)
    # e_ident constants are plain field stores
    ph = F.body("libwild::elf_writer::populate_file_header")
    if ph is not None:
        want = {"class": 2, "data": 1, "version": 1}
        got = {}
        for blk in ph.blocks:
            for st in blk["s"]:
                if st["k"] == "assign" and st["p"][1] and st["rv"]["k"] == "use" and st["rv"]["a"][0] == "k":
                    fld = [x for x in st["p"][1] if x.startswith(".")]
                    if ".e_ident" in fld and len(fld) >= 2:
                        got[fld[-1][1:]] = st["rv"]["a"][1].get("val")
        for k, v in want.items():
            rep.ob("header-fields", f"e_ident.{k}", got.get(k) == v, f"e_ident.{k} = {got.get(k)} (ELFCLASS64=2, ELFDATA2LSB=1, EV_CURRENT=1)", ph.file, ph.line)


def dynamic_table(ctx, rep, F):
    """The fixed part of .dynamic is a constant table of (tag, presence condition, value). Each row is compared with the gABI oracle:
    address tags hold vma_of_section(S), size tags the size of the *same* S, optional rows are conditioned on S, no tag twice, DT_NULL last."""
    import os, sys
    sys.path.insert(0, os.path.join(os.path.dirname(os.path.dirname(os.path.abspath(__file__))), "oracles"))
    import dynamic_tags as O
    rep.rule("dynamic-table", "every row of EPILOGUE_DYNAMIC_ENTRY_WRITERS pairs its tag with the section/quantity the gABI assigns to it; address/size pairs name the same section; optional rows are conditioned on that section; tags are unique and DT_NULL terminates the table")
    h = F.hir_body("libwild::elf_writer::EPILOGUE_DYNAMIC_ENTRY_WRITERS")
    if h is None:
        rep.lost("dynamic-table", "elf_writer::EPILOGUE_DYNAMIC_ENTRY_WRITERS")
        return
    rows = []
    for x in fold.walk(h["body"]):
        if x.get("e") == "call" and x["f"].get("e") == "path" and (x["f"].get("def") or "").endswith(("DynamicEntryWriter::optional", "DynamicEntryWriter::new")):
            args = [hirq.skeleton(a, lambda n: None).replace("local:", "") for a in x["args"]]
            rows.append((args, x.get("l")))
    rep.floor("dynamic-table", "rows", len(rows), 40)
    seen = []
    for args, line in rows:
        tag = args[0]
        cond = args[1] if len(args) == 3 else None
        val = args[-1]
        seen.append(tag)
        spec = O.TAGS.get(tag)
        if spec is None:
            rep.ob("dynamic-table", f"{tag}:known", False, f"tag {tag} has no oracle row", h["file"], line)
            continue
        kind, what = spec
        if kind == "addr":
            ok = f"vma_of_section({what})" in val and "size_of_section" not in val
            detail = f"{tag} = {val} (must be the address of {what})"
        elif kind == "size":
            parts = what.split("+")
            ok = all((f"size_of_section({p_})" in val) or (f"get({p_}).mem_size" in val) for p_ in parts) and "vma_of_section" not in val
            detail = f"{tag} = {val} (must be the size of {what})"
        elif kind == "count":
            ok = f"get({what}).mem_size" in val and "/" in val
            detail = f"{tag} = {val} (must be the number of entries of {what})"
        else:
            ok = what in val
            detail = f"{tag} = {val} (expected {what})"
        rep.ob("dynamic-table", f"{tag}:value", ok, detail, h["file"], line)
        if cond is not None and kind in ("addr", "size") and tag not in ("DT_PLTGOT", "DT_RELA", "DT_RELASZ"):
            sec = what.split("+")[0]
            rep.ob("dynamic-table", f"{tag}:condition", f"({sec})" in cond, f"present when {cond} (must test {sec})", h["file"], line)
        if tag in O.FLAG_BITS:
            rep.ob("dynamic-table", f"{tag}:condition", O.FLAG_BITS[tag] in (cond or ""), f"present when {cond} (must test {O.FLAG_BITS[tag]})", h["file"], line)
    dup = sorted({t for t in seen if seen.count(t) > 1})
    rep.ob("dynamic-table", "unique-tags", not dup, f"duplicate tags: {dup}", h["file"], h["line"])
    rep.ob("dynamic-table", "null-last", bool(seen) and seen[-1] == "DT_NULL" and seen.count("DT_NULL") == 1, f"last row is {seen[-1] if seen else None}", h["file"], h["line"])
    for a, b in (("DT_INIT_ARRAY", "DT_INIT_ARRAYSZ"), ("DT_FINI_ARRAY", "DT_FINI_ARRAYSZ"), ("DT_PREINIT_ARRAY", "DT_PREINIT_ARRAYSZ"), ("DT_STRTAB", "DT_STRSZ"),
                 ("DT_JMPREL", "DT_PLTRELSZ"), ("DT_RELA", "DT_RELASZ"), ("DT_RELR", "DT_RELRSZ")):
        rep.ob("dynamic-table", f"pair:{a}", a in seen and b in seen, f"{a} and {b} are both present in the table", h["file"], h["line"])


def segment_start_congruence(ctx, rep, F, P):
    """p_offset ≡ p_vaddr (mod p_align) needs the file offset at the start of every LOAD segment to be made congruent to the address modulo
    the *segment's* alignment (page size or the largest section alignment inside it, the value written to p_align), on the explicit-address
    path (--section-start / script address) as well as on the default path. Congruence modulo the page size alone is not enough when a
    later section of the segment is aligned to more than a page."""
    from mir import callee_key, declared_key
    rep.rule("segment-start-congruence", "in layout_section_parts the alignment used to place the file offset at a LOAD segment start (align_modulo / align_load_segment_start) "
             "derives from compute_segment_alignments, i.e. from the segment's own alignment, on every path")
    b = F.body("libwild::layout::layout_section_parts")
    if b is None:
        rep.lost("segment-start-congruence", "layout::layout_section_parts")
        return
    flow = P.flow(b)
    n = 0
    for bi, t in flow.calls():
        k = (callee_key(t["f"]) or "") + "|" + (declared_key(t["f"]) or "")
        if "Alignment::align_modulo" in k:
            arg, what = t["args"][0], "align_modulo"
        elif "align_load_segment_start" in k:
            arg, what = t["args"][1], "align_load_segment_start"
        else:
            continue
        n += 1
        o = flow.deep_origins(arg)
        ok = any(x[0] == "call" and (x[1] or "").endswith("compute_segment_alignments") for x in o)
        srcs = sorted({(x[1] or "").split("::")[-1] for x in o if x[0] == "call"})
        rep.ob("segment-start-congruence", f"{what}#{n}", ok, (f"alignment for {what} derives from the per-segment alignment table" if ok else
               f"the alignment used by {what} at a segment start derives only from {srcs}: the file offset is then congruent to the address modulo the page size, not modulo p_align"), b.file, t["l"])
    rep.floor("segment-start-congruence", "segment-start alignment sites", n, 2)


def segment_alignment(ctx, rep, F, P):
    """p_align of a PT_LOAD must be at least the alignment of every section the segment contains, otherwise the file offset and the address of an
    over-aligned section are aligned up independently and p_offset ≡ p_vaddr (mod p_align) breaks inside the segment. compute_segment_alignments
    keeps the set of LOAD segments that are open while it walks the output order; every kind of segment produces an end event, only LOAD segments
    are in the set, so an end event must remove *its own* id (and nothing when it is not in the set)."""
    import decide
    from mir import place_chain
    rep.rule("segment-alignment", "compute_segment_alignments: a segment joins the active set only on is_load_segment; a SegmentEnd event removes exactly the ending segment's id "
             "(removal keyed by the event's id, not by position); every Section event raises the alignment of every active segment with max()")
    b = F.body("libwild::layout::compute_segment_alignments")
    if b is None:
        rep.lost("segment-alignment", "layout::compute_segment_alignments")
        return
    flow = P.flow(b)
    closures = {c.key: c for c in F.closures_of("libwild::layout::compute_segment_alignments")}
    pushes, removes, walks = [], [], []
    for bi, t in flow.calls():
        ck = callee_key(t["f"]) or ""
        if not t["args"] or "Vec" not in ck and "vec::Vec" not in ck:
            continue
        recv_ty = b.locals[place_chain(flow, t["args"][0])[1] and sorted(place_chain(flow, t["args"][0])[1])[0] or 0]
        if "ProgramSegmentId" not in recv_ty:
            continue
        name = ck.split("::")[-1]
        ev = {a[0]: a[1] for a in decide.atoms_at(P, F, b, bi) if isinstance(a[0], str)}
        arm = ev.get("variant:OrderEvent")
        if name == "push":
            pushes.append((bi, t, arm, ev))
        elif name in ("retain", "remove", "swap_remove", "pop", "truncate", "clear", "drain", "retain_mut", "dedup"):
            removes.append((bi, t, arm, name))
        elif name == "into_iter" or name == "iter":
            walks.append((bi, t, arm))
    rep.ob("segment-alignment", "push:on-load-start", len(pushes) == 1 and pushes[0][2] == frozenset({"SegmentStart"}) and
           any(k.endswith("is_load_segment") and v is True for k, v in pushes[0][3].items()),
           "the only push happens on SegmentStart under is_load_segment()==true", b.file, pushes[0][1]["l"] if pushes else b.line)
    ok_rm = len(removes) >= 1
    detail = []
    for bi, t, arm, name in removes:
        keyed = False
        if name in ("retain", "retain_mut") and len(t["args"]) > 1:
            # the predicate closure must compare against the event's id: it captures a value derived from the event
            for x in flow.origins(t["args"][1]):
                if x[0] == "agg" and str(x[1]) in closures:
                    cl = closures[str(x[1])]
                    cmp_ = [(callee_key(tt["f"]) or "").split("::")[-1] for _b, tt in P.flow(cl).calls()]
                    has_cmp = any(c in ("ne", "eq") for c in cmp_) or any(s_["k"] == "assign" and s_["rv"]["k"] == "bin" and s_["rv"]["op"] in ("Ne", "Eq") for blk in cl.blocks for s_ in blk["s"])
                    keyed = has_cmp
        elif name in ("remove", "swap_remove") and len(t["args"]) > 1:
            keyed = any(x[0] == "call" and (x[1] or "").split("::")[-1] in ("position", "rposition") for x in flow.deep_origins(t["args"][1]))
        detail.append(f"{name} on {sorted(arm) if arm else arm}{' (keyed by the id)' if keyed else ' (positional)'}")
        if arm != frozenset({"SegmentEnd"}) or not keyed:
            ok_rm = False
    rep.ob("segment-alignment", "end:removes-own-id", ok_rm,
           "; ".join(detail) if ok_rm else "; ".join(detail) + " - the end of a non-LOAD segment nested in a LOAD (PT_TLS, PT_GNU_RELRO) would close the enclosing LOAD: "
           "sections after it no longer raise its p_align, and an over-aligned section breaks p_offset ≡ p_vaddr (mod p_align)", b.file, removes[0][1]["l"] if removes else b.line)
    ok_w = any(arm == frozenset({"Section"}) for _bi, _t, arm in walks)
    rep.ob("segment-alignment", "section:walks-active-set", ok_w, "a Section event iterates the active set", b.file, b.line)
    mx = False
    for c in closures.values():
        names = [(callee_key(tt["f"]) or "").split("::")[-1] for _b, tt in P.flow(c).calls()]
        if "max" in names:
            mx = True
    rep.ob("segment-alignment", "section:max", mx, "the per-segment alignment is raised with max(current, section alignment)", b.file, b.line)


def phdr_order(ctx, rep, F, P):
    """gABI: PT_LOAD entries appear in the program header table in ascending p_vaddr order (glibc sizes a DSO's mapping from the first and the last one).
    compute_segment_layout sorts the segments with ProgramSegments::order_key(id, start address) = (type rank, start address)."""
    from mir import place_chain
    rep.rule("phdr-order", "compute_segment_layout sorts the program headers by ProgramSegments::order_key(id, <segment>.sizes.mem_offset); order_key returns "
             "(the definition's type rank, that address unchanged): loadable segments are listed in ascending p_vaddr order even when a section is placed below earlier ones")
    b = F.body("libwild::layout::compute_segment_layout")
    ok_b = next((x for x in F.all_bodies if x.key.endswith("ProgramSegments::order_key")), None)
    if b is None or ok_b is None:
        rep.lost("phdr-order", "layout::compute_segment_layout / ProgramSegments::order_key")
        return
    flow = P.flow(b)
    sorts = [(bi, t) for bi, t in flow.calls() if "sort" in (callee_key(t["f"]) or "").split("::")[-1]]
    rep.ob("phdr-order", "sorted", len(sorts) >= 1, f"{len(sorts)} sort call(s) in compute_segment_layout", b.file, b.line)
    key_ok = False
    detail = "no key closure calling order_key"
    for c in F.closures_of("libwild::layout::compute_segment_layout"):
        cf = P.flow(c)
        for bi, t in cf.calls():
            if (callee_key(t["f"]) or "").endswith("ProgramSegments::order_key"):
                chains = [place_chain(cf, a)[0] for a in t["args"][1:]]
                key_ok = any("mem_offset" in ch for ch in chains)
                detail = f"order_key called with {chains}"
    rep.ob("phdr-order", "key-uses-address", key_ok, detail if key_ok else detail + ": the sort key no longer contains the segment's start address - a section placed (--section-start, "
           "script address) below earlier sections yields PT_LOAD entries out of p_vaddr order", b.file, sorts[0][1]["l"] if sorts else b.line)
    of = P.flow(ok_b)
    addr_param = next((i for i in range(1, ok_b.d["argc"] + 1) if ok_b.locals[i].strip() == "u64"), None)
    comp = None
    for blk in ok_b.blocks:
        for st in blk["s"]:
            if st["k"] == "assign" and st["p"] == [0, []] and st["rv"]["k"] == "agg" and st["rv"]["ak"] == "tuple" and len(st["rv"]["ops"]) == 2:
                comp = st["rv"]["ops"]
    ok2 = comp is not None and addr_param is not None and of.origins(comp[1]) == {("param", addr_param)} and \
        any(x[0] == "call" and (x[1] or "").split("::")[-1] == "order_key" for x in of.origins(comp[0]))
    rep.ob("phdr-order", "order_key-shape", ok2, "order_key = (definition.order_key(), start address)" if ok2 else
           "order_key does not return (type rank, the start address it was given)", ok_b.file, ok_b.line)


def secondary_sections(ctx, rep, F, P):
    """A linker-script output section with several input patterns (`.x : { *(.a) *(.b) }`), .init_array/.fini_array priorities, ... is laid out as a primary
    section followed by *secondary* sections; one section header (the primary's) describes them all. Three genuine defects were repaired in /repo
    (4a5c0be, 9d0e26d, 4990dc6): the primary did not inherit SHF_ALLOC from its secondaries (address 0 when the first pattern matched nothing), its start
    was not aligned for its secondaries (sh_addr not a multiple of sh_addralign), and its size left out alignment padding (header shorter than the data)."""
    import mireval
    import decide
    rep.rule("secondary-attributes", "propagate_section_attributes applies a section's attributes to the section itself and to its primary section (primary_output_section)")
    rep.rule("secondary-alignment", "layout_section_parts aligns a section's first part to max(its own max alignment, the max alignment of the sections whose merge_target it is)")
    rep.rule("merge-extent", "OutputRecordLayout::merge, evaluated from its MIR: for allocated records the merged extent reaches the end of the later record "
             "(padding included), for non-allocated ones sizes add; the alignment is the maximum")
    # (a)
    cls = F.closures_of("libwild::layout::propagate_section_attributes")
    applied = []
    for c in cls:
        cf = P.flow(c)
        for bi, t in cf.calls():
            if (callee_key(t["f"]) or "").endswith("SectionAttributes::apply") or (callee_key(t["f"]) or "").split("::")[-1] == "apply":
                o = cf.origins(t["args"][-1])
                applied.append("primary" if any(x[0] == "call" and (x[1] or "").endswith("primary_output_section") for x in o) else
                               ("self" if all(x[0] == "param" for x in o) and o else "other"))
    rep.ob("secondary-attributes", "both", "self" in applied and "primary" in applied,
           f"attributes are applied to {sorted(applied)}" if "self" in applied and "primary" in applied else
           f"attributes are applied to {sorted(applied)} only: a primary section whose own patterns matched nothing keeps empty flags (no SHF_ALLOC) although its secondaries hold allocated data",
           "libwild/src/layout.rs", cls[0].line if cls else 0)
    # (b)
    b = F.body("libwild::layout::layout_section_parts")
    if b is None:
        rep.lost("secondary-alignment", "layout::layout_section_parts")
    else:
        flow = P.flow(b)
        mt = [(bi, t) for bi, t in flow.calls() if (callee_key(t["f"]) or "").endswith("OutputSections::merge_target")]
        pre_ok = False
        for bi, t in mt:
            # on the Some edge: a max_alignment of the secondary is folded into a per-primary slot
            names = set()
            r = P.cfg(b).reachable_from(t["to"]) if t.get("to") is not None else set()
            for bj, tt in flow.calls():
                if bj in r:
                    names.add((callee_key(tt["f"]) or "").split("::")[-1])
            pre_ok = pre_ok or {"max_alignment", "get_mut", "max"} <= names
        rep.ob("secondary-alignment", "collect", pre_ok, "a pass over the output order records, per primary, the largest alignment among its secondaries", b.file, b.line)
        used = False
        for blk in b.blocks:
            for st in blk["s"]:
                if st["k"] == "assign" and st["rv"]["k"] == "agg" and st["rv"].get("closure"):
                    for o in st["rv"]["ops"]:
                        leaves = {(x[1] or "").split("::")[-1] for x in flow.deep_origins(o) if x[0] == "call"}
                        if "max_alignment" in leaves and "max" in leaves and "get" in leaves:
                            used = True
        rep.ob("secondary-alignment", "used", used, "the alignment the part loop works with is max(own max_alignment, recorded secondary alignment)" if used else
               "the part loop aligns with the section's own max alignment only: an output section whose later patterns need more alignment starts at an address that is not a "
               "multiple of the sh_addralign its header reports", b.file, b.line)
    # (c)
    key = "libwild::layout::OutputRecordLayout::merge"
    mb = F.body(key)
    if mb is None:
        rep.lost("merge-extent", key)
    else:
        cases = [
            # (self, other, is_alloc) -> (mem_size, file_size, alignment exponent)
            ((100, 10, 100, 10, 0), (128, 8, 128, 8, 6), 1, (36, 36, 6)),     # padded secondary
            ((100, 10, 100, 10, 3), (110, 8, 110, 8, 0), 1, (18, 18, 3)),     # contiguous
            ((100, 10, 100, 10, 0), (128, 8, 110, 0, 6), 1, (36, 10, 6)),     # NOBITS secondary
            ((100, 10, 100, 10, 3), (128, 0, 128, 0, 6), 1, (10, 10, 3)),     # empty secondary changes nothing
            ((0, 10, 500, 10, 0), (0, 8, 510, 8, 2), 0, (18, 18, 2)),         # non-allocated: sizes add (offsets are per section)
        ]
        bad = None
        argc = mb.d["argc"]
        try:
            for (mo, ms, fo, fs, ae), (omo, oms, ofo, ofs, oae), alloc, want in cases:
                me = {"file_size": fs, "mem_size": ms, "alignment": {"exponent": ae}, "file_offset": fo, "mem_offset": mo}
                ot = {"file_size": ofs, "mem_size": oms, "alignment": {"exponent": oae}, "file_offset": ofo, "mem_offset": omo}
                mireval.call(F, key, [me, ot, alloc][:argc])
                got = (me["mem_size"], me["file_size"], me["alignment"]["exponent"])
                if got != want and bad is None:
                    bad = ((mo, ms, fo, fs), (omo, oms, ofo, ofs), alloc, got, want)
        except (mireval.EvalError, mireval.Panic, KeyError, TypeError) as ex:
            rep.ob("merge-extent", "evaluated", False, f"merge could not be tabulated: {type(ex).__name__}: {ex}", mb.file, mb.line)
            return
        rep.ob("merge-extent", "table", bad is None, f"{len(cases)} cases agree" if bad is None else
               f"merging {bad[1]} (mem_offset, mem_size, file_offset, file_size) into {bad[0]} with is_alloc={bad[2]} gives (mem_size, file_size, align) = {bad[3]}, expected {bad[4]}: "
               "the section header does not cover its last input section / its padding", mb.file, mb.line)
