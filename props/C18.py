"""C18 — a failed link leaves no output file produced by that link.

Decided statically: the value that owns the output path (`file_writer::Output`) deletes the file
when it is dropped after creation started and before writing completed; it is owned by value by the
function that links, so every error exit drops it; `completed` is only set after the last fallible
write step succeeded; `creation_started` is set before anything touches the path; the cleanup waits
for the background creator before unlinking; nothing leaks the value or exits the process while it
is live."""
from mir import (switch_source_call, switch_bool_labels, switch_predicate, callee_key, declared_key, stable, success_blocks, bool_edge_blocks, uses_of_local,
                 op_place, op_const, is_transparent, place_chain, direct_call_of_switch, blocks_calling)

EXPLANATION = ("type facts (Drop impl), must-pass-through and edge-dominance over MIR: cleanup-on-drop of the "
               "output owner, placement of the completed/creation_started flag stores, ownership and liveness "
               "of the owner in the linking function")

OUT = "libwild::file_writer::Output"
FS_TOUCH = {"std::fs::OpenOptions::open", "std::fs::File::create", "std::fs::remove_file", "std::fs::rename",
            "std::fs::File::set_len", "std::fs::write"}
# writers of user-requested side files (layout file, trace file): not the output path
SIDE_FILE_WRITERS = {"libwild::file_writer::write_layout", "libwild::output_trace::TraceOutput::close",
                     "libwild::output_trace::TraceOutput::new"}
EXITS = {"std::process::exit", "std::process::abort", "libc::_exit", "libc::exit"}
LEAKS = {"std::mem::forget", "std::mem::ManuallyDrop::new", "std::boxed::Box::leak", "std::boxed::Box::into_raw"}


def atomic_field(flow, t):
    """field of `self` an Atomic::load/store call operates on"""
    if not t["args"]:
        return None
    fields, _roots = place_chain(flow, t["args"][0])
    for f in fields:
        if f in ("completed", "creation_started"):
            return f
    return None


def run(ctx, rep):
    F = ctx.facts()
    P = ctx.program()
    rep.rule("drop-impl", "the output owner implements Drop, and its drop unlinks the output path")
    rep.rule("drop-guards", "the unlink in drop can only be bypassed by: completed==true, creation_started==false, or the path not being a regular file")
    rep.rule("drop-waits", "on the background-creator variant the unlink is preceded by a recv on the creation channel (no race with creation)")
    rep.rule("completed-store", "`completed` is stored (true) only in Output::write, after write_fn, flush and trace.close succeeded")
    rep.rule("started-store", "every call in Output's methods that can touch the path is dominated by the creation_started store")
    rep.rule("owner", "Output is constructed only in the linking function, kept in a by-value local, dropped on every exit path, never leaked, and no process exit is reachable while it is live")

    adt = F.adt(OUT)
    if adt is None:
        raise_lost(rep, "drop-impl", OUT)
        return
    drop_key = f"<{OUT} as std::ops::Drop>::drop"
    d = F.body(drop_key)
    has_impl = any(i["trait"] == "std::ops::Drop" and i["self_ty"].startswith(OUT) for i in F.impls())
    rep.ob("drop-impl", "impl Drop for Output", has_impl and d is not None,
           "without a Drop impl nothing removes a partially written output on the error exits of the link (layout errors after set_size, ASSERT failures, write errors)",
           adt["file"], adt["line"])
    if d is not None:
        check_drop(rep, P, d)

    # ---- completed-store / started-store ------------------------------------------------------
    n_completed = 0
    n_started = 0
    for b in F.all_bodies:
        flow = P.flow(b)
        for bi, t in flow.calls():
            ck = callee_key(t["f"])
            if ck in ("std::sync::atomic::Atomic::store", "std::sync::atomic::AtomicBool::store", "std::sync::atomic::Atomic::swap", "std::sync::atomic::Atomic::fetch_or"):
                fld = atomic_field(flow, t)
                if fld == "completed" and b.locals and "file_writer::Output" in "".join(b.locals[1:2]):
                    n_completed += 1
                    check_completed_store(rep, P, b, bi, t)
                elif fld == "creation_started" and "file_writer::Output" in "".join(b.locals[1:2]):
                    n_started += 1
    if has_impl:
        rep.ob("completed-store", "sites", n_completed >= 1, f"{n_completed} store(s) to Output.completed")
        check_started(rep, P, F)

    # ---- owner ---------------------------------------------------------------------------------
    makers = P.callers_of(lambda k: k == OUT + "::new")
    rep.floor("owner", "callers of Output::new", len(makers), 1)
    for b, bi, t in makers:
        rep.ob("owner", f"maker:{stable(b.key)}", b.key == "libwild::Linker::load_inputs_and_link",
               "Output is constructed by the linking function only", b.file, t["l"])
        check_owner(rep, P, b, bi, t)
    # aggregate construction of Output outside Output::new
    for b in F.all_bodies:
        for blk in b.blocks:
            for s in blk["s"]:
                if s["k"] == "assign" and s["rv"]["k"] == "agg" and s["rv"].get("adt", "").startswith(OUT) and s["rv"].get("adt", "").rstrip(">").split("<")[0] == OUT:
                    rep.ob("owner", f"literal:{stable(b.key)}", b.key == OUT + "::new",
                           "Output { .. } literal outside Output::new", b.file, s["l"])
    rep.assume("SIGKILL and power loss are outside the property's reach (nothing can run)")
    rep.assume("diff::maybe_diff (developer tool, env-gated) runs after the output is complete; its failure leaves the complete output in place by design")


def raise_lost(rep, rule, what):
    rep.lost(rule, what)


def check_drop(rep, P, d):
    cfg, flow = P.cfg(d), P.flow(d)
    removes = [bi for bi, t in flow.calls() if callee_key(t["f"]) == "std::fs::remove_file"]
    rep.ob("drop-impl", "drop-unlinks", bool(removes), "Output::drop reaches fs::remove_file", d.file, d.line)
    if not removes:
        return
    R = removes[0]
    t = d.blocks[R]["t"]
    fields, _ = place_chain(flow, t["args"][0])
    rep.ob("drop-impl", "unlink-path", "path" in fields, f"the unlinked path is self.path (fields on the way: {fields})", d.file, t["l"])
    # guards: every switch with one edge that can reach R and another that cannot
    can = {b for b in cfg.reach if R in cfg.reachable_from(b)}
    for sb in sorted(cfg.reach):
        term = d.blocks[sb]["t"]
        if term["k"] != "switch" or sb not in can:
            continue
        outs = cfg.succ[sb]
        bypass = [lab for lab, tgt in outs if tgt not in can]
        if not bypass:
            continue
        # what does it test?
        src = switch_source_call(d, flow, sb)
        labels = switch_bool_labels(d, flow, cfg, sb)
        desc = "non-call value"
        ok = False
        if src and src[0].endswith("::load"):
            fld = atomic_field(flow, src[2])
            desc = f"load({fld})"
            vals = {labels.get(lab) for lab in bypass}
            if fld == "completed":
                ok = vals == {True}
            elif fld == "creation_started":
                ok = vals == {False}
        elif src and src[0] in ("std::result::Result::is_ok_and", "std::fs::FileType::is_file", "std::fs::Metadata::is_file"):
            desc = "regular-file test"
            ok = {labels.get(lab) for lab in bypass} == {False}
        elif src:
            desc = f"result of {src[0]}"
        rep.ob("drop-guards", f"guard:{desc}", ok,
               f"a branch in Output::drop can bypass the unlink; tested value: {desc}; bypassing outcome(s) {[labels.get(l) for l in bypass]}", d.file, term.get("l"))
    # flags both tested
    loads = set()
    for bi, tt in flow.calls():
        if callee_key(tt["f"]).endswith("::load"):
            loads.add(atomic_field(flow, tt))
    rep.ob("drop-guards", "tests-completed", "completed" in loads, "drop reads the completed flag (otherwise it would delete successful outputs)", d.file, d.line)
    # ---- waits for the creator
    recvs = [bi for bi, tt in flow.calls() if callee_key(tt["f"]) in ("std::sync::mpsc::Receiver::recv", "std::sync::mpsc::Receiver::recv_timeout", "std::thread::JoinHandle::join")]
    if not recvs:
        rep.ob("drop-waits", "recv", False, "drop unlinks without waiting for the background creator: remove_file can run before the creator's open(create) and the file reappears", d.file, d.line)
        return
    # the discriminant switch on self.creator
    found = False
    for sb in sorted(cfg.reach):
        term = d.blocks[sb]["t"]
        if term["k"] != "switch":
            continue
        info = switch_predicate(d, flow, sb)
        if not info["discr_of"]:
            continue
        chain, _roots = place_chain(flow, ["c", info["discr_of"]])
        if "creator" not in chain:
            continue
        found = True
        # Background = variant 0
        for lab, tgt in cfg.succ[sb]:
            if lab == 0:
                reach_wo_recv = cfg.reachable_from(tgt, avoid=recvs)
                rep.ob("drop-waits", "background-arm", R not in reach_wo_recv,
                       "on the Background arm every path to the unlink passes the recv on the creation channel", d.file, term["l"])
    if not found:
        rep.lost("drop-waits", "switch on self.creator in Output::drop")


def origin_locals(flow, op):
    out = set()
    pl = op_place(op)
    seen = set()
    st = [pl[0]] if pl else []
    while st:
        l = st.pop()
        if l in seen:
            continue
        seen.add(l)
        out.add(l)
        for bi, si, lproj, payload in flow.defs.get(l, []):
            if si == "call":
                continue
            rv = payload
            if rv["k"] in ("use", "cast", "un"):
                p2 = op_place(rv["a"])
                if p2:
                    st.append(p2[0])
    return out


def check_completed_store(rep, P, b, bi, t):
    cfg, flow = P.cfg(b), P.flow(b)
    in_write = b.key == OUT + "::write"
    rep.ob("completed-store", f"where:{stable(b.key)}", in_write, "Output.completed is stored only in Output::write", b.file, t["l"])
    c = op_const(t["args"][1]) if len(t["args"]) > 1 else None
    rep.ob("completed-store", "value-true", c is not None and c.get("val") == 1, "stored value is the constant true", b.file, t["l"])
    if not in_write:
        return
    # success of flush, trace.close and the indirect write_fn call
    for callee in ("libwild::file_writer::SizedOutput::flush", "libwild::output_trace::TraceOutput::close"):
        okb, _ = success_blocks(b, flow, cfg, lambda k, c=callee: k == c)
        rep.ob("completed-store", f"after-ok:{callee.split('::')[-1]}", bi in okb,
               f"the store is on the success edge of {callee}", b.file, t["l"])
    okb, _ = success_blocks(b, flow, cfg, lambda k: k is not None and ("FnOnce" in k and "call_once" in k))
    rep.ob("completed-store", "after-ok:write_fn", bi in okb, "the store is on the success edge of write_fn (the section writers)", b.file, t["l"])
    # the mapping has been dropped (unmapped) before: a Drop of SizedOutput dominates
    dom = cfg.dom()
    drops = [i for i in cfg.reach if b.blocks[i]["t"]["k"] in ("drop",) and "SizedOutput" in b.locals[b.blocks[i]["t"]["p"][0]]]
    drops += [i for i, tt in flow.calls() if callee_key(tt["f"]) == "std::mem::drop" and tt["args"] and op_place(tt["args"][0]) and "SizedOutput" in b.locals[op_place(tt["args"][0])[0]]]
    rep.ob("completed-store", "after-unmap", any(i in dom.get(bi, ()) for i in drops),
           "the store comes after the SizedOutput (mapping + file) has been dropped", b.file, t["l"])


def check_started(rep, P, F):
    """In Output::set_size and Output::write: calls that (transitively, incl. spawned closures) touch the
    filesystem are dominated by a creation_started store."""
    for key in (OUT + "::set_size", OUT + "::write"):
        b = F.body(key)
        if b is None:
            rep.lost("started-store", key)
            continue
        cfg, flow = P.cfg(b), P.flow(b)
        dom = cfg.dom()
        stores = [bi for bi, t in flow.calls() if callee_key(t["f"]).endswith("::store") and atomic_field(flow, t) == "creation_started"]
        n = 0
        for bi, t in flow.calls():
            ks = P.callees_of_call(t)
            # closures passed as arguments count as may-call
            for a in t["args"]:
                pl = op_place(a)
                if pl:
                    ty = b.locals[pl[0]]
                    if "{closure" in ty:
                        for cb in F.closures_of(b.key):
                            if cb.path.split("::")[-1] in ty or True:
                                ks = ks | {cb.key}
            touches = None
            for k in ks:
                if k in FS_TOUCH:
                    touches = [k]
                    break
                # exclude the layout side file writer (not the output path)
                if k in SIDE_FILE_WRITERS:
                    continue
                p = P.reaches(k, lambda x: x in FS_TOUCH, bound=5)
                if p:
                    touches = p
                    break
            if touches:
                n += 1
                ok = any(s in dom.get(bi, ()) and s != bi for s in stores)
                rep.ob("started-store", f"{key.split('::')[-1]}:{stable(callee_key(t['f']) or 'indirect')}", ok,
                       f"call can touch the output path via {' -> '.join(map(str, touches))}; it must come after creation_started.store(true)", b.file, t["l"])
        if n == 0:
            rep.lost("started-store", f"no path-touching call found in {key}")


def check_owner(rep, P, b, bi, t):
    cfg, flow = P.cfg(b), P.flow(b)
    out_local = t["dest"][0]
    ty = b.locals[out_local]
    rep.ob("owner", "by-value-local", ty == OUT and not t["dest"][1], f"Output is bound to a by-value local (type {ty})", b.file, t["l"])
    # never moved out
    moved = []
    for bj, blk in enumerate(b.blocks):
        if blk.get("cleanup"):
            continue
        for s in blk["s"]:
            if s["k"] == "assign":
                rv = s["rv"]
                if rv["k"] == "use" and rv["a"][0] == "m" and rv["a"][1][0] == out_local and not rv["a"][1][1]:
                    moved.append(s["l"])
                if rv["k"] == "agg" and any(o[0] == "m" and o[1][0] == out_local and not o[1][1] for o in rv["ops"]):
                    moved.append(s["l"])
        tt = blk["t"]
        if tt["k"] == "call":
            for a in tt["args"]:
                if a[0] == "m" and a[1][0] == out_local and not a[1][1]:
                    moved.append(tt["l"])
    rep.ob("owner", "never-moved", not moved, f"the Output local is never moved out of the linking function (moves at lines {moved})", b.file, t["l"])
    # every return reachable from the construction passes a drop of the local
    drops = [i for i in cfg.reach if b.blocks[i]["t"]["k"] == "drop" and b.blocks[i]["t"]["p"][0] == out_local and not b.blocks[i]["t"]["p"][1]]
    start = t["to"]
    reach_wo = cfg.reachable_from(start, avoid=drops)
    bad_exits = [e for e in cfg.exits() if e in reach_wo]
    rep.ob("owner", "dropped-on-every-exit", not bad_exits and bool(drops),
           f"every path from Output::new to a return passes drop(output) ({len(drops)} drop sites)", b.file, t["l"])
    # liveness: no exit / leak reachable from calls made while it is live
    live = cfg.reachable_from(start, avoid=drops)
    n = 0
    for bj in sorted(live):
        tt = b.blocks[bj]["t"]
        if tt["k"] != "call":
            continue
        n += 1
        for k in P.callees_of_call(tt):
            if k in EXITS or k == "libwild::error::report_error_and_exit":
                rep.ob("owner", f"live-exit:{k}", False, "process exit while the Output is live skips its cleanup", b.file, tt["l"])
            if k in LEAKS and any(op_place(a) and op_place(a)[0] == out_local for a in tt["args"]):
                rep.ob("owner", f"leak:{k}", False, "the Output is leaked: its Drop never runs", b.file, tt["l"])
    rep.count("calls-while-output-live", n)
    # transitive exits reachable from the calls made while live (bounded, reported with the path)
    seen_roots = set()
    for bj in sorted(live):
        tt = b.blocks[bj]["t"]
        if tt["k"] != "call":
            continue
        for k in P.callees_of_call(tt):
            if k in seen_roots or not k.startswith(("libwild::", "<libwild::")):
                continue
            seen_roots.add(k)
            p = P.reaches(k, lambda x: x in EXITS, bound=None)
            rep.ob("owner", f"live-reach-exit:{stable(k)}", p is None,
                   ("no process exit reachable" if p is None else "process exit reachable while Output is live: " + " -> ".join(p)), b.file, tt["l"])
