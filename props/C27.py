"""C27 — partial links are transparent (NARROW PARTIAL).

"Links the same" is a relation between two complete links and is not decided. What is decided is how the
-r writer carries each relocation record into the relocatable output - necessary conditions, each visible in
the shape of write_rela_sections and write_object_section:

  * the relocation *type* written is the input record's raw type, unchanged;
  * r_offset is the input offset plus the output address of the section the record applies to;
  * the addend is the input addend, plus the section's output address exactly when the referenced symbol is a
    section symbol (STT_SECTION) - the only symbols whose value changes meaning when sections are merged;
  * the symbol index is looked up in the output symbol-index map under the input symbol's own id and, failing
    that, under its canonical definition;
  * one output record per input record (RELA and CREL inputs alike go through the same writer);
  * with -r, section bytes are copied raw: apply_relocations is unreachable (a relocation applied now *and*
    kept for the final link would be applied twice), and .rela inputs are not copied as ordinary sections.

Not decided: that build_sym_index_map numbers symbols in the order the symbol-table writer emits them, section
merging/COMDAT/group handling under -r, and everything the final link does."""
from mir import callee_key, op_const, op_place, expr_tree, render, simplify
import decide

EXPLANATION = ("value-flow (def-use) of the fields of each output relocation record back to the input record's accessors, guarded-effect rule on the "
               "section-symbol addend adjustment, unreachability of apply_relocations under should_output_partial_object()")

W = "libwild::elf_writer::"


def _tree(P, b, op, depth=7):
    return render(simplify(expr_tree(P, b, op, depth=depth, expand_params=0)))


def run(ctx, rep):
    F = ctx.facts()
    P = ctx.program()
    rep.rule("record-fields", "in write_rela_sections' record writer: r_offset = section address + input offset, r_type = input raw type (parameter passed through), "
             "r_addend = input addend (+ section address only for STT_SECTION symbols), r_sym from sym_index_map[own id] or [canonical id]")
    rep.rule("record-source", "every call of the record writer passes rel.offset(), rel.symbol(), rel.raw_type(), rel.addend() of one input record, for RELA and CREL lists alike")
    rep.rule("partition-agreement", "build_sym_index_map splits symbols into the local and the global half of .symtab with the same predicate the symbol writer "
             "(SymbolTableWriter::copy_symbol_shndx / copy_absolute_symbol) uses: ValueFlags::is_symtab_local - otherwise every index after a symbol the two classify differently is off by one")
    rep.rule("raw-copy", "in write_object_section, apply_relocations is reached only when should_output_partial_object() is false, and relocation sections are skipped under -r")

    ws = F.body(W + "write_rela_sections")
    if ws is None:
        rep.lost("record-fields", "elf_writer::write_rela_sections")
        return
    closures = F.closures_of(W + "write_rela_sections")
    writer = None
    for c in closures:
        names = {(callee_key(t["f"]) or "").split("::")[-1] for _bi, t in P.flow(c).calls()}
        if "set_r_info" in names:
            writer = c
    if writer is None:
        rep.lost("record-fields", "the closure calling set_r_info")
        return
    flow = P.flow(writer)
    # closure params: _1 = env, _2.. = (offset, sym, r_type, addend) - identify by type
    params = {i: writer.locals[i] for i in range(1, writer.d["argc"] + 1)}
    by_ty = {}
    for i, ty in params.items():
        by_ty.setdefault(ty.strip(), []).append(i)
    p_offset = (by_ty.get("u64") or [None])[0]
    p_type = (by_ty.get("u32") or [None])[0]
    p_addend = (by_ty.get("i64") or [None])[0]
    p_sym = next((i for i, ty in params.items() if "SymbolIndex" in ty), None)
    rep.ob("record-fields", "signature", None not in (p_offset, p_type, p_addend, p_sym),
           f"writer parameters: offset=_{p_offset} sym=_{p_sym} r_type=_{p_type} addend=_{p_addend}", writer.file, writer.line)
    if None in (p_offset, p_type, p_addend, p_sym):
        return

    def params_of(op):
        return {x[1] for x in flow.deep_origins(op) if x[0] == "param"}

    def calls_of(op):
        return {(x[1] or "").split("::")[-1] for x in flow.deep_origins(op) if x[0] == "call"}

    n_sets = 0
    for bi, t in flow.calls():
        ck = callee_key(t["f"]) or ""
        if ck.endswith("Rela64::set_r_info"):
            n_sets += 1
            # args: self, endian, is_mips64el, r_sym, r_type
            ty_op, sym_op = t["args"][-1], t["args"][-2]
            tp = params_of(ty_op)
            tc = calls_of(ty_op)
            direct = op_place(ty_op) is not None and flow.origins(ty_op) == {("param", p_type)}
            rep.ob("record-fields", "type-unchanged", direct,
                   "r_type is the r_type parameter itself" if direct else f"r_type derives from params {sorted(tp)} through {sorted(tc)}: the relocation type is altered on the way", writer.file, t["l"])
            sp = params_of(sym_op)
            rep.ob("record-fields", "symbol-from-map", p_sym in sp and p_type not in sp and p_addend not in sp, f"r_sym derives from the sym parameter (params {sorted(sp)})", writer.file, t["l"])
        elif ck.endswith("U64::set"):
            n_sets += 1
            v = _tree(P, writer, t["args"][-1])
            vp = params_of(t["args"][-1])
            # the other summand is a captured variable (_1.N): find what the enclosing function captured at that position
            import re
            cap = None
            m = re.search(r"_1\.(\d+)", v)
            if m:
                idx = int(m.group(1))
                for blk in ws.blocks:
                    for st in blk["s"]:
                        if st["k"] == "assign" and st["rv"]["k"] == "agg" and (st["rv"].get("closure") or "") == writer.key and idx < len(st["rv"]["ops"]):
                            cap = sorted({(x[1] or "").split("::")[-1] for x in P.flow(ws).deep_origins(st["rv"]["ops"][idx]) if x[0] == "call"})
            base_ok = ("section_address" in v) or (cap is not None and "address" in cap and "index" in cap)
            ok = p_offset in vp and "Add(" in v and base_ok and p_addend not in vp
            rep.ob("record-fields", "offset", ok, f"r_offset = {v}" + (f" where the captured summand derives from {cap}" if cap else ""), writer.file, t["l"])
        elif ck.endswith("I64::set"):
            n_sets += 1
            vp = params_of(t["args"][-1])
            ok = p_addend in vp and p_offset not in vp
            rep.ob("record-fields", "addend", ok, f"r_addend derives from the addend parameter (params {sorted(vp)}; the sym parameter only selects the section-symbol adjustment)", writer.file, t["l"])
    rep.floor("record-fields", "field stores in the record writer", n_sets, 3)

    # the symbol lookup closure and the section-symbol closure
    sym_cl = sec_cl = None
    for c in F.closures_of(writer.key):
        names = {(callee_key(t["f"]) or "").split("::")[-1] for _bi, t in P.flow(c).calls()}
        if "definition" in names and "input_to_id" in names:
            sym_cl = c
        if "st_type" in names:
            sec_cl = c
    if sym_cl is None:
        rep.lost("record-fields", "symbol lookup closure (input_to_id + definition)")
    else:
        f2 = P.flow(sym_cl)
        gets = [(bi, t) for bi, t in f2.calls() if (callee_key(t["f"]) or "").endswith("slice::get")]
        own = canon = 0
        for bi, t in gets:
            o = f2.deep_origins(t["args"][-1])
            names = {(x[1] or "").split("::")[-1] for x in o if x[0] == "call"}
            if "definition" in names:
                canon += 1
            elif "input_to_id" in names:
                own += 1
        rep.ob("record-fields", "symbol-lookup", own == 1 and canon == 1, f"sym_index_map is consulted under the symbol's own id ({own}) and under its canonical definition ({canon})", sym_cl.file, sym_cl.line)
    if sec_cl is None:
        rep.lost("record-fields", "section-symbol closure (st_type)")
    else:
        f3, cfg3 = P.flow(sec_cl), P.cfg(sec_cl)
        addr = [bi for bi, t in f3.calls() if (callee_key(t["f"]) or "").endswith("SectionResolution::address")]
        ok = False
        why = "no SectionResolution::address call"
        for bi in addr:
            at = decide.atoms_at(P, F, sec_cl, bi)
            ats = {str(a[0]): a[1] for a in at}
            # st_type() != STT_SECTION returns None: the address is reached on the equality edge
            hit = [k for k in ats if "st_type" in k]
            # the section's address is read on the st_type() == STT_SECTION (3) side of the comparison
            ok = any(("Ne(" in k and ats[k] is False) or ("Eq(" in k and ats[k] is True) for k in hit if k.rstrip(")").endswith(", 3"))
            why = f"guard atoms at the address read: { {k: ats[k] for k in hit} }"
        consts = {(op_const(s["rv"].get("b") or s["rv"].get("a") or ["k", {}]) or {}).get("def") for blk in sec_cl.blocks for s in blk["s"] if s["k"] == "assign" and s["rv"]["k"] == "bin"}
        is_section = any(str(c).endswith("STT_SECTION") for c in consts if c)
        rep.ob("record-fields", "section-symbol-only", ok and is_section, f"the section address is added only after comparing st_type() with STT_SECTION; {why}", sec_cl.file, sec_cl.line)

    # ---- record-source ---------------------------------------------------------------------------------------------------------------------
    flow_ws = P.flow(ws)
    n_calls = 0
    for bi, t in flow_ws.calls():
        ck = callee_key(t["f"]) or ""
        if ck == writer.key or (ck.endswith("FnMut>::call_mut") and False):
            pass
    # closure invocations appear as direct calls of the closure body
    for bi, t in flow_ws.calls():
        ck = callee_key(t["f"]) or ""
        if ck != writer.key:
            continue
        n_calls += 1
        # the argument tuple / individual args
        srcs = []
        for a in t["args"][1:]:
            srcs.append(sorted({(x[1] or "").split("::")[-1] for x in flow_ws.deep_origins(a) if x[0] == "call" and (x[1] or "").split("::")[-1] in ("offset", "symbol", "raw_type", "addend")}))
        flat = sorted({y for x in srcs for y in x})
        rep.ob("record-source", f"call#{n_calls}", flat == ["addend", "offset", "raw_type", "symbol"], f"record writer called with {srcs}", ws.file, t["l"])
    rep.floor("record-source", "calls of the record writer (RELA list, CREL list)", n_calls, 2)

    # ---- raw-copy ----------------------------------------------------------------------------------------------------------------------------
    wo = F.body(W + "write_object_section")
    if wo is None:
        rep.lost("raw-copy", "elf_writer::write_object_section")
    else:
        f4, cfg4 = P.flow(wo), P.cfg(wo)
        ap = [(bi, t) for bi, t in f4.calls() if (callee_key(t["f"]) or "").endswith("apply_relocations")]
        rep.floor("raw-copy", "apply_relocations call sites in write_object_section", len(ap), 1)
        for n, (bi, t) in enumerate(ap):
            at = {str(a[0]): a[1] for a in decide.atoms_at(P, F, wo, bi)}
            ok = any(k.endswith("should_output_partial_object") and v is False for k, v in at.items())
            rep.ob("raw-copy", f"apply-only-without-r#{n}", ok, "apply_relocations lies on the should_output_partial_object()==false edge", wo.file, t["l"])
        raw = {bi for bi, t in f4.calls() if (callee_key(t["f"]) or "").endswith("write_section_raw")}
        if not raw:
            rep.lost("raw-copy", "write_section_raw call")
        else:
            paths = decide.bool_paths(P, F, wo, targets=raw)
            ok, why = decide.check_formula(paths, {"partial": "should_output_partial_object", "rela": "is_rela(", "rel": "is_rel("},
                                           lambda v: not (v["partial"] and (v["rela"] or v["rel"])))
            rep.ob("raw-copy", "rela-inputs-skipped", ok, f"the raw copy is reached iff !(partial && (is_rela || is_rel)): {why}", wo.file, wo.line)
    _partition_agreement(rep, P, F)
    rep.assume("symbol numbering agreement between build_sym_index_map and the symbol-table writer, and the behaviour of the final link, are not decided")


def _partition_agreement(rep, P, F):
    b = F.body(W + "build_sym_index_map")
    if b is None:
        rep.lost("partition-agreement", "elf_writer::build_sym_index_map")
        return
    full = decide.all_edge_atoms_full(P, F, b)
    preds = sorted({str(a).split("(")[0].replace("call:", "") for (a, _t) in full.values() if "local" in str(a).split("(")[0].lower()})
    rep.ob("partition-agreement", "map-predicate", preds == ["ValueFlags::is_symtab_local"], f"build_sym_index_map decides local/global with {preds}", b.file, b.line)
    writers = []
    for key in ("SymbolTableWriter::copy_symbol_shndx", "SymbolTableWriter::copy_absolute_symbol"):
        w = F.body(W + key)
        if w is None:
            rep.lost("partition-agreement", key)
            continue
        wf = P.flow(w)
        uses = []
        for _bi, t in wf.calls():
            if (callee_key(t["f"]) or "").endswith("SymbolTableWriter::define_symbol") and len(t["args"]) > 1:
                uses = sorted({(x[1] or "").split("::")[-1] for x in wf.origins(t["args"][1]) if x[0] == "call"})
        writers.append(uses)
        rep.ob("partition-agreement", f"writer:{key.split('::')[-1]}", uses == ["is_symtab_local"], f"{key} passes is_local = {uses} to define_symbol", w.file, w.line)
