"""C32 — symbol versions follow the version script (structural clauses).

Which pattern matches which runtime string is delegated to the glob crate and hash sets: not decided; neither are the
contents of the verdef/verneed tables. Decided on RegularVersionScript::find_match / is_local / version_for_symbol:
 * matching precedence (GNU ld / lld): phase 1 exact patterns, versions visited first-to-last (first wins); phase 2 glob
   patterns, versions visited last-to-first, non-`*` globs in an earlier pass than `*` globs; phase 3 match-all, last-to-first;
   no phase is re-entered after a later one started;
 * inside one version, `global:` is tested before `local:`; the true edge of a test on `globals` yields Global and on `locals`
   yields Local; `general` rules are tested on the plain name (mangled=false), `extern "C++"` rules on the demangled name;
 * the version index returned is the index of the version being visited;
 * is_local(name) is `find_match(name)` landing in the Local section; the symbol loader downgrades exactly on that edge and a
   downgraded symbol is never exported (shared with C31);
 * version_for_symbol: implicit version 0 -> None, version i -> i + VER_NDX_GLOBAL; an explicit `@ver` goes through the name map
   + VER_NDX_GLOBAL, an empty one is VER_NDX_GLOBAL, an unknown one is an error."""
import decide
from mir import callee_key, op_const, stable, expr_tree, render, op_place

EXPLANATION = ("structural rules over the MIR of RegularVersionScript::find_match (loop direction from the resolved iterator type, phase "
               "ordering by reachability, receiver/variant pairing on predicate true edges, constant arguments), value-flow of the returned "
               "index, truth-table / edge rules on is_local, should_downgrade_to_local and version_for_symbol")
V = "libwild::version_script::"


def first_section_after(body, cfg, start, limit=12):
    """The VersionRuleSection variant constructed on the straight-line continuation of `start` (no branching), if any."""
    cur = start
    for _ in range(limit):
        blk = body.blocks[cur]
        for s in blk["s"]:
            if s["k"] == "assign" and s["rv"]["k"] == "agg" and (s["rv"].get("adt") or "").endswith("VersionRuleSection"):
                return s["rv"]["variant"], cur
        succ = [t for _l, t in cfg.succ[cur]]
        if len(succ) != 1:
            return None, cur
        cur = succ[0]
    return None, cur


def exact_sets(rep, P, F):
    import decide
    b = F.body("libwild::version_script::BasicMatchRules::matches_exact")
    if b is None:
        rep.lost("exact-sets", "BasicMatchRules::matches_exact")
        return
    paths = decide.bool_paths(P, F, b)
    varmap = {"e_empty": "is_empty(self.exact)", "x_empty": "is_empty(self.escaped_exact)", "c_name": "contains(self.exact, lookup.name",
              "c_dem": "contains(self.exact, prehashed", "c_esc": "contains(self.escaped_exact", "mangled": "place:mangled"}
    dom = decide.table_atoms(paths)
    # the is_empty() tests are only shortcuts (contains() of an empty set is false): a tree without them is judged without them
    for opt in ("e_empty", "x_empty"):
        if not any(varmap[opt] in a for a in dom):
            del varmap[opt]
    ok, why = decide.check_formula(paths, varmap,
                               lambda v: bool((not v.get("e_empty", False) and (v["c_dem"] if v["mangled"] else v["c_name"])) or (not v.get("x_empty", False) and v["c_esc"])))
    rep.ob("exact-sets", "truth-table", ok, why if ok else why + " - a name listed in the other exact set of the same section is not matched (GNU ld treats `bar\\_one` as the literal bar_one)", b.file, b.line)


def run(ctx, rep):
    F = ctx.facts(); P = ctx.program()
    exact_sets(rep, ctx.program(), ctx.facts())
    rep.rule("phases", "exact tests run in a forward loop, glob and match-all tests in reversed loops; exact → glob → match-all, never back")
    rep.rule("glob-passes", "the glob phase runs twice, first for non-`*` globs then for `*` globs")
    rep.rule("section-pairing", "a test on `globals` yields Global on its true edge, a test on `locals` yields Local; globals are tested before locals of the same kind")
    rep.rule("mangled-flag", "`general` rules are matched with mangled=false, `cxx` rules with mangled=true")
    rep.rule("exact-sets", "matches_exact(name) == (exact non-empty && exact.contains(mangled ? demangled : name)) || (escaped_exact non-empty && escaped_exact.contains(..)): "
             "both the plain and the backslash-escaped exact names of a section are consulted (truth table over the MIR paths)")
    rep.rule("index", "the returned version index is the enumerate() index of the version being visited")
    rep.rule("is-local", "is_local(name) == find_match(name) is Some((_, Local)); the loader downgrades on that edge (C31) and regular scripts ask is_local")
    rep.rule("version-number", "version_for_symbol: 0 -> None, i -> i + VER_NDX_GLOBAL; explicit versions via the name map + VER_NDX_GLOBAL, empty -> VER_NDX_GLOBAL, unknown -> error")

    fm = F.body(V + "RegularVersionScript::find_match")
    if fm is None:
        rep.lost("phases", V + "RegularVersionScript::find_match")
        return
    flow, cfg = P.flow(fm), P.cfg(fm)
    nexts = {}
    for bi, t in flow.calls():
        ck = callee_key(t["f"]) or ""
        if ck.endswith("as std::iter::Iterator>::next"):
            kind = "rev" if "<std::iter::Rev " in ck or "iter::Rev" in ck else ("fwd" if "Enumerate" in ck else "outer")
            nexts[bi] = kind
    preds = []   # (block, kind, receiver, t)
    for bi, t in flow.calls():
        ck = callee_key(t["f"]) or ""
        if ck.endswith("BasicMatchRules::matches_exact") or ck.endswith("BasicMatchRules::matches_glob"):
            recv = render(expr_tree(P, fm, t["args"][0], depth=8, expand_params=0))
            preds.append((bi, ck.split("::")[-1], recv, t))
    # matches_all place tests
    all_tests = []
    for sb in sorted(cfg.reach):
        t = fm.blocks[sb]["t"]
        if t["k"] == "switch" and t["dty"] == "bool":
            at = decide.switch_atom(P, fm, flow, sb)
            if at and at.endswith(".matches_all"):
                all_tests.append((sb, at))
    rep.floor("phases", "matches_exact/matches_glob calls", len(preds), 8)
    rep.floor("phases", "matches_all tests", len(all_tests), 4)

    def loop_of(block):
        """the innermost iterator `next` whose loop contains the block (next dominates block, block reaches next)"""
        cands = [n for n in nexts if cfg.dominates(n, block) and n in cfg.reachable_from(block)]
        # innermost = dominated by all the others
        for n in cands:
            if all(cfg.dominates(m, n) for m in cands):
                return n
        return None
    fwd = [n for n, k in nexts.items() if k == "fwd"]
    for bi, name, recv, t in preds:
        lp = loop_of(bi)
        k = nexts.get(lp)
        if name == "matches_exact":
            rep.ob("phases", f"exact-forward:{recv.split('version_body.')[-1]}", k == "fwd", f"exact patterns are tested while visiting versions first-to-last (loop iterator: {k}) — the first version with an exact pattern wins", fm.file, t["l"])
        else:
            rep.ob("phases", f"glob-reverse:{recv.split('version_body.')[-1]}", k == "rev", f"glob patterns are tested while visiting versions last-to-first (loop iterator: {k}) — the last version with a matching glob wins", fm.file, t["l"])
    for sb, at in all_tests:
        k = nexts.get(loop_of(sb))
        rep.ob("phases", f"all-reverse:{at.split('body.')[-1]}", k == "rev", f"match-all is tested last-to-first (loop iterator: {k})", fm.file, fm.blocks[sb]["t"]["l"])
    ex = [p[0] for p in preds if p[1] == "matches_exact"]
    gl = [p[0] for p in preds if p[1] == "matches_glob"]
    al = [a[0] for a in all_tests]
    rep.ob("phases", "order:exact-before-glob", all(g in cfg.reachable_from(e) for e in ex for g in gl) and not any(e in cfg.reachable_from(g) for e in ex for g in gl),
           "every glob test is reachable from the exact tests and no exact test is reachable from a glob test", fm.file, fm.line)
    rep.ob("phases", "order:glob-before-all", all(a in cfg.reachable_from(g) for g in gl for a in al) and not any(g in cfg.reachable_from(a) for g in gl for a in al),
           "every match-all test is reachable from the glob tests and no glob test is reachable from a match-all test", fm.file, fm.line)

    # glob passes: the outer loop iterates the constant array [true, false]; non_star argument flows from its item
    prom = fm.d.get("promoted") or []
    arrays = []
    for pblocks in prom:
        for blk in pblocks:
            for s in blk["s"]:
                if s["k"] == "assign" and s["rv"]["k"] == "agg" and s["rv"].get("ak") == "array":
                    arrays.append([(o[1].get("val") if o[0] == "k" else None) for o in s["rv"]["ops"]])
    rep.ob("glob-passes", "non-star-first", [1, 0] in arrays, f"constant arrays iterated in find_match: {arrays} (must contain [true, false]: non-`*` globs first)", fm.file, fm.line)
    for bi, name, recv, t in preds:
        if name == "matches_glob":
            o = flow.deep_origins(t["args"][2])
            from_outer = any(x[0] == "call" and (x[1] or "").endswith("Iterator>::next") and nexts.get(x[2]) == "outer" for x in o)
            rep.ob("glob-passes", f"non_star-arg:{recv.split('version_body.')[-1]}", from_outer, "the non_star argument is the item of the outer [true, false] loop", fm.file, t["l"])

    # section pairing + mangled flag
    by_recv = {}
    for bi, name, recv, t in preds:
        tail = recv.split("version_body.")[-1]          # globals.general
        sect, kind = (tail.split(".") + ["?", "?"])[:2]
        by_recv[(name, sect, kind)] = bi
        # true edge
        sbs = [sb for sb in cfg.reach if fm.blocks[sb]["t"]["k"] == "switch" and (decide.switch_chain(fm, flow, sb)[1] is t)]
        got = set()
        for sb in sbs:
            for lab, v in decide.switch_bool_labels(fm, flow, cfg, sb).items():
                if v:
                    for l2, tgt in cfg.succ[sb]:
                        if l2 == lab:
                            var, _ = first_section_after(fm, cfg, tgt)
                            if var:
                                got.add(var)
        want = {"globals": "Global", "locals": "Local"}.get(sect)
        if name == "matches_exact":
            rep.ob("section-pairing", f"{name}:{tail}", got == {want}, f"true edge constructs {sorted(got)} (want {want})", fm.file, t["l"])
        mang = op_const(t["args"][-1])
        rep.ob("mangled-flag", f"{name}:{tail}", mang is not None and bool(mang.get("val")) == (kind == "cxx"), f"mangled = {mang and mang.get('text')} for `{kind}` rules", fm.file, t["l"])
    # glob / all pairing: via the Global/Local aggregates' dominating false-facts
    full = decide.all_edge_atoms_full(P, F, fm)
    ef = cfg.edge_facts()
    for bi, blk in enumerate(fm.blocks):
        if bi not in cfg.reach:
            continue
        for s in blk["s"]:
            if s["k"] == "assign" and s["rv"]["k"] == "agg" and (s["rv"].get("adt") or "").endswith("VersionRuleSection"):
                var = s["rv"]["variant"]
                facts = {full[e] for e in ef.get(bi, frozenset()) if e in full}
                false_globals = [a for a, v in facts if v is False and ".globals." in a and ("matches_glob" in a or a.endswith("matches_all"))]
                true_locals = [a for a, v in facts if v is True and ".locals." in a]
                lp = loop_of(bi)
                if nexts.get(lp) == "rev":
                    if var == "Local":
                        rep.ob("section-pairing", f"rev-local:{'glob' if any('matches_glob' in a for a in false_globals) else 'all'}", len(false_globals) >= 2, f"Local is produced only after both `globals` tests of the same version failed ({len(false_globals)} false facts)", fm.file, s["l"])
                    else:
                        rep.ob("section-pairing", f"rev-global:{bi in set(cfg.reachable_from(al[0])) if al else '?'}", not true_locals, "Global is not produced on a `locals` true edge", fm.file, s["l"])
    for name in ("matches_exact", "matches_glob"):
        for kind in ("general", "cxx"):
            g, l = by_recv.get((name, "globals", kind)), by_recv.get((name, "locals", kind))
            rep.ob("section-pairing", f"global-first:{name}:{kind}", g is not None and l is not None and cfg.dominates(g, l), "the `global:` rules of a version are consulted before its `local:` rules", fm.file, fm.line)

    # index
    n_ret = 0
    for bi, blk in enumerate(fm.blocks):
        if bi not in cfg.reach:
            continue
        for s in blk["s"]:
            if s["k"] == "assign" and s["rv"]["k"] == "agg" and s["rv"].get("ak") == "tuple" and len(s["rv"]["ops"]) == 2:
                o = flow.deep_origins(s["rv"]["ops"][0])
                doms = [n for n in nexts if cfg.dominates(n, bi)]
                lp = next((n for n in doms if all(cfg.dominates(m, n) for m in doms)), None)
                src = {x[2] for x in o if x[0] == "call" and (x[1] or "").endswith("Iterator>::next")}
                if lp is None:
                    continue
                n_ret += 1
                rep.ob("index", f"tuple#{n_ret}", src == {lp}, "the index in the returned pair comes from the enclosing loop's enumerate() item", fm.file, s["l"])
    rep.floor("index", "returned (index, section) pairs", n_ret, 8)

    # ---- is_local --------------------------------------------------------------------------------------------------
    il = F.body(V + "RegularVersionScript::is_local")
    if il is None:
        rep.lost("is-local", "RegularVersionScript::is_local")
    else:
        iflow = P.flow(il)
        calls = [callee_key(t["f"]) or "" for _bi, t in iflow.calls()]
        rep.ob("is-local", "calls-find_match", any(c.endswith("find_match") for c in calls) and any(c.endswith("is_some_and") for c in calls), f"is_local = find_match(..).is_some_and(..): {[c.split('::')[-1] for c in calls]}", il.file, il.line)
        cl = F.closures_of(V + "RegularVersionScript::is_local")
        okc = False
        for c in cl:
            try:
                paths = decide.bool_paths(P, F, c)
            except decide.NotLoopFree:
                continue
            dom = decide.table_atoms(paths)
            va = [a for a in dom if a.startswith("variant:")]
            if len(va) == 1:
                vals = {tuple(sorted(assign.items())): res for assign, res in paths}
                okc = all((res is True) == (assign.get(va[0]) == "Local") for assign, res in paths)
        rep.ob("is-local", "closure-tests-Local", okc, "the closure returns true exactly for VersionRuleSection::Local", il.file, il.line)
    sd = [b for b in F.all_bodies if stable(b.key).endswith("::should_downgrade_to_local") and "RegularObject" in b.key or (stable(b.key).endswith("::should_downgrade_to_local") and any((callee_key(t["f"]) or "").endswith("is_local") for _bi, t in P.flow(b).calls()))]
    rep.ob("is-local", "loader-asks-is_local", len(sd) >= 1, f"should_downgrade_to_local implementations that consult RegularVersionScript::is_local: {[stable(b.key) for b in sd]}", "libwild/src/symbol_db.rs", 0)
    for b in sd:
        bflow, bcfg = P.flow(b), P.cfg(b)
        for bi, t in bflow.calls():
            if (callee_key(t["f"]) or "").endswith("is_local"):
                at = decide.atoms_at(P, F, b, bi)
                rep.ob("is-local", "regular-arm", any(a.startswith("variant:VersionScript") and "Regular" in v for a, v in at if not isinstance(v, bool)), "is_local is consulted on the VersionScript::Regular arm", b.file, t["l"])
                # result returned as is
                rep.ob("is-local", "returned", any(d[1] == "call" and d[0] == bi for d in bflow.defs.get(0, [])) or any(x[0] == "call" and x[2] == bi for x in bflow.deep_origins(("c", (0, [])))), "its result is the function's result", b.file, t["l"])
    import C31
    import framework
    sub = framework.Report("C31")
    C31.run(ctx, sub)
    n = 0
    for o in sub.obligations:
        if o["rule"] == "can-export" or o["instance"].startswith("loader-guard"):
            n += 1
            w = o.get("where", "")
            f, _, l = w.rpartition(":")
            rep.ob("is-local", f"C31:{o['rule']}:{o['instance']}", o["ok"], o["detail"], f or None, int(l) if l.isdigit() else None)
    rep.floor("is-local", "shared C31 obligations", n, 2)

    # ---- version numbers -----------------------------------------------------------------------------------------------
    vs = F.body(V + "RegularVersionScript::version_for_symbol")
    if vs is None:
        rep.lost("version-number", "RegularVersionScript::version_for_symbol")
    else:
        vflow, vcfg = P.flow(vs), P.cfg(vs)
        adds = []
        for bi, blk in enumerate(vs.blocks):
            if bi not in vcfg.reach:
                continue
            for s in blk["s"]:
                if s["k"] == "assign" and s["rv"]["k"] == "bin" and s["rv"]["op"].startswith("Add"):
                    c = op_const(s["rv"]["b"]) or op_const(s["rv"]["a"])
                    adds.append((bi, c, s["l"]))
        rep.ob("version-number", "explicit:+VER_NDX_GLOBAL", any(c and ((c.get("def") or "").endswith("VER_NDX_GLOBAL") or c.get("val") == 1) for _b, c, _l in adds), f"additions in version_for_symbol: {[(c or {}).get('def') or (c or {}).get('val') for _b, c, _l in adds]}", vs.file, vs.line)
        ge = [bi for bi, t in vflow.calls() if (callee_key(t["f"]) or "").split("::")[-1] == "get"]
        rep.ob("version-number", "explicit:name-map", len(ge) >= 1, "an explicit version is looked up in version_name_mapping", vs.file, vs.line)
        errs = [bi for bi, t in vflow.calls() if "anyhow" in (callee_key(t["f"]) or "") or "Error" in (callee_key(t["f"]) or "")]
        rep.ob("version-number", "explicit:unknown-is-error", len(errs) >= 1, "an unknown explicit version produces an error", vs.file, vs.line)
        for c in F.closures_of(V + "RegularVersionScript::version_for_symbol"):
            cflow, ccfg = P.flow(c), P.cfg(c)
            nz = False
            none_on_zero = False
            add_c = None
            for bi, blk in enumerate(c.blocks):
                if bi not in ccfg.reach:
                    continue
                for s in blk["s"]:
                    if s["k"] == "assign" and s["rv"]["k"] == "bin" and s["rv"]["op"].startswith("Add"):
                        add_c = op_const(s["rv"]["b"]) or op_const(s["rv"]["a"])
                        at = decide.atoms_at(P, F, c, bi)
                        nz = any(a.startswith("bin:Eq(") and a.endswith(", 0)") and v is False for a, v in at)
                    if s["k"] == "assign" and s["rv"]["k"] == "agg" and (s["rv"].get("adt") or "").endswith("Option") and s["rv"]["variant"] == "None":
                        at = decide.atoms_at(P, F, c, bi)
                        none_on_zero = any(a.startswith("bin:Eq(") and a.endswith(", 0)") and v is True for a, v in at)
            rep.ob("version-number", "implicit-zero-is-none", none_on_zero, "version index 0 (the implicit base version) yields no version", c.file, c.line)
            rep.ob("version-number", "nonzero:+VER_NDX_GLOBAL", nz and add_c is not None and ((add_c.get("def") or "").endswith("VER_NDX_GLOBAL") or add_c.get("val") == 1), f"index i != 0 yields i + {add_c and (add_c.get('def') or add_c.get('val'))}", c.file, c.line)
    rep.assume("glob matching of runtime strings, demangling, and the byte contents of .gnu.version_d/.gnu.version_r are not decided")
