"""C15 — linker-script input-section patterns (structural clauses).

Decided statically:
 * key agreement: a rule stored in the prefix-hash table is stored under the hash of four bytes that
   every name it can match starts with (exact/prefix: its own bytes; glob: only when the first four
   pattern bytes contain no metacharacter), with the same hash function the lookup applies to the
   section name; rules without such bytes live in an ordered fallback list that the lookup scans;
 * first match: rule positions come from enumerate() over the script's rules; the lookup takes the
   minimum position among the matching keyed rules, the first matching unkeyed rule, and the smaller of
   the two;
 * no crash: the pattern path (SectionRule::new, from_rules, prefix_hash, analyze_glob_pattern,
   unescape_pattern, compile_glob_pattern, lookup, matches) contains no unwrap/expect/panic/bounds
   assertion on pattern-derived data;
 * classification and matcher construction: which bytes make a pattern a glob, and which matcher
   each class gets; per-matcher comparison (==, starts_with, Pattern::matches); file-pattern rule;
 * KEEP: the description's must_keep reaches the SectionOutputInfo of every rule built from it.
Wildcard semantics inside a pattern are the `glob` crate's and are not decided."""
import fold
import hirq
from mir import callee_key, declared_key, stable

EXPLANATION = ("HIR match-arm extraction and operator skeletons for the key function, the table construction, the lookup and the "
               "pattern classifier; MIR scan of the pattern path for panicking calls and assertions; value flow of must_keep")
LR = "libwild::layout_rules::"
GM = "libwild::glob_match::"
PATH_FNS = [LR + "SectionRule::new", LR + "SectionRules::from_rules", LR + "SectionNameMatcher::prefix_hash", LR + "SectionRules::lookup",
            LR + "SectionRule::matches", LR + "section_name_prefix_hash", GM + "analyze_glob_pattern", GM + "unescape_pattern", GM + "compile_glob_pattern"]
META = {ord("*"), ord("?"), ord("[")}


def run(ctx, rep):
    F = ctx.facts(); P = ctx.program()
    rep.rule("key-agreement", "a rule is stored under the hash of bytes that every name it matches starts with; the lookup hashes the section name with the same function; unkeyable rules are kept in a list the lookup scans")
    rep.rule("first-match", "the lookup returns the matching rule with the smallest position in the script")
    rep.rule("no-crash", "no unwrap/expect/panic/assert on the pattern path")
    rep.rule("classify", "a pattern is a glob iff it has an unescaped * ? [ ]; escaped-exact patterns are unescaped; globs are compiled; [^ is translated")
    rep.rule("matchers", "Exact: ==, Prefix: starts_with, Glob: Pattern::matches; no file pattern matches every file, a file pattern needs a file name")
    rep.rule("keep", "KEEP(..) sets must_keep on every rule built from the description")

    # ---- key agreement
    keyfn = None
    for cand in (LR + "SectionNameMatcher::prefix_hash", LR + "SectionNameMatcher::prefix_bytes"):
        if F.hir_body(cand):
            keyfn = cand
    fr = F.hir_body(LR + "SectionRules::from_rules")
    lk = F.hir_body(LR + "SectionRules::lookup")
    if not keyfn or not fr or not lk:
        rep.lost("key-agreement", "prefix key function / from_rules / lookup")
        return
    kh = F.hir_body(keyfn)
    m = hirq.strip(kh["body"])
    if m.get("e") == "block" and m.get("expr") is not None and not m["stmts"]:
        m = hirq.strip(m["expr"])
    arms = hirq.match_arms(m) if m.get("e") == "match" else []
    per_variant = {}
    for names, guard, body in arms:
        for n in names:
            per_variant[n] = body
    rep.ob("key-agreement", "variants", set(per_variant) >= {"Exact", "Prefix", "Glob"}, f"key function {keyfn.split('::')[-1]} has arms for {sorted(per_variant)}", kh["file"], kh["line"])
    returns_hash = keyfn.endswith("prefix_hash")
    for v in ("Exact", "Prefix"):
        if v in per_variant:
            sk = hirq.skeleton(per_variant[v], lambda n: None).replace("local:", "")
            ok = sk in ("section_name_prefix_hash(n)", "n.as_ref()", "n", "section_name_prefix_hash(n.as_ref())")
            rep.ob("key-agreement", f"{v}:own-bytes", ok, f"{v} rules are keyed by their own bytes: {sk}", kh["file"], kh["line"])
    if "Glob" in per_variant:
        body = per_variant["Glob"]
        sk = hirq.skeleton(body, lambda n: None).replace("local:", "")
        # metacharacter guard: a matches!/match over bytes whose true arm lists the metacharacters, followed by `return None`
        metas = set()
        for x in fold.walk(body):
            if x.get("e") == "match":
                for names, guard, b in hirq.match_arms(x):
                    bl = hirq.strip(b)
                    if bl.get("e") == "lit" and bl["v"] is True:
                        metas |= {n for n in names if isinstance(n, int)}
        guarded = bool(metas) and "return None" in sk and ".get(struct{end: lit:4})" in sk
        rep.ob("key-agreement", "Glob:literal-prefix", guarded and metas >= META,
               (f"a glob is keyed only when its first 4 bytes contain none of {sorted(chr(c) for c in metas)}" if guarded else
                f"a glob rule is keyed by its raw pattern bytes ({sk[:80]}): a pattern with a metacharacter in its first four bytes is stored under a key no section name hashes to, and a shorter one has no key"),
               kh["file"], kh["line"])
        rep.ob("key-agreement", "Glob:escape-not-literal", (not guarded) or ord("\\") in metas, "a backslash in the first four bytes also makes the rule unkeyed (the escaped byte, not the backslash, is what a name contains)", kh["file"], kh["line"])
    # from_rules: unkeyed list
    frs = hirq.skeleton(fr["body"], lambda n: None)
    whole = " ".join(hirq.skeleton(x, lambda n: None) for x in fold.walk(fr["body"]) if x.get("e") in ("mcall", "call"))
    has_unkeyed = any(x.get("e") == "mcall" and x["name"] == "push" and "unkeyed" in hirq.skeleton(x["recv"], lambda n: None) for x in fold.walk(fr["body"]))
    panics = [d for d, n in hirq.calls(fr["body"], lambda d: d and d.split("::")[-1] in ("expect", "unwrap"))]
    rep.ob("key-agreement", "unkeyed-kept", has_unkeyed and not panics,
           "rules without a key are pushed to the fallback list" if has_unkeyed and not panics else f"rules without a key are not representable: from_rules calls {[p.split('::')[-1] for p in panics]} on the key (panic for patterns shorter than 4 bytes)", fr["file"], fr["line"])
    ins = [n for d, n in hirq.calls(fr["body"], lambda d: d and d.endswith("insert_unique"))]
    rep.ob("key-agreement", "stored-key", len(ins) == 1 and ("prefix_hash()" in hirq.skeleton(ins[0]["args"][0], lambda n: None) or hirq.skeleton(ins[0]["args"][0], lambda n: None) == "local:hash"),
           "the table key is the rule's prefix hash", fr["file"], fr["line"])
    lks = hirq.inlined(lk["body"], hirq.let_map(lk["body"]), depth=6)
    rep.ob("key-agreement", "lookup-key", "section_name_prefix_hash(section_name)" in lks, "the lookup hashes the section name with section_name_prefix_hash", lk["file"], lk["line"])
    snh = F.hir_body(LR + "section_name_prefix_hash")
    if snh:
        s_ = hirq.skeleton(snh["body"], lambda n: None).replace("local:", "")
        rep.ob("key-agreement", "hash-fn", s_ in ("Some(hash_bytes(name.get(struct{end: lit:4})))", "{Some(hash_bytes(name.get(struct{end: lit:4})))}"), f"section_name_prefix_hash = {s_}", snh["file"], snh["line"])
    rep.ob("key-agreement", "lookup-scans-unkeyed", "self.unkeyed_rules.iter().find(|(_,rule)| rule.matches(section_name, file_name))" in lks or not has_unkeyed and False,
           "the lookup scans the fallback list in order", lk["file"], lk["line"])

    # ---- first match
    enum_ = "rules.iter().enumerate()" in frs.replace("local:", "")
    rep.ob("first-match", "positions", enum_, "positions are assigned by enumerate() over the rule list", fr["file"], fr["line"])
    uses_table = any(x.get("e") == "mcall" and x["name"] in ("find", "iter_hash", "find_entry", "get") and "rules" in hirq.skeleton(x["recv"], lambda n: None) and "unkeyed" not in hirq.skeleton(x["recv"], lambda n: None) for x in fold.walk(lk["body"]))
    rep.ob("first-match", "keyed-min", (not uses_table) or ".iter_hash(hash).filter(|(_,rule)| rule.matches(section_name, file_name)).min_by_key(|(index,_)| index)" in lks,
           "among keyed rules the smallest position that matches is taken (HashTable probe order is not insertion order)", lk["file"], lk["line"])
    cmp_ok = False
    for x in fold.walk(lk["body"]):
        if x.get("e") == "match" and not str(x.get("src", "")).startswith("TryDesugar"):
            for names, guard, b in hirq.match_arms(x):
                s_ = hirq.skeleton(b, lambda n: None).replace("local:", "")
                if "if (a.0 < b.0) a else b" in s_.replace("{", "").replace("}", ""):
                    cmp_ok = True
    rep.ob("first-match", "merge", cmp_ok, "when both a keyed and an unkeyed rule match, the smaller position wins", lk["file"], lk["line"])

    # ---- no crash
    total = 0
    for key in PATH_FNS:
        bodies = [b for b in F.all_bodies if stable(b.key) == key or stable(b.key).startswith(key + "::{closure")]
        if not bodies:
            if key.endswith("prefix_hash") or key.endswith("section_name_prefix_hash"):
                continue
            rep.lost("no-crash", key)
            continue
        for b in bodies:
            total += 1
            bad = []
            for bi, blk in enumerate(b.blocks):
                if blk.get("cleanup"):
                    continue
                t = blk["t"]
                if t["k"] == "call":
                    ck = callee_key(t["f"]) or declared_key(t["f"]) or ""
                    last = ck.split("::")[-1]
                    if last in ("expect", "unwrap", "unwrap_unchecked", "panic", "panic_fmt", "panic_display", "unreachable_display", "panic_bounds_check", "expect_failed", "unwrap_failed", "slice_index_fail", "index") and ("core::" in ck or "std::" in ck):
                        if last == "index" and "core::ops::Index" not in (declared_key(t["f"]) or ""):
                            continue
                        bad.append(f"{last}@{t['l']}")
                elif t["k"] == "assert":
                    # arithmetic-overflow assertions exist only in debug builds and are on lengths, not pattern bytes
                    if not str(t.get("desc", "")).startswith("overflow"):
                        bad.append(f"assert({t.get('desc')})@{t['l']}")
            rep.ob("no-crash", stable(b.key).replace("libwild::", ""), not bad, "no panicking call or assertion" if not bad else f"can panic: {bad}", b.file, b.line)
    rep.floor("no-crash", "bodies on the pattern path", total, 8)

    # ---- classification
    ag = F.hir_body(GM + "analyze_glob_pattern")
    if ag is None:
        rep.lost("classify", "analyze_glob_pattern")
    else:
        sk = hirq.skeleton(ag["body"], lambda n: None).replace("local:", "")
        rep.ob("classify", "fast-path", "if (memchr3(lit:42, lit:63, lit:92, pattern).is_none() && memchr2(lit:91, lit:93, pattern).is_none()) {return Exact}" in sk,
               "Exact without scanning only if none of * ? \\ [ ] occurs", ag["file"], ag["line"])
        cls = {}
        for x in fold.walk(ag["body"]):
            if x.get("e") == "match" and hirq.skeleton(x["scrut"], lambda n: None).replace("local:", "") == "c":
                for names, guard, b in hirq.match_arms(x):
                    s_ = hirq.skeleton(b, lambda n: None).replace("local:", "")
                    for n in names:
                        cls[n] = s_
        rep.ob("classify", "star", "return Star" in cls.get(ord("*"), ""), f"'*' -> {cls.get(ord('*'))}", ag["file"], ag["line"])
        rep.ob("classify", "nonstar", all("pattern_type = NonStar" in cls.get(ord(c), "") for c in "[]?"), "'[' ']' '?' -> NonStar", ag["file"], ag["line"])
        esc = cls.get(ord("\\"), "")
        rep.ob("classify", "escape", "EscapedExact" in esc and "it.next()" in esc and "if match" in esc.replace("matches!", "match") or ("EscapedExact" in esc and "it.next()" in esc),
               "'\\' skips the escaped byte and upgrades Exact to EscapedExact only", ag["file"], ag["line"])
    sn = F.hir_body(LR + "SectionRule::new")
    if sn is None:
        rep.lost("classify", "SectionRule::new")
    else:
        got = {}
        for x in fold.walk(sn["body"]):
            if x.get("e") == "match" and "analyze_glob_pattern" in hirq.skeleton(x["scrut"], lambda n: None):
                for names, guard, b in hirq.match_arms(x):
                    s_ = hirq.inlined(b, hirq.let_map(b) if isinstance(b, dict) else {}, depth=3)
                    for n in names:
                        got[n] = s_
        rep.ob("classify", "ctor:Exact", got.get("Exact", "").replace("{", "").replace("}", "") == "Exact(Borrowed(pattern))", f"Exact -> {got.get('Exact')}", sn["file"], sn["line"])
        rep.ob("classify", "ctor:EscapedExact", "Exact(Owned(unescape_pattern(pattern)))" in got.get("EscapedExact", ""), f"EscapedExact -> {got.get('EscapedExact')}", sn["file"], sn["line"])
        g = got.get("Star", "")
        rep.ob("classify", "ctor:glob", got.get("Star") == got.get("NonStar") and "Glob(pattern, compile_glob_pattern(pattern)" in g, f"Star|NonStar -> {g[:120]}", sn["file"], sn["line"])
    cg = F.hir_body(GM + "compile_glob_pattern")
    if cg:
        sk = hirq.inlined(cg["body"], hirq.let_map(cg["body"]), depth=4)
        rep.ob("classify", "negation", ".replace(lit:[^, lit:[!)" in sk and "Pattern::new(" in sk, "`[^` is translated to the glob crate's `[!`", cg["file"], cg["line"])
    # ---- matchers
    mt = F.hir_body(LR + "SectionRule::matches")
    if mt is None:
        rep.lost("matchers", "SectionRule::matches")
    else:
        got = {}
        for x in fold.walk(mt["body"]):
            if x.get("e") == "match" and "name_matcher" in hirq.skeleton(x["scrut"], lambda n: None):
                for names, guard, b in hirq.match_arms(x):
                    for n in names:
                        got[n] = hirq.skeleton(b, lambda n_: None).replace("local:", "")
        rep.ob("matchers", "Exact", got.get("Exact") == "(section_name == name.as_ref())", f"Exact: {got.get('Exact')}", mt["file"], mt["line"])
        rep.ob("matchers", "Prefix", got.get("Prefix") == "section_name.starts_with(prefix)", f"Prefix: {got.get('Prefix')}", mt["file"], mt["line"])
        rep.ob("matchers", "Glob", "pattern.matches(name_str)" in got.get("Glob", "") and got.get("Glob", "").endswith("else lit:False"), f"Glob: {got.get('Glob', '')[:100]}", mt["file"], mt["line"])
        b = F.body(LR + "SectionRule::matches")
        if b is not None:
            # return values on the None edges
            from mir import expr_tree, render, simplify
            flow, cfg = P.flow(b), P.cfg(b)
            rets = []
            for bi, blk in enumerate(b.blocks):
                if blk.get("cleanup") or bi not in cfg.reach:
                    continue
                for s in blk["s"]:
                    if s["k"] == "assign" and s["p"] == [0, []] and s["rv"]["k"] == "use" and s["rv"]["a"][0] == "k":
                        facts = cfg.edge_facts().get(bi, ())
                        desc = []
                        for fct in facts:
                            if fct[0] == "any":
                                continue
                            tr = render(simplify(expr_tree(P, b, b.blocks[fct[0]]["t"]["d"], depth=4, expand_params=0)))
                            if "input_file_pattern" in tr or "file_name" in tr:
                                desc.append((tr, fct[1]))
                        rets.append((s["rv"]["a"][1].get("val"), desc))
            ok_all = any(v == 1 and any("input_file_pattern" in d[0] and d[1] in (0, "else") for d in ds) for v, ds in rets)
            ok_none = any(v == 0 and any("file_name" in d[0] for d in ds) for v, ds in rets)
            rep.ob("matchers", "no-file-pattern", ok_all, "without a file pattern the rule matches every file (returns true on the None edge)", b.file, b.line)
            rep.ob("matchers", "file-pattern-needs-name", ok_none, "with a file pattern and no file name the rule does not match", b.file, b.line)
    # ---- KEEP
    ps = next((v[0] for k, v in F.hir().items() if k.endswith("LayoutRulesBuilder::process_linker_script")), None)
    if ps is None:
        rep.lost("keep", "process_linker_script")
    else:
        n = 0; ok = True
        for d, x in hirq.calls(ps["body"], lambda d: d and __import__("facts").norm_path(d).endswith("SectionRule::new")):
            n += 1
            s_ = hirq.skeleton(x["args"][2], lambda n_: None).replace("local:", "")
            ok = ok and "must_keep: matcher.must_keep" in s_ and "Section(struct{section_id:" in s_
            pat = hirq.skeleton(x["args"][0], lambda n_: None).replace("local:", "")
            filep = hirq.skeleton(x["args"][1], lambda n_: None).replace("local:", "")
            ok = ok and pat == "pattern" and filep == "matcher.input_file_pattern"
        rep.ob("keep", "flows", n >= 1 and ok, f"{n} rule construction site(s): outcome Section{{section_id, must_keep: matcher.must_keep}}, pattern from matcher.input_section_name_patterns, file pattern matcher.input_file_pattern", ps["file"], ps["line"])
        loop_ok = "matcher.input_section_name_patterns" in " ".join(hirq.skeleton(x, lambda n_: None) for x in fold.walk(ps["body"]) if x.get("e") in ("mcall", "call", "path", "field")).replace("local:", "")
        rep.ob("keep", "every-pattern", loop_ok, "every section-name pattern of the description gets a rule", ps["file"], ps["line"])
    _matcher_per_class(ctx, rep, F)
    rep.assume("glob::Pattern::matches implements *, ?, [..] as fnmatch does (dependency); must_keep -> GC root is decided by C05")


def _matcher_per_class(ctx, rep, F):
    """Which matcher a linker-script pattern becomes, per classification (MIR, guard-insensitive): a pattern classified as a glob (Star / NonStar: it contains
    an unescaped metacharacter somewhere) may only become a compiled Glob - never a literal Exact or Prefix matcher, whatever extra guard an arm carries."""
    import decide
    P = ctx.program()
    rep.rule("matcher-per-class", "in SectionRule::new: SectionNameMatcher::Exact is built only on the Exact / EscapedExact classification edges, Glob never on those edges, "
             "and no Prefix matcher is built from a script pattern at all (Star says `an unescaped * exists`, not `the only metacharacter is a trailing *`)")
    bodies = [F.body("libwild::layout_rules::SectionRule::new")] + list(F.closures_of("libwild::layout_rules::SectionRule::new"))
    if bodies[0] is None:
        rep.lost("matcher-per-class", "layout_rules::SectionRule::new")
        return
    n = 0
    for b in bodies:
        for bi, blk in enumerate(b.blocks):
            if blk.get("cleanup"):
                continue
            for st in blk["s"]:
                if st["k"] == "assign" and st["rv"]["k"] == "agg" and str(st["rv"].get("adt") or "").endswith("SectionNameMatcher"):
                    n += 1
                    v = st["rv"].get("variant")
                    cls = next((a[1] for a in decide.atoms_at(P, F, b, bi) if a[0] == "variant:GlobPatternType"), None)
                    cls_s = sorted(cls) if cls else "Star|NonStar (joined arm)"
                    if v == "Exact":
                        ok = cls in (frozenset({"Exact"}), frozenset({"EscapedExact"}))
                    elif v == "Glob":
                        ok = cls is None or not (cls & {"Exact", "EscapedExact"})
                    else:
                        # a literal-prefix fast path is sound only for a classification of its own (e.g. a dedicated `TrailingStar` class that the
                        # classifier establishes by scanning the whole pattern); under Star/NonStar/Exact it is not
                        ok = cls is not None and len(cls) == 1 and not (cls & {"Exact", "EscapedExact", "Star", "NonStar"})
                    rep.ob("matcher-per-class", f"{v}#{n}", ok,
                           f"{v} matcher built for classification {cls_s}" + ("" if ok else ": a pattern with metacharacters is matched as literal bytes, so sections GNU ld would place here "
                           "fall through to a later description (wrong output section, lost KEEP)"), b.file, st.get("l"))
    rep.floor("matcher-per-class", "matcher constructions in SectionRule::new", n, 3)
