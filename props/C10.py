"""C10 — unwind tables cover every retained function (structural clauses).

Decided statically:
 * sorting: sort_eh_frame_hdr_entries sorts the whole entry table (everything after the header) by the
   signed initial-location field; it runs in elf_writer::write after write_file_contents succeeded (all
   entries written), on the same flag that gates the header and the space reservation;
 * pairing: in write_eh_frame_relocations every FDE that is kept takes exactly one header-table entry
   before its bytes are copied, and an entry is taken only for a kept FDE;
 * entry contents: initial location = address of the function section + symbol offset - hdr address;
   FDE pointer = the address the FDE bytes are copied to (eh_frame_start_address + output_pos) - hdr
   address, the same position expression used for the FDE's own relocations; overflow is an error;
 * header: version 1, encodings (pcrel|sdata4, udata4, datarel|sdata4), entry_count derived from the
   section size, frame pointer = .eh_frame - (hdr + 4);
 * reservation/keep agreement: the allocator reserves one entry per frame of a loaded non-empty section
   (same loop that sums the FDE sizes), the writer keeps an FDE iff its section has an address and a
   non-zero size; FDEs are linked to their section through the pc-begin relocation on both sides."""
import fold
import hirq
from mir import (callee_key, declared_key, expr_tree, op_const, render, simplify, stable, switch_bool_labels, switch_source_call,
                 tree_leaves, field_stores)

EXPLANATION = ("HIR operator skeletons (lets inlined) of the header-table entry and header stores; MIR dominance / restricted "
               "reachability for the pairing of kept FDEs with table entries and for the position of the sort; type facts of the "
               "table structs; decision atoms of the flag gating reservation, writing and sorting")
EW = "libwild::elf_writer::"


def run(ctx, rep):
    F = ctx.facts(); P = ctx.program()
    rep.rule("position-accounting", "in write_eh_frame_relocations the accumulator that is finally added to eh_frame_start_address is advanced by n after every "
             "take_eh_frame_data(n), and no bytes are taken after the base was advanced: the running base equals the bytes actually emitted, so later "
             "sections' table entries and pc-relative fields use the address their bytes really have")
    rep.rule("sorted", "the entry table is sorted as a whole by the signed initial-location field, after all writers finished")
    rep.rule("pairing", "a header-table entry is taken for every kept FDE, before its bytes are copied, and only for kept FDEs")
    rep.rule("entry", "entry = (function address - hdr address, FDE address - hdr address) with checked i32 conversion")
    rep.rule("header", ".eh_frame_hdr header fields follow the LSB layout")
    rep.rule("flag", "reservation, header, entries and sort are gated by the same args.should_write_eh_frame_hdr")
    rep.rule("reservation", "one entry is reserved per frame of a loaded non-empty section; the writer keeps exactly the FDEs of sections with an address and non-zero size")

    # ---- type facts
    ent = F.adt("libwild::elf::EhFrameHdrEntry"); hdr = F.adt("libwild::elf::EhFrameHdr")
    if not ent or not hdr:
        rep.lost("entry", "EhFrameHdrEntry/EhFrameHdr")
        return
    ef = [(f["name"], f["ty"]) for f in ent["variants"][0]["fields"]]
    rep.ob("entry", "layout", ef == [("frame_ptr", "i32"), ("frame_info_ptr", "i32")], f"EhFrameHdrEntry fields {ef} (initial location first, both sdata4)", ent["file"], ent["line"])
    hf = [(f["name"], f["ty"]) for f in hdr["variants"][0]["fields"]]
    rep.ob("header", "layout", hf == [("version", "u8"), ("frame_pointer_encoding", "u8"), ("count_encoding", "u8"), ("table_encoding", "u8"), ("frame_pointer", "i32"), ("entry_count", "u32")],
           f"EhFrameHdr fields {hf}", hdr["file"], hdr["line"])

    # ---- sorted
    s = F.hir_body(EW + "sort_eh_frame_hdr_entries")
    if s is None:
        rep.lost("sorted", "sort_eh_frame_hdr_entries")
    else:
        lets = hirq.let_map(s["body"])
        sorts = [n for d, n in hirq.calls(s["body"], lambda d: d and d.split("::")[-1].startswith(("par_sort", "sort")))]
        ok = len(sorts) == 1
        sk = hirq.inlined(sorts[0], lets) if ok else ""
        rep.ob("sorted", "key", ok and ("|e| e.frame_ptr" in sk), f"sort: {sk[-80:]}", s["file"], s["line"])
        rep.ob("sorted", "whole-table", ok and "eh_frame_hdr[struct{start: size_of()}]" in sk and "end:" not in sk.split("par_sort")[0].split("sort")[0],
               "the sorted slice is everything after the header (RangeFrom size_of::<EhFrameHdr>())", s["file"], s["line"])
        b = F.body(EW + "sort_eh_frame_hdr_entries")
        okt = False
        if b is not None:
            for bi, t in P.flow(b).calls():
                ck = callee_key(t["f"]) or ""
                if ck.endswith("mem::size_of") and "EhFrameHdr>" in (t["f"].get("fn_args") or "") and "EhFrameHdrEntry" not in (t["f"].get("fn_args") or ""):
                    okt = True
            stable_sort = any((callee_key(t["f"]) or "").split("::")[-1] in ("par_sort_by_key", "sort_by_key", "par_sort_unstable_by_key", "sort_unstable_by_key") for _bi, t in P.flow(b).calls())
            rep.ob("sorted", "header-skip", okt, "the skipped prefix is size_of::<EhFrameHdr>()", b.file, b.line)
    w = F.body(EW + "write")
    if w is None:
        rep.lost("sorted", EW + "write")
    else:
        flow, cfg = P.flow(w), P.cfg(w)
        sortb = [bi for bi, t in flow.calls() if (callee_key(t["f"]) or "").endswith("sort_eh_frame_hdr_entries")]
        wfc = [bi for bi, t in flow.calls() if (callee_key(t["f"]) or "").endswith("write_file_contents")]
        rep.ob("sorted", "one-sort-site", len(sortb) == 1 and len(P.callers_of(lambda k: k.endswith("sort_eh_frame_hdr_entries"))) == 1, f"{len(sortb)} sort call(s) in write", w.file, w.line)
        if sortb and wfc:
            dom = cfg.dom()
            rep.ob("sorted", "after-writers", wfc[0] in dom[sortb[0]], "write_file_contents (which joins all section writers) dominates the sort", w.file, w.line)
            # success edge of write_file_contents
            from mir import success_blocks
            try:
                sb = success_blocks(w, flow, cfg, lambda k: (k or "").endswith("write_file_contents"))
                sb = sb[0] if isinstance(sb, tuple) else sb
                rep.ob("sorted", "after-success", sortb[0] in sb, "the sort runs only after write_file_contents returned Ok", w.file, w.line)
            except Exception as e:  # noqa
                rep.ob("sorted", "after-success", False, f"cannot determine success edge: {e}", w.file, w.line)
            ef_ = cfg.edge_facts()
            gate = None
            for (sbk, lab) in ef_.get(sortb[0], ()):
                if sbk == "any":
                    continue
                t = w.blocks[sbk]["t"]
                tr = render(simplify(expr_tree(P, w, t["d"], depth=8, expand_params=0)))
                if "should_write_eh_frame_hdr" in tr:
                    gate = (tr, switch_bool_labels(w, flow, cfg, sbk).get(lab))
            rep.ob("flag", "sort", gate is not None and gate[1] is True, f"sort gated by {gate}", w.file, w.line)
            other = []
            for fct in ef_.get(sortb[0], ()):
                if fct[0] == "any":
                    other.append(str(fct)); continue
                t = w.blocks[fct[0]]["t"]
                tr = render(simplify(expr_tree(P, w, t["d"], depth=8, expand_params=0)))
                if "should_write_eh_frame_hdr" in tr or tr.startswith(("discr(branch(", "discr(write_file_contents(")):
                    continue
                other.append(tr)
            rep.ob("flag", "sort-only-flag", not other, "no other condition gates the sort" if not other else f"the sort is additionally conditional on {other}", w.file, w.line)
    # header gate + reservation gates
    for key, callee, rule_inst in ((EW + "write_epilogue", "write_eh_frame_hdr", "header"),):
        cands = P.callers_of(lambda k: k.endswith("::" + callee) or k.endswith(callee))
        cands = [(cb, cbi, ct) for cb, cbi, ct in cands if (callee_key(ct["f"]) or "").endswith(callee)]
        rep.ob("flag", f"{rule_inst}:sites", len(cands) == 1, f"{len(cands)} call site(s) of {callee}", "libwild/src/elf_writer.rs", 0)
        for cb, cbi, ct in cands:
            rep.ob("flag", rule_inst, _gated_by_flag(P, cb, cbi), f"{callee} is called on the should_write_eh_frame_hdr edge in {stable(cb.key)}", cb.file, ct["l"])
    n_res = 0
    for b in F.all_bodies:
        if not b.key.startswith(("libwild::", "<libwild::")):
            continue
        for bi, t in P.flow(b).calls():
            for a in t["args"]:
                d = (op_const(a) or {}).get("def") or ""
                if d.endswith("part_id::EH_FRAME_HDR") and (callee_key(t["f"]) or "").split("::")[-1] in ("allocate", "increment"):
                    n_res += 1
                    amount = render(simplify(expr_tree(P, b, t["args"][-1], depth=8, expand_params=0)))
                    rep.ob("flag", f"reserve:{stable(b.key)}", _gated_by_flag(P, b, bi), f"reservation of {amount} on the flag's true edge", b.file, t["l"])
                    if "num_frames" in amount:
                        rep.ob("reservation", "per-frame-amount", "size_of()" in amount and "Mul" in amount, f"amount = {amount}", b.file, t["l"])
    rep.floor("flag", "EH_FRAME_HDR reservation sites", n_res, 2)

    # ---- header contents
    h = F.hir_body(EW + "write_eh_frame_hdr")
    if h is None:
        rep.lost("header", "write_eh_frame_hdr")
    else:
        sts = {}
        for x in hirq.statements(h["body"]):
            sk = hirq.skeleton(x, lambda n: None).replace("local:", "")
            if " = " in sk:
                a, b_ = sk.split(" = ", 1)
                sts[a.split(".")[-1]] = b_
        exp = {"version": "lit:1", "table_encoding": ("DW_EH_PE_sdata4", "DW_EH_PE_datarel"), "frame_pointer_encoding": ("DW_EH_PE_sdata4", "DW_EH_PE_pcrel"),
               "count_encoding": ("DW_EH_PE_udata4", "DW_EH_PE_absptr")}
        for k, v in exp.items():
            got = sts.get(k, "")
            ok = got == v if isinstance(v, str) else (all(x in got for x in v) and got.count("DW_EH_PE") == 2 and "|" in got)
            rep.ob("header", k, ok, f"{k} = {got}", h["file"], h["line"])
        rep.ob("header", "entry_count", sts.get("entry_count", "").startswith("eh_frame_hdr_entry_count("), f"entry_count = {sts.get('entry_count')}", h["file"], h["line"])
        rep.ob("header", "frame_pointer", sts.get("frame_pointer", "").startswith("eh_frame_ptr("), f"frame_pointer = {sts.get('frame_pointer')}", h["file"], h["line"])
    c = F.hir_body(EW + "eh_frame_hdr_entry_count")
    if c is None:
        rep.lost("header", "eh_frame_hdr_entry_count")
    else:
        sk = hirq.inlined(c["body"], hirq.let_map(c["body"]))
        rep.ob("header", "count-formula", "((layout.section_layouts.get(EH_FRAME_HDR).mem_size - (size_of() as u64)) / (size_of() as u64))" in sk, f"{sk[:200]}", c["file"], c["line"])
        cb = F.body(EW + "eh_frame_hdr_entry_count")
        so = [t["f"].get("fn_args") or "" for _bi, t in P.flow(cb).calls() if (callee_key(t["f"]) or "").endswith("mem::size_of")] if cb else []
        rep.ob("header", "count-sizes", len(so) == 2 and "EhFrameHdr>" in so[0] and "EhFrameHdrEntry>" in so[1], f"(size - size_of::<EhFrameHdr>) / size_of::<EhFrameHdrEntry>: {[x.split('<')[-1] for x in so]}", c["file"], c["line"])
    p = F.hir_body(EW + "eh_frame_ptr")
    if p is None:
        rep.lost("header", "eh_frame_ptr")
    else:
        sk = hirq.inlined(p["body"], hirq.let_map(p["body"]))
        rep.ob("header", "frame-pointer-formula", "(layout.mem_address_of_built_in(EH_FRAME) - (layout.mem_address_of_built_in(EH_FRAME_HDR) + (FRAME_POINTER_FIELD_OFFSET as u64)))" in sk, sk[:220], p["file"], p["line"])
        fo = next((v for k, v in F.consts().items() if k.endswith("elf::FRAME_POINTER_FIELD_OFFSET")), None)
        rep.ob("header", "frame-pointer-offset", fo == 4, f"FRAME_POINTER_FIELD_OFFSET = {fo} (offset of eh_frame_ptr in the header)", p["file"], p["line"])

    # ---- entry contents
    wr = F.hir_body(EW + "write_eh_frame_relocations")
    if wr is None:
        rep.lost("entry", "write_eh_frame_relocations")
        return
    _entry_position_mir(rep, P, F)

    # ---- pairing (MIR)
    for b in [x for x in F.all_bodies if stable(x.key) == EW + "write_eh_frame_relocations" and x.d["kind"] != "Closure"][:1]:
        flow, cfg = P.flow(b), P.cfg(b)
        # the keep flag: the bool local that is only ever assigned constants (init false, set true per kept CIE/FDE) and is switched on
        cands = []
        for i, ty in enumerate(b.locals):
            if ty.strip() != "bool" or i <= b.d["argc"] or b.local_name(i) is None:   # unnamed bools are compiler drop flags
                continue
            ds = flow.defs.get(i, [])
            if len(ds) >= 3 and all(d[1] != "call" and not d[2] and d[3]["k"] == "use" and d[3]["a"][0] == "k" for d in ds) and \
                    any(blk2["t"]["k"] == "switch" and blk2["t"]["d"][0] != "k" and ("param", None) != None and
                        (blk2["t"]["d"][1] == [i, []] or any(d2[1] != "call" and d2[3]["k"] == "use" and d2[3]["a"][0] != "k" and d2[3]["a"][1] == [i, []]
                                                             for d2 in flow.defs.get(blk2["t"]["d"][1][0], []))) for blk2 in b.blocks):
                cands.append(i)
        keep_local = cands[0] if len(cands) == 1 else next((i for i in range(len(b.locals)) if b.local_name(i) == "should_keep"), None)
        if keep_local is None:
            rep.lost("pairing", f"the keep flag (constant-assigned bool that is switched on; candidates {cands})"); break
        stores_true = []
        for bi, blk in enumerate(b.blocks):
            if blk.get("cleanup") or bi not in cfg.reach:
                continue
            for s_ in blk["s"]:
                if s_["k"] == "assign" and s_["p"] == [keep_local, []] and s_["rv"]["k"] == "use" and (op_const(s_["rv"]["a"]) or {}).get("val") == 1:
                    stores_true.append(bi)
        hdrb = [bi for bi, t in flow.calls() if (callee_key(t["f"]) or "").endswith("take_eh_frame_hdr_entry")]
        datab = [bi for bi, t in flow.calls() if (callee_key(t["f"]) or "").endswith("take_eh_frame_data")]
        rep.ob("pairing", "sites", len(stores_true) == 2 and len(hdrb) == 1 and len(datab) == 2, f"{len(stores_true)} keep stores, {len(hdrb)} table-entry takes, {len(datab)} data takes", b.file, b.line)
        if len(hdrb) != 1 or not stores_true:
            break
        dom = cfg.dom()
        fde_store = [s_ for s_ in stores_true if s_ in dom[hdrb[0]]]
        cie_store = [s_ for s_ in stores_true if s_ not in fde_store]
        rep.ob("pairing", "entry-only-for-kept", len(fde_store) == 1, "the table-entry take is dominated by the FDE arm's `should_keep = true`", b.file, b.line)
        if fde_store:
            r = cfg.reachable_from(fde_store[0], avoid=set(hdrb))
            copy_reached = [d for d in datab if d in r]
            rep.ob("pairing", "kept-takes-entry", not copy_reached, "from the FDE keep store, the copy of the entry's bytes is reachable only through the table-entry take", b.file, b.line)
        if cie_store:
            # CIE arm: cie_id == 0 edge
            drop_edges = set()
            for sbk in cfg.reach:
                t = b.blocks[sbk]["t"]
                if t["k"] == "switch":
                    tr = expr_tree(P, b, t["d"], depth=4, expand_params=0)
                    if tr[0] in ("phi", "alt") and tr[1] == (b.local_name(keep_local) or f"_{keep_local}"):
                        for lab, v in switch_bool_labels(b, flow, cfg, sbk).items():
                            if v is False:
                                drop_edges.add((sbk, lab))
            rep.ob("pairing", "cie-no-entry", bool(drop_edges) and hdrb[0] not in cfg.reachable_avoiding_edges(cie_store[0], drop_edges, avoid_blocks=set(datab)), "a CIE reaches its copy without taking a table entry", b.file, b.line)
        # keep condition atoms: address().is_some and sh_size != 0
        if fde_store:
            ef_ = cfg.edge_facts().get(fde_store[0], ())
            atoms = []
            for fct in ef_:
                if fct[0] == "any":
                    continue
                sbk, lab = fct
                t = b.blocks[sbk]["t"]
                atoms.append(render(simplify(expr_tree(P, b, t["d"], depth=7, expand_params=0))) + f"=={lab}")
            txt = " ; ".join(atoms)
            # polarity of the size test on the keep edge: sh_size != 0 (an FDE of an empty section is dropped, as the allocator does not count it)
            import decide as _dc
            at_ = {str(a[0]): a[1] for a in _dc.atoms_at(P, F, b, fde_store[0])}
            sz = [(k, v) for k, v in at_.items() if "sh_size" in k and k.rstrip(")").endswith(", 0")]
            pol = any((k.startswith("bin:Ne(") and v is True) or (k.startswith("bin:Eq(") and v is False) for k, v in sz)
            rep.ob("reservation", "writer-keep-polarity", pol,
                   "an FDE is kept on the sh_size != 0 edge" if pol else f"the FDE keep store is not on the `sh_size != 0` edge ({sz}): frames of empty sections are kept and those of "
                   "non-empty sections dropped, while the allocator reserves entries for non-empty sections only", b.file, b.line)
            rep.ob("reservation", "writer-keep-condition", "address(" in txt and "sh_size" in txt and "FDE_PC_BEGIN_OFFSET" in txt or ("address(" in txt and "sh_size" in txt and "Eq(" in txt),
                   f"kept iff pc-begin relocation's section has an address and sh_size != 0: {txt[:500]}", b.file, b.line)
    # allocator side
    ps = F.hir_body("libwild::elf::process_section_exception_frames")
    if ps is None:
        rep.lost("reservation", "process_section_exception_frames")
    else:
        sts = [hirq.skeleton(x, lambda n: None).replace("local:", "") for x in hirq.statements(ps["body"])]
        rep.ob("reservation", "count-per-frame", "num_frames += lit:1" in sts and any(s_.startswith("eh_frame_size += ") and "frame_size" in s_ for s_ in sts),
               "num_frames += 1 and eh_frame_size += frame_size in the same walk over the section's frame list", ps["file"], ps["line"])
    nl = next((b for b in F.all_bodies if b.key.endswith("::non_empty_section_loaded") and "elf::Elf" in b.key), None)
    if nl is None:
        rep.lost("reservation", "non_empty_section_loaded")
    else:
        sites = P.callers_of(lambda k: k.endswith("::non_empty_section_loaded"))
        sites = [x for x in sites if x[0].key.startswith(("libwild::layout", "<libwild::layout"))]
        ok = bool(sites)
        det = []
        for cb, cbi, ct in sites:
            flow, cfg = P.flow(cb), P.cfg(cb)
            facts = cfg.edge_facts().get(cbi, ())
            good = False
            for fct in facts:
                if fct[0] == "any":
                    continue
                t = cb.blocks[fct[0]]["t"]
                tr = render(simplify(expr_tree(P, cb, t["d"], depth=6, expand_params=0)))
                if tr.startswith("Gt(") and ".size" in tr and tr.endswith(", 0)") and switch_bool_labels(cb, flow, cfg, fct[0]).get(fct[1]) is True:
                    good = True; det.append(tr)
            ok = ok and good
        rep.ob("reservation", "allocator-nonempty-gate", ok, f"frames are reserved on the `section.size > 0` edge ({det[:1]}); the writer tests sh_size != 0 of the same section", nl.file, nl.line)
    pe = F.hir_body("libwild::elf::process_eh_frame_relocations")
    if pe is None:
        rep.lost("reservation", "process_eh_frame_relocations")
    else:
        cmp_ = any(x.get("e") == "bin" and x["op"] in ("==", "Eq") and hirq.skeleton(x["b"], lambda n: None) == "FDE_PC_BEGIN_OFFSET" for x in fold.walk(pe["body"]))
        symsec = any(x.get("e") == "mcall" and x["name"] == "symbol_section" for x in fold.walk(pe["body"]))
        rep.ob("reservation", "pc-begin-link", cmp_ and symsec, "the allocator links an FDE to the section of its pc-begin relocation's symbol (offset FDE_PC_BEGIN_OFFSET), as the writer does", pe["file"], pe["line"])
        v = next((v for k, v in F.consts().items() if k.endswith("elf::FDE_PC_BEGIN_OFFSET")), None)
        rep.ob("reservation", "pc-begin-offset", v == 8, f"FDE_PC_BEGIN_OFFSET = {v} (length u32 + CIE pointer u32)", pe["file"], pe["line"])
    rep.assume("FDE <-> function correspondence of the input (.eh_frame contents) is the compiler's; decided here is that wild keeps, indexes and sorts what it keeps")


    position_accounting(rep, ctx.program(), ctx.facts())

def _gated_by_flag(P, b, bi):
    flow, cfg = P.flow(b), P.cfg(b)
    for fct in cfg.edge_facts().get(bi, ()):
        if fct[0] == "any":
            continue
        t = b.blocks[fct[0]]["t"]
        tr = render(simplify(expr_tree(P, b, t["d"], depth=8, expand_params=0)))
        if "should_write_eh_frame_hdr" in tr and switch_bool_labels(b, flow, cfg, fct[0]).get(fct[1]) is True:
            return True
    return False


def position_accounting(rep, P, F):
    from mir import callee_key as ck_, field_stores
    b = F.body("libwild::elf_writer::write_eh_frame_relocations")
    if b is None:
        rep.lost("position-accounting", "elf_writer::write_eh_frame_relocations")
        return
    flow, cfg = P.flow(b), P.cfg(b)
    stores = field_stores(b, "eh_frame_start_address")
    if len(stores) != 1:
        rep.ob("position-accounting", "one-base-store", False, f"{len(stores)} stores to eh_frame_start_address", b.file, b.line)
        return
    sbi, sst = stores[0]
    # the accumulator: the non-field summand of the Add that feeds the store
    acc = None
    for x in flow.origins(sst["rv"]["a"]) if sst["rv"]["k"] == "use" else ():
        pass
    adds = []
    for bi, blk in enumerate(b.blocks):
        if blk.get("cleanup"):
            continue
        for st in blk["s"]:
            if st["k"] == "assign" and st["rv"]["k"] == "bin" and st["rv"]["op"].startswith("Add"):
                adds.append((bi, st))
    src_local = sst["rv"]["a"][1][0] if sst["rv"]["k"] == "use" and sst["rv"]["a"][0] != "k" else None
    for bi, st in adds:
        if st["p"][0] == src_local:
            for side in ("a", "b"):
                op = st["rv"][side]
                if op[0] != "k" and ".eh_frame_start_address" not in op[1][1]:
                    # follow casts / copies back to a multiply-assigned usize local
                    cur = op
                    for _ in range(6):
                        ds = flow.defs.get(cur[1][0], [])
                        if len(ds) == 1 and ds[0][1] != "call" and ds[0][3]["k"] in ("use", "cast") and ds[0][3]["a"][0] != "k":
                            cur = ds[0][3]["a"]
                        else:
                            break
                    acc = cur[1][0]
    rep.ob("position-accounting", "accumulator", acc is not None, f"eh_frame_start_address += <local _{acc} ({b.local_name(acc) if acc is not None else None})>", b.file, sst.get("l"))
    if acc is None:
        return
    # statements that advance the accumulator: acc = Add(acc, n) (possibly through the checked-add tuple)
    advance = {}   # block -> addend operand
    for bi, st in adds:
        a_, b_ = st["rv"]["a"], st["rv"]["b"]
        if a_[0] != "k" and a_[1] == [acc, []]:
            tgt = st["p"][0]
            # result flows back into acc
            back = any(d[3].get("k") == "use" and d[3]["a"][0] != "k" and d[3]["a"][1][0] == tgt for d in flow.defs.get(acc, []) if d[1] != "call")
            if back or tgt == acc:
                advance[bi] = b_
    takes = [(bi, t) for bi, t in flow.calls() if (ck_(t["f"]) or "").endswith("take_eh_frame_data")]
    rep.floor("position-accounting", "take_eh_frame_data sites", len(takes), 2)
    for n, (bi, t) in enumerate(takes):
        n_src = flow.origins(t["args"][1])
        matching = {ab for ab, addend in advance.items() if flow.origins(addend) == n_src}
        if not matching:
            # idiom B: n = T - acc ... acc = T
            cur = t["args"][1]
            for _ in range(6):
                ds = flow.defs.get(cur[1][0], []) if cur[0] != "k" else []
                if len(ds) == 1 and ds[0][1] != "call" and ds[0][3]["k"] in ("use", "cast") and ds[0][3]["a"][0] != "k":
                    cur = ds[0][3]["a"]
                    continue
                if len(ds) == 1 and ds[0][1] != "call" and ds[0][3]["k"] == "bin" and ds[0][3]["op"].startswith("Sub"):
                    # checked-sub tuple: follow `.0`
                    ta, tb = ds[0][3]["a"], ds[0][3]["b"]
                    if tb[0] != "k" and tb[1][0] == acc or (tb[0] != "k" and flow.origins(tb) == flow.origins(("c", (acc, [])))):
                        t_src = flow.origins(ta)
                        for bi2, blk2 in enumerate(b.blocks):
                            if blk2.get("cleanup"):
                                continue
                            for st2 in blk2["s"]:
                                if st2["k"] == "assign" and st2["p"] == [acc, []] and st2["rv"]["k"] == "use" and st2["rv"]["a"][0] != "k" and flow.origins(st2["rv"]["a"]) == t_src:
                                    matching.add(bi2)
                break
        skip = True
        if matching and t.get("to") is not None:
            r = cfg.reachable_avoiding_edges(t["to"], set(), avoid_blocks=matching)
            skip = sbi in r
        rep.ob("position-accounting", f"take#{n}:advances", bool(matching) and not skip,
               "every path from this take to the base update adds the same length to the accumulator" if matching and not skip else
               "bytes are taken from the .eh_frame buffer without being added to the running position: every later input section's frames are written at one address "
               "but described (table entry, pc-relative pc_begin) as being at another", b.file, t["l"])
    after = cfg.reachable_from(sbi)
    late = sorted(t["l"] for bi, t in takes if bi in after and bi != sbi)
    rep.ob("position-accounting", "no-take-after-base-update", not late, "no bytes are taken once eh_frame_start_address was advanced" if not late else
           f"take_eh_frame_data at line(s) {late} runs after the base was advanced: those bytes are not accounted for", b.file, sst.get("l"))


def _shape(b, flow, op, depth=0):
    """Name-free structural tree of an operand: ('const', val, def) | ('field', [.fields]) | ('var', local) for multiply-assigned locals |
    ('call', tail, [args]) | ('bin', op, a, b) - single-definition copies and casts are followed."""
    if depth > 8:
        return ("?",)
    if op[0] == "k":
        return ("const", op[1].get("val"), op[1].get("def"))
    l, proj = op[1]
    fields = [p for p in proj if p.startswith(".") and p not in (".0", ".1")]
    if fields:
        return ("field", fields)
    ds = flow.defs.get(l, [])
    if len(ds) != 1:
        return ("var", l)
    bi, si, _p, pl = ds[0]
    if si == "call":
        return ("call", (callee_key(pl["f"]) or "?").split("::")[-1], [_shape(b, flow, a, depth + 1) for a in pl["args"]])
    if pl["k"] in ("use", "cast"):
        return _shape(b, flow, pl["a"], depth)
    if pl["k"] == "bin":
        return ("bin", pl["op"].replace("WithOverflow", "").replace("Unchecked", ""), _shape(b, flow, pl["a"], depth + 1), _shape(b, flow, pl["b"], depth + 1))
    if pl["k"] == "ref":
        return ("ref",)
    return ("?",)


def _entry_position_mir(rep, P, F):
    """frame_info_ptr and the FDE's own relocation base, structurally (no dependence on the names of locals or parameters)."""
    from mir import field_stores
    b = F.body("libwild::elf_writer::write_eh_frame_relocations")
    if b is None:
        rep.lost("entry", "write_eh_frame_relocations (MIR)")
        return
    flow = P.flow(b)
    stores = field_stores(b, "eh_frame_start_address")
    acc = None
    if len(stores) == 1 and stores[0][1]["rv"]["k"] == "use":
        sh = _shape(b, flow, stores[0][1]["rv"]["a"])
        if sh[0] == "bin" and sh[1] == "Add":
            for side in (sh[2], sh[3]):
                if side[0] == "var":
                    acc = side[1]

    def is_base_plus_acc(t):
        return t[0] == "bin" and t[1] == "Add" and {t[2][0], t[3][0]} == {"field", "var"} and \
            any(x[0] == "field" and x[1] == [".eh_frame_start_address"] for x in (t[2], t[3])) and any(x == ("var", acc) for x in (t[2], t[3]))
    rep.ob("entry", "base-advance", acc is not None, f"after a section the base is advanced by the position accumulator (local _{acc})", b.file, stores[0][1].get("l") if stores else b.line)
    n_e = n_s = 0
    for bi, blk in enumerate(b.blocks):
        if blk.get("cleanup"):
            continue
        for st in blk["s"]:
            if st["k"] != "assign" or st["rv"]["k"] != "agg":
                continue
            adt = str(st["rv"].get("adt") or "")
            fields = st["rv"].get("fields") or []
            if adt.endswith("EhFrameHdrEntry") and "frame_info_ptr" in fields:
                n_e += 1
                t = _shape(b, flow, st["rv"]["ops"][fields.index("frame_info_ptr")])
                # branch(context(try_from(Sub(Add(base, acc), mem_address_of_built_in(_, EH_FRAME_HDR)))))
                inner = t
                checked = False
                while inner[0] == "call" and inner[1] in ("branch", "context", "with_context", "map_err", "try_from", "try_into") and inner[2]:
                    checked = checked or inner[1] in ("try_from", "try_into")
                    inner = inner[2][0]
                ok = inner[0] == "bin" and inner[1] == "Sub" and is_base_plus_acc(inner[2]) and inner[3][0] == "call" and inner[3][1] == "mem_address_of_built_in" \
                    and any(a[0] == "const" and str(a[2] or "").endswith("output_section_id::EH_FRAME_HDR") for a in inner[3][2])
                rep.ob("entry", "frame_info_ptr", ok and checked,
                       "frame_info_ptr = checked((eh_frame_start_address + position) - address of .eh_frame_hdr)" if ok and checked else f"frame_info_ptr has shape {inner}", b.file, st.get("l"))
            if adt.endswith("EhFrameHdrEntry") and "frame_ptr" in fields:
                t = _shape(b, flow, st["rv"]["ops"][fields.index("frame_ptr")])
                inner = t
                checked = False
                while inner[0] == "call" and inner[1] in ("branch", "context", "with_context", "map_err", "try_from", "try_into") and inner[2]:
                    checked = checked or inner[1] in ("try_from", "try_into")
                    inner = inner[2][0]

                def calls_in(x, acc_=None):
                    acc_ = [] if acc_ is None else acc_
                    if isinstance(x, tuple):
                        if x and x[0] == "call":
                            acc_.append(x[1])
                        for y in x:
                            if isinstance(y, (tuple, list)):
                                calls_in(tuple(y) if isinstance(y, list) else y, acc_)
                    return acc_
                ok = False
                if inner[0] == "bin" and inner[1] == "Sub" and inner[3][0] == "call" and inner[3][1] == "mem_address_of_built_in" \
                        and any(a_[0] == "const" and str(a_[2] or "").endswith("output_section_id::EH_FRAME_HDR") for a_ in inner[3][2]) and inner[2][0] == "bin" and inner[2][1] == "Add":
                    lhs = inner[2]
                    sides = (lhs[2], lhs[3])
                    sec = [x for x in sides if "address" in calls_in(x) and "symbol_section" in calls_in(x) and "opt_input_to_output" not in calls_in(x)]
                    off = [x for x in sides if x[0] == "call" and x[1] == "opt_input_to_output"]
                    if sec and off:
                        arg = off[0][2][-1]
                        ok = arg[0] == "bin" and arg[1] == "Add" and {"st_value", "addend"} <= set(calls_in(arg))
                rep.ob("entry", "frame_ptr", ok and checked,
                       "frame_ptr = checked((address of the symbol's section + relaxation-adjusted (st_value + addend)) - address of .eh_frame_hdr)" if ok and checked else f"frame_ptr has shape {inner}",
                       b.file, st.get("l"))
            if adt.endswith("SectionInfo") and "section_address" in fields:
                n_s += 1
                t = _shape(b, flow, st["rv"]["ops"][fields.index("section_address")])
                rep.ob("entry", "same-position", is_base_plus_acc(t),
                       "the FDE's own relocations use place base eh_frame_start_address + position: the same address the table entry points to" if is_base_plus_acc(t) else f"section_address has shape {t}",
                       b.file, st.get("l"))
    rep.ob("entry", "mir-anchors", n_e == 1 and n_s >= 1, f"{n_e} table-entry construction(s), {n_s} SectionInfo construction(s)", b.file, b.line)
