"""C20 — inputs changed during a link make the link fail.  (shares the registry rule with C25)

Decided statically: who may read files; every mapped InputFile reaches the registry
(`FileLoader::loaded_files`) by reference identity on every non-error path; the unchanged-check runs
on every path after linking returns and before its result is inspected; it iterates the whole
registry, compares against the timestamp taken *before* mapping and turns a mismatch or a metadata
error into an error."""
from mir import (callee_key, declared_key, stable, success_blocks, bool_edge_blocks, op_place, op_const,
                 is_transparent, place_chain, uses_of_local, switch_source_call, switch_bool_labels,
                 variant_blocks, enum_switch, result_tests)
from facts import norm_path

EXPLANATION = ("who-may-call over file-reading APIs; reference-identity containment analysis (copies, reborrows, "
               "aggregates, Vec::push/append, pass-through summaries of callees) from every Arena<InputFile>::alloc "
               "to the returned LoadedFileState / the registry; must-pass-through and ordering rules on "
               "link_for_arch, verify_inputs_unchanged and FileData::open")

READERS = {"std::fs::File::open", "std::fs::read", "std::fs::read_to_string", "memmap2::MmapOptions::map",
           "memmap2::Mmap::map", "memmap2::MmapOptions::map_copy_read_only", "std::fs::OpenOptions::open"}
READER_ALLOW = {
    ("libwild::input_data::FileData::open", "std::fs::File::open"): "the registry path: every file opened here is wrapped in FileData with its timestamp",
    ("libwild::input_data::FileBytes::read", "memmap2::MmapOptions::map"): "mapping of the file opened by FileData::open",
    ("libwild::args::read_args_from_file", "std::fs::read_to_string"): "response files: arguments, fully consumed at parse time",
    ("libwild::args::elf::setup_argument_parser::{closure}", "std::fs::read_to_string"): "--retain-symbols-file: copied at parse time",
    ("libwild::save_dir::SaveDirState::handle_thin_archive", "std::fs::read"): "save-dir copy of thin-archive members (not a link input read)",
    ("libwild::file_writer::unlink_old_output", "std::fs::File::open"): "the old output (kept open while it is unlinked), not an input",
    ("libwild::file_writer::SizedOutput::new", "std::fs::OpenOptions::open"): "the output file",
    ("libwild::gc_stats::write_gc_stats", "std::fs::OpenOptions::open"): "gc-stats output",
}

CONTAINER_FNS = {"std::slice::into_vec", "alloc::slice::into_vec", "std::boxed::Box::new", "std::sync::Arc::new", "std::vec::from_elem",
                 "std::boxed::box_new", "std::boxed::box_assume_init_into_vec_unsafe", "std::mem::take", "std::mem::replace",
                 # single-argument adaptors that keep *the* contained value (unlike or/xor/and/filter/zip/max, which may drop it)
                 "std::option::Option::transpose", "std::result::Result::transpose", "std::result::Result::ok", "std::option::Option::ok_or",
                 "std::option::Option::ok_or_else", "std::option::Option::take", "std::option::Option::iter", "std::option::Option::into_iter"}
PUSHERS = {"std::vec::Vec::push", "std::vec::Vec::append", "std::vec::Vec::extend_from_slice", "std::iter::Extend::extend",
           "<std::vec::Vec as std::iter::Extend>::extend", "std::vec::Vec::insert"}


_LOSSFREE_RX = None


def _lossfree_iteration(key):
    """Iteration plumbing that hands on every element: into_iter/iter/drain(..)/rev/enumerate/by_ref and `next` of those iterators."""
    import re
    global _LOSSFREE_RX
    if _LOSSFREE_RX is None:
        _LOSSFREE_RX = re.compile(r"^(<(I|std::vec::Vec|std::vec::IntoIter|std::vec::Drain|std::slice::Iter|std::slice::IterMut|std::iter::Rev|std::iter::Enumerate|&mut I)"
                                  r"( as std::iter::(Iterator|IntoIterator|DoubleEndedIterator))?>::(next|into_iter|next_back)"
                                  r"|std::vec::Vec::(into_iter|drain|iter)|std::iter::Iterator::(rev|enumerate|by_ref)|std::slice::iter)$")
    return key in CONTAINER_FNS or bool(_LOSSFREE_RX.match(key))


def holders(body, flow, seeds, passes=None):
    """Locals that (may) hold the reference(s) in `seeds` by identity: copies/moves/reborrows/casts,
    projections of holders, aggregates containing a holder, containers a holder was pushed into,
    results of transparent calls (`?`, Some, Ok, into_iter) on holders."""
    H = set(seeds)
    changed = True

    def op_holds(o):
        pl = op_place(o)
        return pl is not None and pl[0] in H

    while changed:
        changed = False
        for bi, blk in enumerate(body.blocks):
            if blk.get("cleanup"):
                continue
            for s in blk["s"]:
                if s["k"] != "assign":
                    continue
                dst = s["p"][0]
                rv = s["rv"]
                k = rv["k"]
                hit = False
                if k in ("use", "cast", "repeat"):
                    hit = op_holds(rv["a"])
                elif k in ("ref", "rawptr"):
                    hit = rv["p"][0] in H
                elif k == "agg":
                    hit = any(op_holds(o) for o in rv["ops"])
                if hit and dst not in H:
                    H.add(dst)
                    changed = True
                # store through a pointer (the lowering of `vec![x]`): the pointee's owners hold it
                if hit and s["p"][1] and s["p"][1][0] == "*":
                    for l in _alias_roots(flow, dst):
                        if l not in H:
                            H.add(l)
                            changed = True
            t = blk["t"]
            if t["k"] == "call":
                ck = callee_key(t["f"])
                dk = declared_key(t["f"])
                args = t["args"]
                if (is_transparent(ck) or is_transparent(dk) or ck in CONTAINER_FNS) and args and any(op_holds(a) for a in args):
                    if t["dest"][0] not in H:
                        H.add(t["dest"][0])
                        changed = True
                if passes is not None and ck and not is_transparent(ck) and t["dest"][0] not in H:
                    for i, a in enumerate(args):
                        if op_holds(a) and passes(ck, i + 1):
                            H.add(t["dest"][0])
                            changed = True
                            break
                if (ck in PUSHERS or dk in PUSHERS) and len(args) >= 2 and any(op_holds(a) for a in args[1:]):
                    _f, roots = place_chain(flow, args[0])
                    for r in roots:
                        if r not in H:
                            H.add(r)
                            changed = True
                    pl = op_place(args[0])
                    if pl and pl[0] not in H:
                        H.add(pl[0])
                        changed = True
    return H


def _alias_roots(flow, local):
    """locals from which a pointer local was derived by casts/copies/field reads"""
    out, st = set(), [local]
    while st:
        l = st.pop()
        if l in out:
            continue
        out.add(l)
        for bi, si, lproj, payload in flow.defs.get(l, []):
            if si == "call" or lproj:
                continue
            rv = payload
            if rv["k"] in ("use", "cast"):
                pl = op_place(rv["a"])
                if pl:
                    st.append(pl[0])
            elif rv["k"] in ("ref", "rawptr"):
                st.append(rv["p"][0])
    return out


class Registry:
    def __init__(self, P, rep):
        self.P = P
        self.F = P.facts
        self.rep = rep
        self.memo = {}

    def ok_returns(self, body, flow, cfg):
        """[(bb, operand or ('call', t))] for definitions of _0 that are not error propagation."""
        out = []
        for bi, si, proj, payload in flow.defs.get(0, []):
            if bi not in cfg.reach:
                continue
            if si == "call":
                ck = callee_key(payload["f"]) or ""
                if ck.endswith("from_residual"):
                    continue
                out.append((bi, ("call", payload)))
                continue
            rv = payload
            if rv["k"] == "agg" and rv.get("variant") == "Err":
                continue
            if rv["k"] == "agg" and rv.get("variant") == "Ok":
                out.append((bi, ("op", rv["ops"][0] if rv["ops"] else None)))
            elif rv["k"] == "agg":
                out.append((bi, ("agg", rv)))
            elif rv["k"] == "use":
                out.append((bi, ("op", rv["a"])))
        return out

    def returns_contain(self, body, seeds, registered_ok=True):
        """-> list of (bb, ok, why) for each non-error return of body."""
        cfg, flow = self.P.cfg(body), self.P.flow(body)
        H = holders(body, flow, seeds, self.passes)
        res = []
        # registration in the registry itself counts (push into a place whose chain names loaded_files)
        reg_blocks = []
        for bi, t in flow.calls():
            ck = callee_key(t["f"])
            if ck in PUSHERS and len(t["args"]) >= 2:
                fields, _ = place_chain(flow, t["args"][0])
                pl = op_place(t["args"][1])
                if "loaded_files" in fields and pl and pl[0] in H:
                    reg_blocks.append(bi)
        dom = cfg.dom()
        for bi, (kind, x) in self.ok_returns(body, flow, cfg):
            if any(r in dom.get(bi, ()) for r in reg_blocks):
                res.append((bi, True, "pushed to loaded_files before returning"))
                continue
            if kind == "op":
                pl = op_place(x) if x else None
                ok = pl is not None and pl[0] in H
                # a LoadedFileState value: the registrar (FileLoader::extract_file) only reads the variant's *first* field (the &InputFile, or the
                # Vec<&InputFile> of a thin archive); a reference that merely sits somewhere inside the parsed parts is not registered
                reg = self._registered_operand(body, flow, pl) if pl is not None else None
                if reg is not None:
                    rpl = op_place(reg)
                    ok = rpl is not None and rpl[0] in H
                    res.append((bi, ok, "the registered field of the returned LoadedFileState holds the reference" if ok else
                                "the registered (first) field of the returned LoadedFileState does not hold the &InputFile: extract_file will not push it to loaded_files"))
                    continue
                res.append((bi, ok, "returned value holds the reference" if ok else "returned value does not hold the &InputFile (only data derived from it, or other files)"))
            elif kind == "agg":
                if (x.get("adt") or "").endswith("LoadedFileState") and x["ops"]:
                    rpl = op_place(x["ops"][0])
                    ok = rpl is not None and rpl[0] in H
                    res.append((bi, ok, "the registered field of the returned LoadedFileState holds the reference" if ok else
                                "the registered (first) field of the returned LoadedFileState does not hold the &InputFile: extract_file will not push it to loaded_files"))
                    continue
                ok = any(op_place(o) and op_place(o)[0] in H for o in x["ops"])
                res.append((bi, ok, "returned aggregate holds the reference" if ok else "returned aggregate does not hold the &InputFile"))
            elif kind == "call":
                t = x
                ck = callee_key(t["f"])
                idxs = [i for i, a in enumerate(t["args"]) if op_place(a) and op_place(a)[0] in H]
                ok = False
                why = f"tail call to {ck} without the reference"
                for i in idxs:
                    if self.passes(ck, i + 1):
                        ok = True
                        why = f"tail call {ck} registers/returns its parameter {i + 1}"
                        break
                    else:
                        why = f"callee {ck} does not keep its parameter {i + 1} (&InputFile) in what it returns"
                res.append((bi, ok, why))
        return res

    def _registered_operand(self, body, flow, pl):
        """If the place is (a copy of) a freshly built LoadedFileState aggregate, its first operand; else None."""
        cur = pl[0]
        for _ in range(6):
            ds = flow.defs.get(cur, [])
            if len(ds) != 1 or ds[0][1] == "call":
                return None
            rv = ds[0][3]
            if rv["k"] == "agg" and (rv.get("adt") or "").endswith("LoadedFileState") and rv["ops"]:
                return rv["ops"][0]
            if rv["k"] in ("use", "cast") and op_place(rv["a"]):
                cur = op_place(rv["a"])[0]
                continue
            return None
        return None

    def passes(self, fkey, param):
        k = (fkey, param)
        if k in self.memo:
            return self.memo[k]
        self.memo[k] = True  # optimistic for recursion
        b = self.F.body(fkey)
        if b is None:
            self.memo[k] = False
            return False
        rs = self.returns_contain(b, {param})
        ok = bool(rs) and all(r[1] for r in rs)
        self.memo[k] = ok
        return ok


def run(ctx, rep, prop="C20"):
    F = ctx.facts()
    P = ctx.program()
    rep.rule("input-readers", "every call that opens/reads/maps a file is a row of the reader allow table")
    rep.rule("registry", "each &InputFile produced by Arena::alloc reaches, by reference identity, every non-error value returned by its function (LoadedFileState variant / Vec) or is pushed to loaded_files; functions receiving &InputFile and returning LoadedFileState keep it")
    rep.rule("extract", "FileLoader::extract_file pushes the &InputFile(s) of every LoadedFileState variant into loaded_files")
    rep.rule("check-runs", "in link_for_arch, verify_inputs_unchanged()? runs on every path after load_inputs_and_link, before the link result is inspected")
    rep.rule("check-body", "verify_inputs_unchanged iterates loaded_files completely and errors on metadata failure or timestamp inequality")
    rep.rule("stamp-before-map", "FileData::open reads the modification time before mapping the bytes")

    # ---- input-readers ---------------------------------------------------------------------------
    sites = P.callers_of(lambda k: k in READERS)
    for b, bi, t in sites:
        ck = callee_key(t["f"])
        row = READER_ALLOW.get((stable(b.key), ck))
        rep.ob("input-readers", f"{stable(b.key)}->{ck}", row is not None,
               row or "a file is read outside FileData::open: it is neither timestamped nor re-checked nor listed as a dependency", b.file, t["l"])
    rep.floor("input-readers", "reader sites", len(sites), 6)

    # ---- registry ----------------------------------------------------------------------------------
    R = Registry(P, rep)
    allocs = []
    for b, bi, t in P.callers_of(lambda k: k == "colosseum::sync::Arena::alloc"):
        if "InputFile" in b.locals[t["dest"][0]]:
            allocs.append((b, bi, t))
    rep.floor("registry", "Arena<InputFile>::alloc sites", len(allocs), 3)
    for b, bi, t in allocs:
        rs = R.returns_contain(b, {t["dest"][0]})
        if not rs:
            rep.ob("registry", f"alloc:{stable(b.key)}:no-return", False, "no non-error return found", b.file, t["l"])
        seen = set()
        for rb, ok, why in rs:
            inst = f"alloc:{stable(b.key)}:{why}"
            if inst in seen:
                continue
            seen.add(inst)
            rep.ob("registry", inst, ok,
                   "a mapped input that never reaches loaded_files is neither re-checked for modification nor written to the dependency file", b.file, b.blocks[rb]["t"].get("l") or t["l"])
    # pass-through of &InputFile parameters into LoadedFileState
    n_pass = 0
    for b in F.all_bodies:
        if b.d["kind"] == "Closure" or not b.key.startswith("libwild::input_data::"):
            continue
        ret = b.locals[0]
        if "LoadedFileState" not in ret and "LoadedLinkerScript" not in ret:
            continue
        for i in range(1, b.d["argc"] + 1):
            ty = b.locals[i]
            if ty.startswith("&") and ty.rstrip().endswith("input_data::InputFile"):
                n_pass += 1
                ok = R.passes(b.key, i)
                rep.ob("registry", f"param:{stable(b.key)}#{i}", ok,
                       "the &InputFile parameter (an opened, mapped file) is kept in every non-error value returned" if ok else
                       "the &InputFile parameter is dropped: the file it names never reaches loaded_files", b.file, b.line)
    rep.floor("registry", "pass-through functions", n_pass, 3)
    # producers: functions that hand the freshly allocated &InputFile back to their caller instead of registering it.
    # Every caller then owes the registration, for *each* reference it obtains (by identity: `a.or(b)`, `a.xor(b)`, `max` ... keep one).
    import re as _re
    REF = _re.compile(r"&(\'\w+ )?(mut )?libwild::input_data::InputFile")
    producers = set()
    for b, bi, t in allocs:
        if "LoadedFileState" in b.locals[0] or not REF.search(b.locals[0]):
            continue
        rs = R.returns_contain(b, {t["dest"][0]})
        if rs and all(ok and "holds the reference" in why for _rb, ok, why in rs):
            producers.add(b.key)
    n_owed = 0
    for pk in sorted(producers):
        for cb, cbi, ct in P.callers_of(lambda k, pk=pk: k == pk):
            owner, seeds = cb, {ct["dest"][0]}
            if cb.d["kind"] == "Closure":
                # the closure must return what it obtained; the body that applies the closure then owns the result
                if ct["dest"][0] == 0 and not ct["dest"][1]:
                    okc = True      # tail call: what the producer returned is what the closure returns
                else:
                    rs = R.returns_contain(cb, seeds)
                    okc = bool(rs) and all(ok for _rb, ok, _w in rs)
                parent_key = cb.key.split("::{closure")[0]
                parent = F.body(parent_key)
                if not okc or parent is None:
                    rep.ob("registry", f"producer-closure:{stable(cb.key)}", False, f"the closure calling {stable(pk)} does not return the &InputFile it obtained", cb.file, ct["l"])
                    continue
                pflow = P.flow(parent)
                seeds = set()
                for bi2, t2 in pflow.calls():
                    for a in t2["args"]:
                        if any(o[0] == "agg" and norm_path(o[1]) == cb.key for o in pflow.origins(a)):
                            seeds.add(t2["dest"][0])
                owner = parent
                if not seeds:
                    rep.ob("registry", f"producer-closure:{stable(cb.key)}", False, "could not find where the closure that obtains the &InputFile is applied", cb.file, ct["l"])
                    continue
            for seed in sorted(seeds):
                n_owed += 1
                rs = R.returns_contain(owner, {seed})
                bad = [why for _rb, ok, why in rs if not ok]
                nm = owner.local_name(seed) or f"_{seed}"
                rep.ob("registry", f"owed:{stable(owner.key)}:{stable(pk).split('::')[-1]}#{sorted(seeds).index(seed)}", bool(rs) and not bad,
                       (f"the &InputFile obtained from {stable(pk).split('::')[-1]} reaches loaded_files (or the caller's own result) on every non-error path" if rs and not bad else
                        f"a file opened and mapped through {stable(pk).split('::')[-1]} is not registered on some path ({'; '.join(sorted(set(bad))[:2]) or 'no non-error return'}): it is neither re-checked for modification nor listed in the dependency file"),
                       owner.file, ct["l"])
    rep.note(f"{len(producers)} function(s) return a freshly allocated &InputFile to their caller; {n_owed} obligation(s) on callers")

    # ---- extract -------------------------------------------------------------------------------------
    ex = F.body("libwild::input_data::FileLoader::extract_file")
    if ex is None:
        rep.lost("extract", "FileLoader::extract_file")
    else:
        cfg, flow = P.cfg(ex), P.flow(ex)
        adt = F.adt("libwild::input_data::LoadedFileState")
        if adt is None:
            rep.lost("extract", "LoadedFileState")
        else:
            pushes = []
            for bi, t in flow.calls():
                ck = callee_key(t["f"])
                if ck in PUSHERS and len(t["args"]) >= 2:
                    fields, _ = place_chain(flow, t["args"][0])
                    if "loaded_files" in fields:
                        f2, _ = place_chain(flow, t["args"][1])
                        pushes.append((bi, f2))
            for v in adt["variants"]:
                has_file = any("InputFile" in f["ty"] or "LoadedLinkerScriptState" in f["ty"] for f in v["fields"])
                if not has_file:
                    continue
                ok = any(("@" + v["name"]) in f2 for _bi, f2 in pushes)
                why = ""
                if not ok:
                    # element-wise form: `for f in files { loaded_files.push(f) }` - every element arrives iff the iteration from the
                    # variant's payload to the push uses no element-dropping adaptor (zip, skip, take, filter, step_by, ...)
                    for bi, t in flow.calls():
                        if callee_key(t["f"]) not in PUSHERS or len(t["args"]) < 2 or "loaded_files" not in place_chain(flow, t["args"][0])[0]:
                            continue
                        leaves = [x for x in flow.deep_origins(t["args"][1]) if x[0] == "call"]
                        srcs = [x for x in leaves if (x[1] or "").endswith("::into_iter") or (x[1] or "").endswith("::drain")]
                        from_variant = False
                        for x in srcs:
                            ct = ex.blocks[x[2]]["t"]
                            if ct["k"] == "call" and ct["args"] and ("@" + v["name"]) in place_chain(flow, ct["args"][0])[0]:
                                from_variant = True
                        if not from_variant:
                            continue
                        lossy = sorted({x[1] for x in leaves if not _lossfree_iteration(x[1] or "")})
                        if not lossy:
                            ok = True
                        else:
                            why = f" (the element-wise loop goes through {lossy}, which can drop elements)"
                rep.ob("extract", f"variant:{v['name']}", ok,
                       f"LoadedFileState::{v['name']} carries input files; extract_file must push every one of them to loaded_files" + why, ex.file, ex.line)

    # ---- check-runs ------------------------------------------------------------------------------------
    lf = F.body("libwild::Linker::link_for_arch")
    if lf is None:
        rep.lost("check-runs", "Linker::link_for_arch")
    else:
        cfg, flow = P.cfg(lf), P.flow(lf)
        links = [bi for bi, t in flow.calls() if callee_key(t["f"]) == "libwild::Linker::load_inputs_and_link"]
        verifs = [bi for bi, t in flow.calls() if callee_key(t["f"]) == "libwild::input_data::FileLoader::verify_inputs_unchanged"]
        if not links or not verifs:
            rep.lost("check-runs", "load_inputs_and_link / verify_inputs_unchanged calls in link_for_arch")
        else:
            L, V = links[0], verifs[0]
            rep.ob("check-runs", "postdominates", cfg.postdominates(V, L), "verify_inputs_unchanged is on every path after load_inputs_and_link returns", lf.file, lf.blocks[V]["t"]["l"])
            # no test of the link result before the verification
            okb, bad = success_blocks(lf, flow, cfg, lambda k: k == "libwild::Linker::load_inputs_and_link")
            rep.ob("check-runs", "before-result-inspected", V not in okb and V not in bad,
                   "the check is not conditional on the link result (inputs-changed must take precedence over other errors)", lf.file, lf.blocks[V]["t"]["l"])
            # result propagated
            t = lf.blocks[V]["t"]
            us = [u for u in uses_of_local(lf, t["dest"][0]) if u[1] != "drop"]
            rep.ob("check-runs", "result-used", bool(us), "the check's Result is propagated with `?`", lf.file, t["l"])
            okv, badv = success_blocks(lf, flow, cfg, lambda k: k == "libwild::input_data::FileLoader::verify_inputs_unchanged")
            # every normal-looking continuation (dependency file writing etc.) is on the success edge
            deps = [bi for bi, tt in flow.calls() if callee_key(tt["f"]) == "libwild::write_dependency_file"]
            for d in deps:
                rep.ob("check-runs", "depfile-after-check", d in okv, "the dependency file is written only after the check passed", lf.file, lf.blocks[d]["t"]["l"])

    # ---- check-body -------------------------------------------------------------------------------------
    vb = F.body("libwild::input_data::FileLoader::verify_inputs_unchanged")
    if vb is None:
        rep.lost("check-body", "verify_inputs_unchanged")
    else:
        flow = P.flow(vb)
        iters = [t for bi, t in flow.calls() if (callee_key(t["f"]) or "").endswith(("par_iter", "::iter", "into_par_iter", "into_iter"))]
        ok = False
        for t in iters:
            fields, _ = place_chain(flow, t["args"][0])
            if "loaded_files" in fields:
                ok = True
        rep.ob("check-body", "iterates-registry", ok, "the iteration source is self.loaded_files", vb.file, vb.line)
        folds = [callee_key(t["f"]) for bi, t in flow.calls() if (callee_key(t["f"]) or "").split("::")[-1] in ("try_for_each", "try_for_each_with", "for_each", "any", "all", "find_any", "try_fold")]
        rep.ob("check-body", "complete-iteration", any(f.endswith("try_for_each") for f in folds),
               f"every file is visited and the first error is returned (fold: {folds})", vb.file, vb.line)
        cl = F.closures_of(vb.key)
        found_cmp = False
        for c in cl:
            ccfg, cflow = P.cfg(c), P.flow(c)
            for sb in ccfg.reach:
                src = switch_source_call(c, cflow, sb)
                if not src:
                    continue
                fa = src[2]["f"].get("fn_args") or ""
                if src[0].split("::")[-1] in ("ne", "eq") and "PartialEq" in (src[2]["f"].get("fn") or "") and "std::time::SystemTime" in fa:
                    found_cmp = True
                    is_ne = src[0].endswith("::ne")
                    # operands: one from field modification_time, one from Metadata::modified
                    a0, _ = place_chain(cflow, src[2]["args"][0])
                    a1, _ = place_chain(cflow, src[2]["args"][1])
                    oc = cflow.origin_calls(src[2]["args"][0]) | cflow.origin_calls(src[2]["args"][1])
                    rep.ob("check-body", "compares-recorded-vs-current", ("modification_time" in a0 + a1) and ("std::fs::Metadata::modified" in oc),
                           "compares FileData.modification_time with a fresh Metadata::modified", c.file, src[2]["l"])
                    labels = switch_bool_labels(c, cflow, ccfg, sb)
                    # on inequality -> Err
                    for lab, tgt in ccfg.succ[sb]:
                        val = labels.get(lab)
                        if val is None:
                            continue
                        differs = val if is_ne else (not val)
                        if differs:
                            # all returns reachable from tgt must be Err
                            reach = ccfg.reachable_from(tgt)
                            oks = [bi for bi, si, pr, pl in cflow.defs.get(0, []) if si != "call" and bi in reach and pl["k"] == "agg" and pl.get("variant") == "Ok"]
                            rep.ob("check-body", "mismatch-is-error", not oks, "no Ok return is reachable from the timestamps-differ edge", c.file, src[2]["l"])
            # metadata errors propagate
            for bi, t in cflow.calls():
                if callee_key(t["f"]) in ("std::fs::metadata", "std::fs::Metadata::modified"):
                    us = [u for u in uses_of_local(c, t["dest"][0]) if u[1] != "drop"]
                    rep.ob("check-body", f"propagates:{callee_key(t['f'])}", bool(us), "metadata errors are not ignored", c.file, t["l"])
        rep.ob("check-body", "has-comparison", found_cmp, "the closure compares SystemTime values with ==/!= (exact, not ordering)", vb.file, vb.line)

    # ---- stamp-before-map ---------------------------------------------------------------------------------
    fo = F.body("libwild::input_data::FileData::open")
    if fo is None:
        rep.lost("stamp-before-map", "FileData::open")
    else:
        cfg, flow = P.cfg(fo), P.flow(fo)
        metas = [bi for bi, t in flow.calls() if callee_key(t["f"]) == "std::fs::File::metadata"]
        reads = [bi for bi, t in flow.calls() if callee_key(t["f"]) == "libwild::input_data::FileBytes::read"]
        if not metas or not reads:
            rep.lost("stamp-before-map", "File::metadata / FileBytes::read in FileData::open")
        else:
            dom = cfg.dom()
            rep.ob("stamp-before-map", "metadata-dominates-read", all(any(m in dom.get(r, ()) for m in metas) for r in reads),
                   "the timestamp is taken before the bytes are mapped: a modification between the two is then detected", fo.file, fo.line)
            # same file handle
            m_roots = place_chain(flow, fo.blocks[metas[0]]["t"]["args"][0])[1]
            r_roots = place_chain(flow, fo.blocks[reads[0]]["t"]["args"][0])[1]
            rep.ob("stamp-before-map", "same-handle", bool(m_roots & r_roots), "metadata() and the mapping use the same open File (no second open by path)", fo.file, fo.line)
    rep.assume("timestamp granularity of the filesystem is a runtime matter")
