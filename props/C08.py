"""C08 — dynamic symbol hash tables find every exported symbol.

Decided statically against glibc's lookup (elf/dl-lookup.c do_lookup_x, both the DT_GNU_HASH and the
DT_HASH branch): the expressions the writers use for the bloom word, the two bloom bits, the bucket,
the chain word and its end marker, the bucket's first-symbol index, and the SysV bucket/chain links —
as operator skeletons with immutable lets inlined; that the symbols are sorted by the same bucket
function the writer uses, with the name as tie-break; that chain entries and .dynsym entries come
from the same collection in index order. The hash functions themselves are the `object` crate's."""
import fold
import hirq
from mir import callee_key, op_const, op_place, place_chain, stable

EXPLANATION = ("operator-skeleton extraction (immutable lets inlined) from the HIR of write_gnu_hash_tables, "
               "write_sysv_hash_table, GnuHashLayout::bucket_for_hash and create_gnu_hash_layout, compared with the lookup "
               "expressions of glibc's do_lookup_x; who-may-call on the bucket function; value-flow of symbol_base")

EW = "libwild::elf_writer::"


def norm(s):
    return s.replace("gnu_hash_layout.", "G.").replace("sysv_hash_layout.", "S.").replace(" as usize", "")


def run(ctx, rep):
    F = ctx.facts(); P = ctx.program()
    rep.rule("gnu-bloom", "bloom[(hash / 64) % bloom_count] |= 1 << (hash % 64) | 1 << ((hash >> bloom_shift) % 64)   (glibc: bitmask[(h / __ELF_NATIVE_CLASS) & (nwords-1)], bits h & 63 and (h >> shift) & 63)")
    rep.rule("gnu-chain", "chain[i] = hash & !1, |= 1 exactly on the last symbol of a bucket; buckets[bucket_for_hash(hash)] = i + symbol_base for the first symbol of a bucket   (glibc: hasharr = &chain_zero[bucket]; stop at (*hasharr & 1))")
    rep.rule("gnu-bucket-fn", "bucket_for_hash(hash) = hash % bucket_count, used by both the sort in create_gnu_hash_layout and the writer")
    rep.rule("sort-key", "dynamic symbols are sorted by (bucket_for_hash(hash), name) before any consumer")
    rep.rule("sysv", "bucket = hash(name) % bucket_count; buckets[bucket] = first symbol index; chains[previous symbol index] = symbol index   (glibc: for (i = buckets[h % nbuckets]; i; i = chain[i]))")
    rep.rule("same-collection", "chains/.hash/.dynsym are produced by iterating layout.dynamic_symbol_definitions in index order; symbol_base originates from dynsym_start_index")

    g = F.hir_body(EW + "write_gnu_hash_tables")
    if g is None:
        rep.lost("gnu-bloom", EW + "write_gnu_hash_tables")
    else:
        lets = hirq.let_map(g["body"])
        stmts = [(x, norm(hirq.inlined(x, lets, keep=("hash", "bucket", "i", "sym_def", "start_of_chain", "last_in_chain")))) for x in hirq.statements(g["body"])]
        texts = [t for _x, t in stmts]
        lets_n = {k: norm(hirq.inlined(v, lets, keep=("hash", "i", "sym_def"))) for k, v in lets.items()}
        allv = texts + list(lets_n.values())

        def has(pred):
            return any(pred(t) for t in allv)
        bits = "((size_of() as u32) * lit:8)"
        rep.ob("gnu-bloom", "word-index", has(lambda t: f"((hash / {bits}) % G.bloom_count)" in t), "bloom word = (hash / 64) % bloom_count", g["file"], g["line"])
        rep.ob("gnu-bloom", "bit1", has(lambda t: f"(lit:1 << (hash % {bits}))" in t), "first bloom bit = 1 << (hash % 64)", g["file"], g["line"])
        rep.ob("gnu-bloom", "bit2", has(lambda t: f"(lit:1 << ((hash >> G.bloom_shift) % {bits}))" in t), "second bloom bit = 1 << ((hash >> bloom_shift) % 64)", g["file"], g["line"])
        rep.ob("gnu-bloom", "or-both", any(("|=" in t and "bloom[" in t and t.count("lit:1 <<") == 2) for t in texts), "both bits are OR-ed into the bloom word", g["file"], g["line"])
        rep.ob("gnu-bloom", "class-bits", _size_of_is_u64(F, P), "elf class bits = size_of::<u64>() * 8 (ELFCLASS64)", g["file"], g["line"])
        rep.ob("gnu-chain", "chain-word", any(t.replace("(*chain_out)", "chain_out").replace("*chain_out", "chain_out").startswith("(chain_out) = (hash & (!lit:1))") or "chain_out = (hash & (!lit:1))" in t.replace("(*", "").replace(")", "", 1) for t in texts) or any("= (hash & (!lit:1))" in t for t in texts),
               "chain word = hash & !1", g["file"], g["line"])
        rep.ob("gnu-chain", "end-marker", any(t.rstrip().endswith("|= lit:1") and "chain_out" in t for t in texts), "end of chain: chain word |= 1", g["file"], g["line"])
        rep.ob("gnu-chain", "bucket-first-index", any("buckets[" in t and "= ((i as u32) + G.symbol_base)" in t for t in texts), "buckets[b] = i + symbol_base (glibc indexes chains with symidx - symbias)", g["file"], g["line"])
        rep.ob("gnu-chain", "bucket-index", any(t.startswith(("buckets[(bucket)]", "buckets[bucket]")) for t in texts) and any(v == "G.bucket_for_hash(hash)" for v in lets_n.values()), "the bucket is bucket_for_hash(hash)", g["file"], g["line"])
        # end marker exactly on last_in_chain; bucket store exactly on start_of_chain
        ifs = [x for x in fold.walk(g["body"]) if x.get("e") == "if"]
        end_ok = start_ok = False
        for x in ifs:
            c = hirq.strip(x["cond"])
            body_sk = hirq.skeleton(x["then"], lambda n: None)
            if c.get("e") == "path" and c.get("name") == "last_in_chain" and "|= lit:1" in body_sk and "start_of_chain = lit:True" in body_sk:
                end_ok = True
            if c.get("e") == "path" and c.get("name") == "start_of_chain" and "buckets[" in body_sk and "start_of_chain = lit:False" in body_sk:
                start_ok = True
        rep.ob("gnu-chain", "end-on-last", end_ok, "the end marker is set under `last_in_chain`, which also re-arms start_of_chain", g["file"], g["line"])
        rep.ob("gnu-chain", "first-on-start", start_ok, "the bucket entry is written under `start_of_chain` only (first symbol of the chain)", g["file"], g["line"])
        lic = [v for k, v in lets_n.items() if "peek()" in v]
        rep.ob("gnu-chain", "last-definition", any("is_none_or(" in v and ("G.bucket_for_hash(next.format_specific.hash) != G.bucket_for_hash(hash)" in v or "!= bucket" in v) for v in lic),
               f"last_in_chain = next symbol absent or in a different bucket: {lic[:1]}", g["file"], g["line"])
        # fill(0)
        rep.ob("gnu-bloom", "zeroed", sum(1 for d, n in hirq.calls(g["body"], lambda d: d and d.endswith("::fill"))) >= 2, "bloom and buckets are zero-filled first", g["file"], g["line"])

    bf = F.hir_body("libwild::elf::GnuHashLayout::bucket_for_hash")
    if bf is None:
        rep.lost("gnu-bucket-fn", "GnuHashLayout::bucket_for_hash")
    else:
        sk = hirq.skeleton(bf["body"], lambda n: None).replace("local:", "")
        rep.ob("gnu-bucket-fn", "modulus", sk in ("{(hash % self.bucket_count)}", "(hash % self.bucket_count)"), f"bucket_for_hash = {sk}", bf["file"], bf["line"])
        callers = {stable(b.key) for b, bi, t in P.callers_of(lambda k: k == "libwild::elf::GnuHashLayout::bucket_for_hash")}
        rep.ob("gnu-bucket-fn", "shared", any("write_gnu_hash_tables" in c for c in callers) and any("create_gnu_hash_layout" in c for c in callers),
               f"callers: {sorted(callers)}", bf["file"], bf["line"])
    cl = F.hir_body("libwild::elf::create_gnu_hash_layout")
    if cl is None:
        rep.lost("sort-key", "create_gnu_hash_layout")
    else:
        import sortkey
        ok, why = sortkey.gnu_hash_sort_is_total(F, P)
        rep.ob("sort-key", "key", bool(ok), f"sort key = (bucket_for_hash(hash), name): symbols of one bucket are contiguous (glibc walks the chain linearly) and the order is total — {why}", cl["file"], cl["line"])
        lit = {k: hirq.skeleton(v, lambda n: None) for k, v in hirq.let_map(cl["body"]).items()}
        gl = " ".join(lit.values())
        rep.ob("sort-key", "bloom-count-literal", _struct_field_lit(cl, "bloom_count") == 1 and _allocate_bloom_words(F) == 1,
               "bloom_count = 1 (a power of two, as glibc's mask-based word selection requires); allocate() reserves exactly one bloom word", cl["file"], cl["line"])
        rep.ob("sort-key", "bucket-count-nonzero", "next_power_of_two" in hirq.skeleton(cl["body"], lambda n: None), "bucket_count = next_power_of_two(..) >= 1 (no modulo by zero)", cl["file"], cl["line"])

    s = F.hir_body(EW + "write_sysv_hash_table")
    if s is None:
        rep.lost("sysv", EW + "write_sysv_hash_table")
    else:
        lets = hirq.let_map(s["body"])
        texts = [norm(hirq.inlined(x, lets, keep=("hash", "bucket", "sym_index", "last", "i", "sym_def", "sym_index_usize"))) for x in hirq.statements(s["body"])]
        lets_n = {k: norm(hirq.inlined(v, lets, keep=("hash", "sym_def", "i"))) for k, v in lets.items()}
        rep.ob("sysv", "bucket", any(v in ("(hash % S.bucket_count)", "((hash % S.bucket_count))") or "(hash % S.bucket_count)" in v for v in lets_n.values()), "bucket = hash % bucket_count", s["file"], s["line"])
        rep.ob("sysv", "hash-of-name", any("hash(sym_def.name)" in v for v in lets_n.values()), "hash = object::elf::hash(name) (SysV hash)", s["file"], s["line"])
        rep.ob("sysv", "bucket-head", any(t.startswith("buckets[bucket] = sym_index") for t in texts), "buckets[bucket] = first symbol's index", s["file"], s["line"])
        rep.ob("sysv", "chain-link", any(t.startswith("chains[last] = sym_index") for t in texts), "chains[previous symbol's index] = this symbol's index", s["file"], s["line"])
        rep.ob("sysv", "last-update", any(t.startswith("last_in_bucket[bucket] = Some(sym_index_usize)") for t in texts), "the last-in-bucket record is the symbol's own index", s["file"], s["line"])
        idx = [v for v in lets_n.values() if "dynsym_start_index" in v]
        rep.ob("sysv", "index-base", any("epilogue.dynsym_start_index.checked_add(" in v for v in idx), "symbol index = dynsym_start_index + i", s["file"], s["line"])

    # ---- same collection -------------------------------------------------------------------------------------
    for key in (EW + "write_gnu_hash_tables", EW + "write_sysv_hash_table", EW + "write_dynamic_symbol_definitions"):
        b = F.body(key)
        if b is None:
            rep.lost("same-collection", key)
            continue
        flow = P.flow(b)
        ok = False
        for bi, t in flow.calls():
            ck = callee_key(t["f"]) or ""
            if ck.split("::")[-1] in ("iter", "into_iter", "par_iter", "par_chunks", "chunks", "len") and t["args"]:
                fields, _ = place_chain(flow, t["args"][0])
                if "dynamic_symbol_definitions" in fields:
                    ok = True
        rep.ob("same-collection", key.split("::")[-1], ok, "iterates layout.dynamic_symbol_definitions", b.file, b.line)
    fe = F.body("<libwild::elf::Elf as libwild::platform::Platform>::finalise_layout_epilogue") or next((b for b in F.all_bodies if b.key.endswith("finalise_layout_epilogue") and "elf" in b.key), None)
    if fe is None:
        rep.lost("same-collection", "finalise_layout_epilogue")
    else:
        from mir import field_stores
        flow = P.flow(fe)
        st = [(bi, s_) for bi, s_ in field_stores(fe, "symbol_base")]
        ok = bool(st)
        for bi, s_ in st:
            o = flow.origins(s_["rv"]["a"]) if "a" in s_["rv"] else []
            names = fe.d.get("names") or {}
            ok = ok and any(x[0] == "param" and _name_of(names, x[1]) == "dynsym_start_index" for x in o)
        rep.ob("same-collection", "symbol_base", ok, "GnuHashLayout.symbol_base is assigned from the dynsym_start_index parameter", fe.file, fe.line)
    fl = next((v[0] for k, v in F.hir().items() if k.endswith("EpilogueLayoutState::finalise_layout")), None)
    if fl is None:
        rep.lost("same-collection", "EpilogueLayoutState::finalise_layout")
    else:
        arg_ids = set(); fld_ids = set()
        for x in fold.walk(fl["body"]):
            if x.get("e") == "call" and (x["f"].get("def") or "").endswith("finalise_layout_epilogue") and len(x["args"]) >= 5:
                a = hirq.strip(x["args"][4])
                if a.get("res") == "Local":
                    arg_ids.add(a["id"])
            if x.get("e") == "struct":
                for n, v in x["fields"]:
                    v = hirq.strip(v)
                    if n == "dynsym_start_index" and v.get("res") == "Local":
                        fld_ids.add(v["id"])
        rep.ob("same-collection", "one-start-index", bool(arg_ids) and arg_ids == fld_ids,
               "the dynsym_start_index handed to finalise_layout_epilogue (-> symbol_base, chain_count) is the same binding stored in EpilogueLayout (-> .dynsym indices)", fl["file"], fl["line"])
    rep.assume("object::elf::gnu_hash / hash implement the standard hash functions (dependency)")
    rep.assume("glibc selects the bloom word with a mask: correct for any power-of-two bloom_count, wild uses 1")


def _size_of_is_u64(F, P):
    b = F.body(EW + "write_gnu_hash_tables")
    if b is None:
        return False
    for bi, t in P.flow(b).calls():
        if (callee_key(t["f"]) or "").endswith("mem::size_of"):
            return "u64" in (t["f"].get("fn_args") or "")
    return False


def _allocate_bloom_words(F):
    a = F.hir_body("libwild::elf::GnuHashLayout::allocate")
    if a is None:
        return None
    lets = hirq.let_map(a["body"])
    sk = hirq.inlined(a["body"], lets)
    import re
    m = re.search(r"\(size_of\(\) \* \(?lit:(\d+)\)?\)", sk)
    return int(m.group(1)) if m else None


def _struct_field_lit(hb, field):
    for x in fold.walk(hb["body"]):
        if x.get("e") == "struct":
            for n, v in x["fields"]:
                if n == field and v.get("e") == "lit":
                    return v["v"]
    return None


def _name_of(names, local):
    for n, pl in names:
        if pl[0] == local and not pl[1]:
            return n
    return None
