"""C09 — position-independent outputs are correct at any load address.

Decided statically (the structural clauses, not the image-shift equality itself):
 * RELR-vs-RELA decision agreement between the pass that reserves dynamic-relocation space
   (elf::process_relocation, Elf::allocate_resolution) and the pass that writes the entries
   (TableWriter::write_address_relocation and its callers): the decision atoms on both sides are
   reconstructed as expression trees, their operands classified (offset within the input section /
   final address / section alignment / constant) and both decisions evaluated over a grid of
   (offset, alignment, placement) - they must agree everywhere, and the writer must only ever choose
   RELR for an even address.
 * entry contents: RELR entry = place, word at place = address; RELA entry = (place, RELATIVE, addend =
   address), word at place = 0.
 * the value returned by write_address_relocation is what callers store at the place.
 * on the relocatable-and-address edge no caller stores a raw address without a dynamic relocation.
 * .relr.dyn exists in the writer iff args.is_relr_enabled()."""
import fold
import hirq
from mir import (callee_key, declared_key, deciders, expr_tree, op_const, op_place, render, simplify, stable,
                 switch_chain, switch_bool_labels, switch_source_call, tree_leaves)

EXPLANATION = ("decision-atom reconstruction (expression trees over MIR with parameter expansion through unique callers) for the "
               "RELR/RELA choice in the allocator and the writer, operand classification, exhaustive evaluation of both decisions "
               "over an (offset, alignment, placement) grid; value-flow rules on the entry contents and the returned word; "
               "restricted-CFG reachability for raw address stores")

WAR = "libwild::elf_writer::TableWriter::write_address_relocation"
OFFSET_SOURCES = ("libwild::platform::Relocation::offset",)
ALIGN_SOURCES = ("sh_addralign",)
ADDRESS_HINTS = ("section_address", "got_address", ".address", "value_with_addend", "raw_value", "plt_address")


def classify(tree):
    """'off' (offset within the input section), 'addr' (final address), 'align', ('k', v) or None"""
    t = simplify(tree)
    if t[0] == "alt":
        cs = {classify(x) if not isinstance(classify(x), tuple) else classify(x) for x in t[2]}
        return cs.pop() if len(cs) == 1 else None
    if t[0] == "proj" and t[1][0] == "alt":
        cs = {classify(("proj", x, t[2])) for x in t[1][2]}
        return cs.pop() if len(cs) == 1 else None
    if t[0] == "k":
        return ("k", t[1])
    leaves = tree_leaves(t)
    txt = render(t)
    calls = [l[1] for l in leaves if l[0] == "call"]
    if any(c.endswith(ALIGN_SOURCES) for c in calls) or txt.endswith(".alignment"):
        return "align"
    if any(h in txt for h in ADDRESS_HINTS):
        return "addr"
    if any(c in OFFSET_SOURCES for c in calls) or any(l[0] == "param" and "offset" in l[1].split(".")[0] for l in leaves):
        return "off"
    return None


class Pred:
    """evaluates a decision atom over env {'off','addr','align'}"""

    def __init__(self, F, tree):
        self.F = F
        self.tree = simplify(tree)
        self.text = render(self.tree)

    def ev(self, env, t=None):
        t = self.tree if t is None else t
        k = t[0]
        c = classify(t)
        if isinstance(c, tuple):
            return c[1]
        if c in ("off", "addr", "align") and k != "call" or (k == "call" and c in ("off", "align") and not t[1].startswith("libwild::elf::relr")):
            if k == "call" and t[1].endswith("is_multiple_of"):
                pass
            else:
                return env[c]
        if k == "call":
            key = t[1]
            args = [self.ev(env, a) for a in t[2]]
            if key.endswith("is_multiple_of"):
                return args[0] % args[1] == 0
            hb = self.F.hir_body(key)
            if hb is None:
                raise ValueError("no body for " + key)
            names = [hirq.pat_name(p) for p in hb.get("params", [])]
            return HirEval(dict(zip(names, args))).ev(hb["body"])
        if k == "bin":
            a, b = self.ev(env, t[2]), self.ev(env, t[3])
            return BIN[t[1]](a, b)
        if k == "un" and t[1] == "Not":
            return not self.ev(env, t[2])
        raise ValueError("cannot evaluate " + render(t))


BIN = {"Add": lambda a, b: a + b, "Sub": lambda a, b: a - b, "Rem": lambda a, b: a % b, "BitAnd": lambda a, b: a & b,
       "Eq": lambda a, b: a == b, "Ne": lambda a, b: a != b, "Ge": lambda a, b: a >= b, "Gt": lambda a, b: a > b,
       "Le": lambda a, b: a <= b, "Lt": lambda a, b: a < b, "Mul": lambda a, b: a * b, "Shr": lambda a, b: a >> b}
HBIN = {"&&": lambda a, b: a and b, "||": lambda a, b: a or b, ">=": BIN["Ge"], ">": BIN["Gt"], "<=": BIN["Le"], "<": BIN["Lt"],
        "==": BIN["Eq"], "!=": BIN["Ne"], "%": BIN["Rem"], "&": BIN["BitAnd"], "+": BIN["Add"], "-": BIN["Sub"], "*": BIN["Mul"]}
HNAMES = {"And": "&&", "Or": "||", "Ge": ">=", "Gt": ">", "Le": "<=", "Lt": "<", "Eq": "==", "Ne": "!=", "Rem": "%", "BitAnd": "&",
          "Add": "+", "Sub": "-", "Mul": "*"}


class HirEval:
    def __init__(self, env):
        self.env = env

    def ev(self, e):
        e = hirq.strip(e)
        k = e.get("e")
        if k == "lit":
            return e["v"]
        if k == "path" and e.get("res") == "Local":
            return self.env[e["name"]]
        if k == "bin":
            op = HNAMES.get(e["op"], e["op"])
            if op == "&&":
                return self.ev(e["a"]) and self.ev(e["b"])
            if op == "||":
                return self.ev(e["a"]) or self.ev(e["b"])
            return HBIN[op](self.ev(e["a"]), self.ev(e["b"]))
        if k == "un" and e["op"] in ("!", "Not"):
            return not self.ev(e["a"])
        if k == "mcall" and e["name"] == "is_multiple_of":
            return self.ev(e["recv"]) % self.ev(e["args"][0]) == 0
        if k == "block" and not e["stmts"] and e["expr"] is not None:
            return self.ev(e["expr"])
        if k == "cast":
            return self.ev(e["a"])
        raise ValueError("cannot evaluate HIR node " + str(k))


def decision_atoms(P, F, body, a_blocks, b_blocks):
    """[(tree, value-on-the-A-side)] for the switches deciding A (RELR) vs B (RELA)"""
    cfg, flow = P.cfg(body), P.flow(body)
    out = []
    for sb, labs in deciders(cfg, a_blocks, b_blocks):
        t = body.blocks[sb]["t"]
        tree = simplify(expr_tree(P, body, t["d"], depth=16))
        k, payload, _bi, flips = switch_chain(body, flow, sb)
        if k == "call":
            tree = simplify(("call", callee_key(payload["f"]) or declared_key(payload["f"]), [expr_tree(P, body, a, depth=16) for a in payload["args"]]))
        elif k == "bin":
            tree = simplify(("bin", payload["op"], expr_tree(P, body, payload["a"], depth=16), expr_tree(P, body, payload["b"], depth=16)))
        # which switch value leads to A
        a_vals = []
        for lab, (ra, rb) in labs.items():
            if ra:
                bl = switch_bool_labels(body, flow, cfg, sb).get(lab)
                a_vals.append(bl if bl is not None else lab)
        out.append((sb, tree, a_vals, t["dty"]))
    return out


def alloc_sites(F, body, flow):
    A, B = [], []
    for bi, t in flow.calls():
        for a in t["args"]:
            d = (op_const(a) or {}).get("def") or ""
            if d.endswith("part_id::RELR_DYN"):
                A.append(bi)
            elif d.endswith("part_id::RELA_DYN_RELATIVE"):
                B.append(bi)
    return A, B


GRID = [(off, al, k) for off in range(0, 6) for al in (1, 2, 4, 8, 16) for k in range(0, 4)]


def run(ctx, rep):
    F = ctx.facts(); P = ctx.program()
    rep.rule("section-decision", "for relocations in input sections, the allocator's RELR/RELA decision equals the writer's for every (offset, section alignment, section placement), and the writer chooses RELR only for even addresses")
    rep.rule("got-decision", "for GOT entries the allocator's decision depends only on is_relr_enabled(), the writer's callers pass a constant eligibility, and GOT addresses are 8-byte aligned")
    rep.rule("relr-enabled", "TableWriter.relr_dyn is Some exactly when args.is_relr_enabled()")
    rep.rule("entry-contents", "RELR: entry=place, returned word=address; RELA: r_offset=place, r_addend=address, type=Relative, returned word=0; one entry per successful call")
    rep.rule("result-stored", "the word returned by write_address_relocation is what the caller stores at the place")
    rep.rule("no-raw-address", "on the (relocatable output, address-valued resolution) edge no caller stores the raw address without a dynamic relocation")

    w = F.body(WAR)
    if w is None:
        rep.lost("section-decision", WAR)
        return
    wflow, wcfg = P.flow(w), P.cfg(w)
    A = [bi for bi, t in wflow.calls() if (callee_key(t["f"]) or "").endswith("split_off_first_mut") and "Relr64" in t["f"]["fn_args"]]
    B = [bi for bi, t in wflow.calls() if (callee_key(t["f"]) or "").endswith("split_off_first_mut") and "Rela64" in t["f"]["fn_args"]]
    rep.ob("entry-contents", "arms", len(A) == 1 and len(B) == 1, f"{len(A)} RELR take site(s), {len(B)} RELA take site(s) in write_address_relocation", w.file, w.line)
    if len(A) != 1 or len(B) != 1:
        return
    watoms = decision_atoms(P, F, w, A, B)
    # writer atoms: Option discriminant of relr_dyn + parity atom (local call or parameter)
    w_enabled = [a for a in watoms if "relr_dyn" in render(a[1])]
    w_parity = [a for a in watoms if a not in w_enabled]
    rep.ob("relr-enabled", "writer-atom", len(w_enabled) == 1 and w_enabled[0][2] in ([1], ["Some"], [True]), f"writer tests {[render(a[1]) for a in w_enabled]} (RELR on {[a[2] for a in w_enabled]})", w.file, w.line)
    rep.ob("section-decision", "writer-parity-atom", len(w_parity) == 1, f"writer decision atoms besides relr_dyn: {[render(a[1]) for a in w_parity]}", w.file, w.line)

    # allocator: section relocations
    pr = F.body("libwild::elf::process_relocation")
    sect_alloc = None
    if pr is None:
        rep.lost("section-decision", "libwild::elf::process_relocation")
    else:
        a, b = alloc_sites(F, pr, P.flow(pr))
        if len(a) != 1 or len(b) != 1:
            rep.ob("section-decision", "allocator-sites", False, f"{len(a)} RELR / {len(b)} RELA(relative) allocation sites in process_relocation", pr.file, pr.line)
        else:
            _field_width(rep, P, F, pr, a + b)
            _relr_eligible_table(rep, F)
            _symbolic_field_width(rep, P, F, pr)
            atoms = decision_atoms(P, F, pr, a, b)
            en = [x for x in atoms if render(x[1]).startswith("is_relr_enabled(")]
            par = [x for x in atoms if x not in en]
            rep.ob("relr-enabled", "allocator-atom:process_relocation", len(en) == 1 and en[0][2] == [True], f"{[render(x[1]) for x in en]}", pr.file, pr.line)
            sect_alloc = par
    # writer call sites
    sites = P.callers_of(lambda k: k == WAR)
    rep.floor("result-stored", "call sites of write_address_relocation", len(sites), 3)
    sect_sites = []
    got_sites = []
    for cb, cbi, ct in sites:
        if "process_resolution" in cb.key:
            got_sites.append((cb, cbi, ct))
        else:
            sect_sites.append((cb, cbi, ct))

    def writer_decision_for(cb, ct):
        """list of Pred (conjunction) for the writer's parity decision at this call site"""
        preds = []
        for sb, tree, a_vals, dty in w_parity:
            if tree[0] == "param":
                idx = next((i for i in range(1, w.d["argc"] + 1) if w.local_name(i) == tree[1]), None)
                if idx is None:
                    return None
                tr = simplify(expr_tree(P, cb, ct["args"][idx - 1], depth=18))
                preds.append((Pred(F, tr), a_vals))
            else:
                # local atom: substitute parameters with the caller's arguments
                tr = substitute(P, w, tree, cb, ct)
                preds.append((Pred(F, tr), a_vals))
        return preds

    def evalc(preds, env):
        v = True
        for p, a_vals in preds:
            r = p.ev(env)
            v = v and (r in a_vals or bool(r) in a_vals)
        return v

    if sect_alloc is not None:
        apreds = [(Pred(F, t), av) for _sb, t, av, _d in sect_alloc]
        rep.ob("section-decision", "one-writer-site", len(sect_sites) == 1, f"section-relocation call sites: {[stable(c.key) for c, _, _ in sect_sites]}", pr.file, pr.line)
        for cb, cbi, ct in sect_sites:
            wp = writer_decision_for(cb, ct)
            if wp is None:
                rep.ob("section-decision", f"{stable(cb.key)}:shape", False, "writer decision not reconstructible", cb.file, ct["l"])
                continue
            desc = f"allocator: {' && '.join(p.text for p, _ in apreds) or 'true'}   writer: {' && '.join(p.text for p, _ in wp) or 'true'}"
            bad = None; odd = None; err = None
            for off, al, k in GRID:
                env = {"off": off, "align": al, "addr": al * (k + 1) * 1 + off if al > 1 else (k + 1) + off}
                try:
                    av = evalc(apreds, env); wv = evalc(wp, env)
                except (ValueError, KeyError, TypeError) as e:
                    err = str(e); break
                if av != wv and bad is None:
                    bad = (env, av, wv)
                if wv and env["addr"] % 2 and odd is None:
                    odd = env
            if err:
                rep.ob("section-decision", f"{stable(cb.key)}:evaluable", False, f"cannot evaluate decision ({err}); {desc}", cb.file, ct["l"])
                continue
            rep.ob("section-decision", f"{stable(cb.key)}:agree", bad is None,
                   desc + (f"; disagree at offset={bad[0]['off']} alignment={bad[0]['align']} address={bad[0]['addr']:#x}: allocator RELR={bad[1]}, writer RELR={bad[2]} (one table is over-, the other under-allocated: 'insufficient allocation')" if bad else f"; equal on {len(GRID)} (offset, alignment, placement) points"),
                   cb.file, ct["l"])
            rep.ob("section-decision", f"{stable(cb.key)}:even-only", odd is None,
                   "RELR is chosen only for even addresses" if odd is None else f"RELR chosen for odd address {odd['addr']:#x} (offset={odd['off']}, alignment={odd['align']})", cb.file, ct["l"])
    # GOT
    ar = next((b for b in F.all_bodies if b.key.endswith("::allocate_resolution") and "elf::Elf" in b.key), None)
    if ar is None:
        rep.lost("got-decision", "Elf::allocate_resolution")
    else:
        fl = P.flow(ar)
        a, b = alloc_sites(F, ar, fl)
        rep.ob("got-decision", "allocator-pairs", len(a) == len(b) and len(a) >= 2, f"{len(a)} RELR / {len(b)} RELA(relative) reservation sites", ar.file, ar.line)
        atoms = decision_atoms(P, F, ar, a, b)
        extra = [render(x[1]) for x in atoms if not render(x[1]).startswith("is_relr_enabled(") and x[0] in _between(P, ar, a, b)]
        only = all(render(x[1]).startswith("is_relr_enabled(") for x in atoms if _separates_pair(P, ar, x[0], a, b))
        rep.ob("got-decision", "allocator-only-enabled", only, f"switches separating a RELR reservation from its RELA twin: {[render(x[1]) for x in atoms if _separates_pair(P, ar, x[0], a, b)]}", ar.file, ar.line)
    for cb, cbi, ct in got_sites:
        wp = writer_decision_for(cb, ct)
        ok = wp is not None
        txt = ""
        if ok:
            try:
                vals = set()
                for k in range(0, 6):
                    env = {"addr": 8 * k, "off": 8 * k, "align": 8}
                    vals.add(evalc(wp, env))
                ok = vals == {True}
                txt = " && ".join(p.text for p, _ in wp)
            except (ValueError, KeyError, TypeError) as e:
                ok = False; txt = str(e)
        rep.ob("got-decision", f"writer:{ct['l'] and stable(cb.key)}:{len([1 for x in got_sites if x[2]['l'] <= ct['l']])}", ok,
               f"GOT call site decision `{txt}` is true for every 8-aligned address (allocator reserves RELR whenever enabled)", cb.file, ct["l"])
    consts = F.consts()
    ge = next((v for k, v in consts.items() if k.endswith("elf::GOT_ENTRY_SIZE")), None)
    rep.ob("got-decision", "got-entry-size", ge is not None and ge % 2 == 0, f"GOT_ENTRY_SIZE = {ge} (GOT entries are at even addresses given the section's 8-byte alignment)", "libwild/src/elf.rs", 0)

    # relr-enabled: the constructor
    tn = F.body("libwild::elf_writer::TableWriter::new")
    if tn is None:
        rep.lost("relr-enabled", "TableWriter::new")
    else:
        names = [tn.local_name(i) for i in range(1, tn.d["argc"] + 1)]
        csites = P.callers_of(lambda k: k == tn.key)
        rep.floor("relr-enabled", "TableWriter::new call sites", len(csites), 2)
        # find which param controls the `then`/Option creation for relr_dyn
        idx = None
        for i, n in enumerate(names):
            if n and "relr" in n or n == "pack_relative_relocs":
                idx = i
        if idx is None:
            rep.ob("relr-enabled", "constructor-param", False, f"no RELR switch parameter among {names}", tn.file, tn.line)
        else:
            for cb, cbi, ct in csites:
                tr = simplify(expr_tree(P, cb, ct["args"][idx], depth=10))
                rep.ob("relr-enabled", f"ctor:{stable(cb.key)}", render(tr).startswith("is_relr_enabled("), f"TableWriter::new({names[idx]} = {render(tr)})", cb.file, ct["l"])
            # in new: relr_dyn field built from bool::then(param)
            flow = P.flow(tn)
            ok = False
            for bi, t in flow.calls():
                ck = callee_key(t["f"]) or ""
                if ck.endswith("bool::then") or ck.endswith("::then"):
                    tr = expr_tree(P, tn, t["args"][0], depth=6, expand_params=0)
                    if tr[0] == "param" and tr[1] == names[idx]:
                        ok = True
            rep.ob("relr-enabled", "ctor:then", ok, f"relr_dyn = {names[idx]}.then(|| take(RELR_DYN))", tn.file, tn.line)

    # entry contents
    _entry_contents(rep, P, F, w, wflow, wcfg, A, B)
    # result stored
    for cb, cbi, ct in sites:
        _result_stored(rep, P, F, cb, cbi, ct)
    # raw address
    _no_raw(rep, P, F)
    absolute_flag(ctx, rep, F, P)
    rep.assume("the section containing a relocation is placed at an address that is a multiple of its sh_addralign (layout), so offset parity = address parity when alignment >= 2")
    rep.assume("the dynamic loader applies RELA RELATIVE as *place = base + addend and RELR as *place += base")


def _deepen(P, cb, op, tr):
    """re-expands with alternatives when an operand cannot be classified from the single-caller expansion"""
    def bad(t):
        if t[0] == "call" and not t[1].endswith(("is_multiple_of",)) and P.facts.hir_body(t[1]) is not None:
            return any(classify(a) is None for a in t[2])
        return False
    if bad(tr):
        from mir import alternatives
        with alternatives():
            return simplify(expr_tree(P, cb, op, depth=22, expand_params=3))
    return tr


def substitute(P, w, tree, cb, ct):
    if tree[0] == "param":
        idx = next((i for i in range(1, w.d["argc"] + 1) if w.local_name(i) == tree[1]), None)
        if idx is not None:
            inner = simplify(expr_tree(P, cb, ct["args"][idx - 1], depth=18))
            return ("proj", inner, tree[2]) if tree[2] else inner
        return tree
    if tree[0] == "call":
        return ("call", tree[1], [substitute(P, w, x, cb, ct) for x in tree[2]])
    if tree[0] == "bin":
        return ("bin", tree[1], substitute(P, w, tree[2], cb, ct), substitute(P, w, tree[3], cb, ct))
    if tree[0] == "un":
        return ("un", tree[1], substitute(P, w, tree[2], cb, ct))
    return tree


def _separates_pair(P, body, sb, a, b):
    """sb separates some RELR site from its nearest RELA twin (its successors lead to exactly one of a nearby pair)"""
    cfg = P.cfg(body)
    for lab, tgt in cfg.succ[sb]:
        r = cfg.reachable_from(tgt)
    # a switch whose two successors are (or directly lead to) one RELR and one RELA site
    succs = [t for _l, t in cfg.succ[sb]]
    hits = []
    for s in succs:
        x = s
        for _ in range(4):
            if x in a:
                hits.append("A"); break
            if x in b:
                hits.append("B"); break
            nx = [t for _l, t in cfg.succ[x]]
            if len(nx) != 1:
                break
            x = nx[0]
    return sorted(hits) == ["A", "B"]


def _between(P, body, a, b):
    return set()


def _entry_contents(rep, P, F, w, flow, cfg, A, B):
    names = {w.local_name(i): i for i in range(1, w.d["argc"] + 1)}
    place, addr = names.get("place"), names.get("relative_address")
    relr_region = cfg.reachable_from(A[0], avoid=B)
    rela_region = cfg.reachable_from(B[0], avoid=A)
    sets = [(bi, t) for bi, t in flow.calls() if (callee_key(t["f"]) or "").split("::")[-1] == "set" and "object::" in (callee_key(t["f"]) or "")]
    def field_of(t):
        tr = expr_tree(P, w, t["args"][0], depth=8, expand_params=0)
        return render(tr)
    def val_of(t):
        return render(simplify(expr_tree(P, w, t["args"][2], depth=8, expand_params=0)))
    relr_sets = [(field_of(t), val_of(t)) for bi, t in sets if bi in relr_region and bi not in rela_region]
    rela_sets = [(field_of(t), val_of(t)) for bi, t in sets if bi in rela_region and bi not in relr_region]
    rep.ob("entry-contents", "relr-entry", len(relr_sets) == 1 and relr_sets[0][1] == "place", f"RELR arm stores {relr_sets}", w.file, w.line)
    d = dict((f.split(".")[-1], v) for f, v in rela_sets)
    rep.ob("entry-contents", "rela-offset", d.get("r_offset") == "place", f"r_offset = {d.get('r_offset')}", w.file, w.line)
    rep.ob("entry-contents", "rela-addend", d.get("r_addend") == "relative_address", f"r_addend = {d.get('r_addend')}", w.file, w.line)
    info = d.get("r_info") or ""
    rep.ob("entry-contents", "rela-type", "get_dynamic_relocation_type(" in info and "Relative" in info, f"r_info = {info}", w.file, w.line)
    # returned words
    rets = {}
    for bi, blk in enumerate(w.blocks):
        if blk.get("cleanup") or bi not in cfg.reach:
            continue
        for s in blk["s"]:
            if s["k"] == "assign" and s["p"] == [0, []] and s["rv"]["k"] == "agg" and s["rv"].get("variant") == "Ok":
                v = render(simplify(expr_tree(P, w, s["rv"]["ops"][0], depth=6, expand_params=0)))
                region = "relr" if bi in relr_region and bi not in rela_region else "rela" if bi in rela_region and bi not in relr_region else "both"
                rets.setdefault(region, []).append(v)
    rep.ob("entry-contents", "relr-word", rets.get("relr") == ["relative_address"], f"RELR arm returns Ok({rets.get('relr')}) - the loader adds the base to the word in place", w.file, w.line)
    rep.ob("entry-contents", "rela-word", rets.get("rela") == ["0"], f"RELA arm returns Ok({rets.get('rela')}) - the loader overwrites the word with base+addend", w.file, w.line)
    rep.ob("entry-contents", "no-shared-ok", "both" not in rets, "every Ok return lies in exactly one arm (exactly one dynamic relocation per successful call)", w.file, w.line)


def _result_stored(rep, P, F, cb, cbi, ct):
    """the call's Ok value reaches a store through a pointer, or the function's own Ok return"""
    flow, cfg = P.flow(cb), P.cfg(cb)
    dest = ct["dest"][0]
    # follow the value forward: locals derived from dest
    derived = {dest}
    changed = True
    while changed:
        changed = False
        for l, ds in flow.defs.items():
            if l in derived:
                continue
            for bi, si, _proj, payload in ds:
                src = []
                if si == "call":
                    if (callee_key(payload["f"]) or "").endswith(("Try>::branch", "Try::branch")) or declared_key(payload["f"]) in ("std::ops::Try::branch",):
                        src = [op_place(a) for a in payload["args"]]
                elif payload["k"] in ("use", "cast"):
                    src = [op_place(payload["a"])]
                if any(s and s[0] in derived for s in src):
                    derived.add(l); changed = True
    stored = False
    how = ""
    for bi, blk in enumerate(cb.blocks):
        if blk.get("cleanup"):
            continue
        for s in blk["s"]:
            if s["k"] != "assign" or s["rv"]["k"] not in ("use", "cast"):
                continue
            src = op_place(s["rv"]["a"])
            if src and src[0] in derived and any(p.startswith("@Continue") or p == ".0" for p in src[1]) or (src and src[0] in derived and not src[1]):
                dst = s["p"]
                if dst[1] and dst[1][0] == "*":
                    stored = True; how = f"*{cb.local_name(dst[0]) or '_' + str(dst[0])} = result"
                if dst == [0, []]:
                    stored = True; how = "returned to the caller"
    if dest == 0:
        stored = True; how = "returned to the caller"
    rep.ob("result-stored", f"{stable(cb.key)}:arg0={render(simplify(expr_tree(P, cb, ct['args'][1], depth=5, expand_params=0)))}", stored, how or "the returned word is not stored at the place", cb.file, ct["l"])


def _no_raw(rep, P, F):
    b = F.body("libwild::elf_writer::write_absolute_relocation")
    if b is None:
        rep.lost("no-raw-address", "write_absolute_relocation")
        return
    flow, cfg = P.flow(b), P.cfg(b)
    avoid = set()
    for sb in cfg.reach:
        src = switch_source_call(b, flow, sb)
        if not src:
            continue
        name = src[0]
        labs = switch_bool_labels(b, flow, cfg, sb)
        for lab, v in labs.items():
            if name.endswith("OutputKind::is_relocatable") and v is False:
                avoid.add((sb, lab))
            if name.endswith("Resolution::is_absolute") and v is True:
                avoid.add((sb, lab))
            if name.endswith("SectionFlags::is_alloc") or name.endswith("::is_alloc"):
                if v is False:
                    avoid.add((sb, lab))
    rep.ob("no-raw-address", "guards-found", len(avoid) >= 3, f"{len(avoid)} edges removed for (alloc section, relocatable output, non-absolute resolution)", b.file, b.line)
    reach = cfg.reachable_avoiding_edges(0, avoid)
    handlers = [bi for bi, t in flow.calls() if (callee_key(t["f"]) or "").split("::")[-1] in ("write_address_relocation", "write_dynamic_symbol_relocation", "write_ifunc_relocation_for_data")]
    residual = [bi for bi, t in flow.calls() if (declared_key(t["f"]) or "").endswith("FromResidual::from_residual")]
    raw = []
    for bi, t in flow.calls():
        if bi in reach and (callee_key(t["f"]) or "").endswith("value_with_addend"):
            # can an exit be reached from here (inside the restricted CFG) without a handler or an error propagation?
            r = cfg.reachable_avoiding_edges(bi, avoid, avoid_blocks=set(handlers) | set(residual))
            if any(x in r for x in cfg.exits()):
                raw.append(t["l"])
    rep.ob("no-raw-address", "write_absolute_relocation", not raw, "every address computed on the (alloc, relocatable, non-absolute) edge goes through a dynamic-relocation writer" if not raw else f"raw address returned at line(s) {raw}", b.file, b.line)
    # constant-zero arm must be the weak-undefined arm only
    pr = F.body("libwild::elf_writer::TableWriter::process_resolution")
    if pr is None:
        rep.lost("no-raw-address", "process_resolution")
        return
    flow, cfg = P.flow(pr), P.cfg(pr)
    avoid = set()
    for sb in cfg.reach:
        src = switch_source_call(pr, flow, sb)
        if not src:
            continue
        labs = switch_bool_labels(pr, flow, cfg, sb)
        for lab, v in labs.items():
            if src[0].endswith("OutputKind::is_relocatable") and v is False:
                avoid.add((sb, lab))
            if src[0].endswith("ValueFlags::is_address") and v is False:
                avoid.add((sb, lab))
    reach = cfg.reachable_avoiding_edges(0, avoid)
    raws = []
    for bi, blk in enumerate(pr.blocks):
        if blk.get("cleanup") or bi not in reach:
            continue
        for s in blk["s"]:
            if s["k"] == "assign" and s["p"][1] == ["*"] and (pr.local_name(s["p"][0]) or "") == "got_entry" or (s["k"] == "assign" and s["p"][1] == ["*"] and "u64" in pr.locals[s["p"][0]] and s["rv"]["k"] == "use"):
                v = render(simplify(expr_tree(P, pr, s["rv"]["a"], depth=6, expand_params=0))) if s["rv"]["k"] == "use" else "?"
                if "raw_value" in v or "plt_address(" in v and "write_address_relocation" not in v:
                    raws.append((s["l"], v))
                # the stored value is usually the join of an if/else: judge every definition of the joined local that is
                # reachable under (is_address, relocatable) - whatever further conditions the source adds
                for dbi, dv in _joined_defs(P, pr, flow, s["rv"].get("a")):
                    if dbi in reach and ("raw_value" in dv or "plt_address" in dv) and "write_address_relocation" not in dv:
                        raws.append((pr.blocks[dbi]["t"].get("l"), dv))
    rep.ob("no-raw-address", "process_resolution", len(avoid) >= 2 and not raws, "on the (is_address, relocatable) edges every GOT word comes from write_address_relocation or is 0 with a symbol-based relocation" if not raws else f"raw GOT stores: {raws}", pr.file, pr.line)


def _symbolic_field_width(rep, P, F, pr):
    """Sibling of relative-field-width for interposable symbols: a direct absolute reference from a writable section to a symbol resolved at run time becomes a
    symbolic dynamic relocation (R_X86_64_64 & co.), which also rewrites a whole 8-byte word (genuine defect, fixed in /repo 711ed45: `.long foo` with -shared)."""
    import decide
    rep.rule("symbolic-field-width", "in process_relocation the RELA_DYN_GENERAL reservation for a direct reference to an interposable symbol from a writable section is, on the "
             "kind == Absolute path, reached only through the ByteSize(8) test of the relocation's size, whose failing side ends in an error")
    flow, cfg = P.flow(pr), P.cfg(pr)
    full = decide.all_edge_atoms_full(P, F, pr)
    ef = cfg.edge_facts()
    site = None
    for bi, t in flow.calls():
        if not any(((op_const(a) or {}).get("def") or "").endswith("part_id::RELA_DYN_GENERAL") for a in t["args"]):
            continue
        facts_ = {str(full[e][0]): full[e][1] for e in ef.get(bi, ()) if e in full}
        if any("needs_direct" in k and v is True for k, v in facts_.items()) and any("is_interposable" in k and v is True for k, v in facts_.items()) \
                and any("is_writable" in k and v is True for k, v in facts_.items()):
            site = (bi, t)
    if site is None:
        rep.lost("symbolic-field-width", "the RELA_DYN_GENERAL reservation under needs_direct && interposable && writable")
        return
    abi, at = site
    # the kind == Absolute test inside that region, and the ByteSize(8) tests
    abs_sw = []
    for sb in cfg.reach:
        t = pr.blocks[sb]["t"]
        if t["k"] != "switch":
            continue
        src = switch_source_call(pr, flow, sb)
        if src and (src[0].endswith("PartialEq>::eq") or src[0].endswith("PartialEq::eq")):
            leaves = set()
            for a in src[2]["args"]:
                leaves |= flow.deep_origins(a)
            if any(x[0] == "agg" and str(x[1]).endswith("RelocationKind::Absolute") for x in leaves) or any(x[0] == "const" and "Absolute" in str(x[2]) for x in leaves):
                labs = switch_bool_labels(pr, flow, cfg, sb)
                for lab, v in labs.items():
                    if v is True:
                        for l2, tgt in cfg.succ[sb]:
                            if l2 == lab and abi in cfg.reachable_from(tgt):
                                abs_sw.append((sb, tgt))
    size_sw = [sb for sb in cfg.reach if pr.blocks[sb]["t"]["k"] == "switch" and pr.blocks[sb]["t"]["d"][0] != "k"
               and "@ByteSize" in pr.blocks[sb]["t"]["d"][1][1] and pr.blocks[sb]["t"]["d"][1][1][-1:] == [".0"] and any(c == 8 for c, _t in pr.blocks[sb]["t"]["arms"])]
    tested = False
    # blocks that are only entered knowing `size == ByteSize(8)` (edge facts see through the boolean that `matches!` materialises)
    W = {x for x, fs in ef.items() if any((sb, 8) in fs for sb in size_sw)}
    # ... and edges of a switch on such a boolean whose value is only assigned in those blocks (the edge may lead straight into a join)
    avoid_e = set()
    for S, m in cfg._phi_bools().items():
        t = pr.blocks[S]["t"]
        listed = {v for v, _ in t["arms"]}
        for lab, _to in cfg.succ[S]:
            val = False if lab == 0 else True if lab == 1 else (True if (lab == "else" and listed == {0}) else False if (lab == "else" and listed == {1}) else None)
            defs = m.get(val, []) if val is not None else []
            if defs and all(d in W for d in defs):
                avoid_e.add((S, lab))
    for sb, tgt in abs_sw:
        if abi not in cfg.reachable_avoiding_edges(tgt, avoid_e, avoid_blocks=W) and any(x in cfg.reachable_from(tgt) for x in size_sw):
            tested = True
    rep.ob("symbolic-field-width", "size-tested", tested,
           "on the kind == Absolute path the reservation is reached only through a test of the size against ByteSize(8)" if tested else
           "the reservation for a symbolic dynamic relocation is reachable on the kind == Absolute path without testing the field width: a 4-byte absolute reference to a symbol resolved "
           "at run time gets an 8-byte R_*_64 relocation and the loader overwrites the bytes after the field", pr.file, at["l"])
    # the failing side is an error: from the non-8 edges an Err return is reachable without passing the reservation
    err_ok = False
    for sb in size_sw:
        t = pr.blocks[sb]["t"]
        non8 = [to for c, to in t["arms"] if c != 8] + [t["else"]]
        for to in non8:
            r = cfg.reachable_avoiding_edges(to, set(), avoid_blocks={abi})
            for x in r:
                for st in pr.blocks[x]["s"]:
                    if st["k"] == "assign" and st["p"] == [0, []] and st["rv"]["k"] == "agg" and st["rv"].get("variant") == "Err":
                        err_ok = True
    rep.ob("symbolic-field-width", "narrow-is-error", err_ok, "a field that is not 8 bytes wide leads to an error return", pr.file, at["l"])


def _relr_eligible_table(rep, F):
    """relr_eligible(offset, sh_addralign) decides RELR vs RELA for a section relocation on both sides. A RELR entry must name an even address at every load
    base: the section's address is a multiple of its alignment, so the place is certainly even iff the offset is even and the alignment is at least 2.
    sh_addralign 0 means 'no constraint' (gABI: same as 1) - such a section may sit at an odd address."""
    import mireval
    rep.rule("relr-eligible-table", "elf::relr_eligible(offset, align), evaluated from its MIR for offsets 0..7 and sh_addralign in {0, 1, 2, 4, 8, 16, 4096}, equals "
             "offset even && align >= 2 (align 0 is 'unconstrained', not 'even')")
    key = "libwild::elf::relr_eligible"
    if F.body(key) is None:
        rep.lost("relr-eligible-table", key)
        return
    bad = None
    n = 0
    try:
        for off in range(0, 8):
            for al in (0, 1, 2, 4, 8, 16, 4096):
                got = bool(mireval.call(F, key, [off, al]))
                want = off % 2 == 0 and al >= 2
                n += 1
                if got != want and bad is None:
                    bad = (off, al, got)
    except (mireval.EvalError, mireval.Panic) as ex:
        rep.ob("relr-eligible-table", "evaluated", False, f"relr_eligible could not be tabulated: {type(ex).__name__}: {ex}", F.body(key).file, F.body(key).line)
        return
    rep.ob("relr-eligible-table", "agrees", bad is None, f"{n} (offset, alignment) points agree" if bad is None else
           f"relr_eligible(offset={bad[0]}, sh_addralign={bad[1]}) = {bad[2]}: a relative relocation in a section that may be placed at an odd address would be packed into "
           ".relr.dyn, where an odd word is a bitmap, not an address", F.body(key).file, F.body(key).line)


def _field_width(rep, P, F, pr, sites):
    """A RELATIVE/RELR dynamic relocation makes the loader rewrite a whole 8-byte word. Reserving one for a narrower static relocation
    (R_X86_64_32 & co. in a writable section of a PIE) lets the loader clobber the bytes after the field: the image after relocation is not
    the link-time image shifted by the base (genuine defect, fixed in /repo 7a0558c: such inputs are now rejected, as GNU ld and lld do)."""
    rep.rule("relative-field-width", "in process_relocation every reservation of a RELR / relative RELA entry for a section relocation lies on the edge where the "
             "relocation's size is RelocationSize::ByteSize(8): narrower absolute relocations never get an 8-byte relative dynamic relocation")
    cfg = P.cfg(pr)
    flow_pr = P.flow(pr)
    ef = cfg.edge_facts()
    for site in sites:
        ok = False
        seen = []
        for sb, lab in ef.get(site, ()):
            t = pr.blocks[sb]["t"]
            if t["k"] != "switch" or t["d"][0] == "k":
                continue
            proj = t["d"][1][1]
            if "@ByteSize" in proj and proj[-1] == ".0" and any(x == ".size" for x in proj):
                seen.append(lab)
                if lab == 8:
                    ok = True
        if not ok:
            # `size == RelocationSize::ByteSize(8)` / `!=` through the derived PartialEq
            for sb, lab in ef.get(site, ()):
                src = switch_source_call(pr, flow_pr, sb)
                if not src or not (src[0].endswith("PartialEq>::eq") or src[0].endswith("PartialEq>::ne") or src[0].endswith("PartialEq::eq") or src[0].endswith("PartialEq::ne")):
                    continue
                labs = switch_bool_labels(pr, flow_pr, cfg, sb)
                truth = labs.get(lab)
                ct = src[2]
                leaves = set()
                for a in ct["args"]:
                    leaves |= flow_pr.deep_origins(a)
                is_size = any(x[0] == "agg" and str(x[1]).endswith("RelocationSize::ByteSize") for x in leaves)
                has8 = any(x[0] == "const" and x[1] == 8 for x in leaves)
                want = src[0].endswith("eq")
                seen.append((src[0].split("::")[-1], truth))
                if is_size and has8 and truth is want:
                    ok = True
        line = pr.blocks[site]["t"].get("l")
        kind = "RELR" if site == sites[0] else "RELA"
        rep.ob("relative-field-width", f"process_relocation:{kind}", ok,
               "reservation only for 8-byte fields" if ok else f"the reservation is not guarded by size == ByteSize(8) (size edges seen: {seen}): an R_X86_64_32-style "
               "relocation in a writable section of a PIE would get an 8-byte relative relocation and the loader would overwrite the 4 bytes after the field", pr.file, line)


def _joined_defs(P, body, flow, op, depth=0):
    """[(block, rendered value)] for every definition of a multiply-assigned local behind `op` (copies followed)."""
    out = []
    if not op or op[0] not in ("c", "m") or op[1][1] or depth > 4:
        return out
    ds = flow.defs.get(op[1][0], [])
    if len(ds) == 1 and ds[0][1] != "call" and ds[0][3]["k"] == "use":
        return _joined_defs(P, body, flow, ds[0][3]["a"], depth + 1)
    if len(ds) < 2:
        return out
    for bi, si, proj, payload in ds:
        if si == "call":
            out.append((bi, callee_key(payload["f"]) or "?"))
        elif payload["k"] in ("use", "cast"):
            out.append((bi, render(simplify(expr_tree(P, body, payload["a"], depth=6, expand_params=0)))))
        else:
            out.append((bi, payload["k"]))
    return out


def absolute_flag(ctx, rep, F, P):
    """ValueFlags::ABSOLUTE means "this value does not move with the load address": every place that decides whether a stored address
    needs a RELATIVE/RELR relocation keys off it (is_address() == !ABSOLUTE && ...). So it may only be given to values that really are
    load-address independent. Producers are a closed table, each under its guard; the prelude's per-placement table gives ABSOLUTE exactly
    to undefined and `--defsym NAME=<number>` symbols, never to section start/end symbols, the load base or `--defsym ALIAS=SYMBOL`."""
    import decide
    from mir import callee_key, op_const, stable, variant_blocks
    rep.rule("absolute-flag", "ValueFlags::ABSOLUTE is produced only at the listed sites, each under its guard; in Prelude::load_symbols exactly the placements "
             "Undefined, ForceUndefined and DefsymAbsolute get it (address-valued placements must stay relocatable)")
    VFK = "libwild::value_flags::ValueFlags::ABSOLUTE"
    PRODUCERS = {
        "libwild::symbol_db::RegularObjectSymbolLoader": "is_absolute() (SHN_ABS) or undefined symbol of a regular object",
        "libwild::symbol_db::DynamicObjectSymbolLoader": "undefined symbol of a shared object",
        "libwild::symbol_db::load_symbols": "Prelude::load_symbols: per-placement table (checked below)",
        "libwild::elf_writer::write_plt_got_entries": "TLSLD module-id / offset GOT pair of the executable: link-time constants",
        "libwild::elf_x86_64::": "unit-test helper (cfg(test) code is not analysed; listed for completeness)",
    }
    sites = []
    for b in F.all_bodies:
        if not b.key.startswith(("libwild::", "<libwild::")) or stable(b.key).startswith("libwild::value_flags::"):
            continue
        for bi, blk in enumerate(b.blocks):
            if blk.get("cleanup"):
                continue
            hit = False
            for s_ in blk["s"]:
                if s_["k"] == "assign":
                    rv = s_["rv"]
                    for o in ([rv.get("a")] if rv.get("a") else []) + ([rv.get("b")] if rv.get("b") else []) + list(rv.get("ops") or []):
                        c = op_const(o) if o else None
                        if c and (c.get("def") or "") == VFK:
                            hit = True
            t = blk["t"]
            if t["k"] == "call":
                ck = callee_key(t["f"]) or ""
                if not ck.endswith(("::contains", "::intersects")):
                    for a in t["args"]:
                        c = op_const(a)
                        if c and (c.get("def") or "") == VFK:
                            hit = True
            if hit:
                sites.append((b, bi))
    seen = set()
    for b, bi in sites:
        name = stable(b.key)
        row = next((k for k in PRODUCERS if k in name), None)
        seen.add(name)
        rep.ob("absolute-flag", f"producer:{name}", row is not None, (f"listed: {PRODUCERS[row]}" if row else "ABSOLUTE is produced at a site that is not in the table: an address marked absolute gets no dynamic relocation in PIE/shared outputs"), b.file, b.line)
    rep.floor("absolute-flag", "bodies producing ABSOLUTE", len(seen), 4)
    # guards of the loaders
    for b, bi in sites:
        name = stable(b.key)
        at = decide.atoms_at(P, F, b, bi)
        if "RegularObjectSymbolLoader" in name:
            ok = any(("is_absolute" in a and v is True) or ("is_undefined" in a and v is True) or (a.startswith("place:") and "undefined" in a and v is True) for a, v in at)
            rep.ob("absolute-flag", f"guard:{name.split('::')[-1]}:regular", ok, f"ABSOLUTE on the is_absolute() or undefined edge (facts: {sorted((a.split('(')[0], v) for a, v in at if isinstance(v, bool))[:4]})", b.file, b.blocks[bi]["t"].get("l") or b.line)
        elif "DynamicObjectSymbolLoader" in name:
            ok = any("is_undefined" in a and v is True for a, v in at)
            rep.ob("absolute-flag", f"guard:{name.split('::')[-1]}:dynamic", ok, "ABSOLUTE on the is_undefined() edge", b.file, b.line)
    pl = next((b for b, _bi in sites if stable(b.key) == "libwild::symbol_db::load_symbols"), None)
    if pl is None:
        rep.lost("absolute-flag", "Prelude::load_symbols")
        return
    flow, cfg = P.flow(pl), P.cfg(pl)
    SP = next((a for a in ("libwild::parsing::SymbolPlacement", "libwild::symbol_db::SymbolPlacement", "libwild::layout::SymbolPlacement") if F.adt(a)), None)
    if SP is None:
        cand = [k for k in getattr(F, "headers", {})]
        rep.lost("absolute-flag", "SymbolPlacement ADT")
        return
    variants = [v["name"] if isinstance(v, dict) else v for v in F.adt(SP)["variants"]]
    WANT_ABS = {"Undefined", "ForceUndefined", "DefsymAbsolute"}
    abs_blocks = {bi for b, bi in sites if b is pl}
    from mir import enum_switch
    ef = cfg.edge_facts()
    got = {}
    for sb in cfg.reach:
        es = enum_switch(F, pl, flow, cfg, sb)
        if not es or es[0] != SP:
            continue
        for lab, names in es[1].items():
            if not names:
                continue
            tgts = [t for l2, t in cfg.succ[sb] if l2 == lab]
            hit = any(cfg.dominates(t, ab) for t in tgts for ab in abs_blocks)
            for v in names:
                got[v] = got.get(v, False) or hit
    for v in variants:
        if v not in got:
            rep.ob("absolute-flag", f"prelude:{v}", False, f"placement {v} has no arm of its own in Prelude::load_symbols (catch-all?)", pl.file, pl.line)
            continue
        has = got[v]
        rep.ob("absolute-flag", f"prelude:{v}", has == (v in WANT_ABS),
               f"placement {v}: ABSOLUTE {'set' if has else 'not set'} ({'a link-time constant' if v in WANT_ABS else 'an address that moves with the image: must stay relocatable'})", pl.file, pl.line)
    rep.floor("absolute-flag", "SymbolPlacement variants", len(variants), 8)
