"""C24 — save-dir bundles replay to an identical output.

Byte-identical replay is not decided. Decided: every argument- or path-derived byte string that
write_args / write_copied_file_arg emit into the shell script goes through the escaping routine (only
literals are written raw, and unescaped argument text only inside response files); the escaping
routine puts a backslash in front of every byte of the POSIX shell special set — decided by folding its
predicate for all 256 byte values (a finite domain, enumerated completely)."""
import re
import fold
import hirq
from mir import callee_key, declared_key, op_const, op_place, stable, bool_edge_blocks, switch_chain, switch_bool_labels

EXPLANATION = ("location of the escaping routine from HIR (the loop that writes a backslash literal under a condition), exhaustive "
               "folding of that condition over the 256 byte values against the POSIX shell special set, and a who-may-write rule "
               "over the MIR of the script writers (raw write_all of non-literal bytes only on the response-file edge)")

# POSIX.1-2017 Shell Command Language 2.2 Quoting: characters that must be quoted to represent themselves,
# plus those that are special in some contexts.
SPECIAL = set(b"|&;<>()$`\\\"' \t*?[#~%!{}")  # `=` and `%` are context dependent; `%` kept, `=` safe inside a word
MUST = set(b"|&;<>()$`\\\"' \t*?[#~!{}")


def run(ctx, rep):
    F = ctx.facts(); P = ctx.program()
    FD = fold.Folder(F)
    rep.rule("escaper", "the routine that writes script words escapes (backslash or quotes) every byte of the shell special set")
    rep.rule("writers", "write_args and write_copied_file_arg write non-literal bytes to the script only through the escaper (or, unescaped, only on the is_rsp_file edge)")
    rep.rule("env-quoting", "exported environment values are written inside double quotes with backslash and double-quote escaped")

    # ---- escaper -----------------------------------------------------------------------------------
    esc = None
    for k, v in F.hir().items():
        if not k.startswith("libwild::save_dir::"):
            continue
        b = v[0]
        for x in fold.walk(b["body"]):
            if x.get("e") == "if":
                lits = hirq.literals(x["then"])
                if [92] in lits and not (x["else"] and [92] in hirq.literals(x["else"])):
                    # condition must mention the loop byte
                    esc = (k, b, x)
    if esc is None:
        rep.lost("escaper", "a routine in save_dir that writes a backslash under a condition")
    else:
        k, b, ifnode = esc
        # the byte variable: the (only) local read in the condition that is not a literal set
        ids = {}
        for y in fold.walk(ifnode["cond"]):
            if y.get("e") == "path" and y.get("res") == "Local":
                ids[y["id"]] = y["name"]
        # locals defined by lets in the enclosing block (e.g. `let is_safe = ...`) are folded first
        lets = []
        for y in fold.walk(b["body"]):
            if y.get("e") == "block":
                for s in y["stmts"]:
                    if s["s"] == "let" and s["pat"].get("p") == "bind" and s["pat"]["id"] in ids and s["init"] is not None:
                        lets.append((s["pat"]["id"], s["init"]))
                        for z in fold.walk(s["init"]):
                            if z.get("e") == "path" and z.get("res") == "Local":
                                ids.setdefault(z["id"], z["name"])
        let_ids = {i for i, _ in lets}
        byte_ids = [i for i in ids if i not in let_ids]
        unescaped = []
        undecided = None
        fe = _ByteFolder(F)
        for val in range(256):
            env = {i: val for i in byte_ids}
            try:
                for i, init in lets:
                    env[i] = fe.eval(init, env, 0)
                c = fe.eval(ifnode["cond"], env, 0)
            except fold.FoldError as e:
                undecided = str(e)
                break
            if not c and val in MUST:
                # not backslash-escaped: is it handled by a separate quoting branch (e.g. newline)?
                unescaped.append(val)
        if undecided:
            rep.ob("escaper", "predicate-foldable", False, f"escape predicate could not be folded: {undecided}", b["file"], ifnode["l"])
        else:
            rep.ob("escaper", "covers-shell-specials", not unescaped,
                   (f"{stable(k)} leaves these shell-special bytes unescaped: {bytes(unescaped)!r}: an argument containing one is split or interpreted when the run-with script is replayed" if unescaped
                    else f"{stable(k)} escapes all {len(MUST)} shell-special bytes (exhaustive over 256 byte values)"), b["file"], ifnode["l"])
            # newline: must not become backslash-newline
            try:
                env = {i: 10 for i in byte_ids}
                for i, init in lets:
                    env[i] = fe.eval(init, env, 0)
                nl_backslashed = bool(fe.eval(ifnode["cond"], env, 0))
            except fold.FoldError:
                nl_backslashed = None
            handles_nl = any(10 in (l if isinstance(l, list) else []) for l in hirq.literals(b["body"]))
            rep.ob("escaper", "newline", handles_nl or nl_backslashed is False, "a newline is quoted, not backslash-escaped (backslash-newline is a line continuation)", b["file"], ifnode["l"])
        escaper_key = k

        # ---- writers -----------------------------------------------------------------------------------
        n = 0
        for wk in ("libwild::save_dir::SaveDirState::write_args", "libwild::save_dir::write_copied_file_arg"):
            wb = F.body(wk)
            if wb is None:
                rep.lost("writers", wk)
                continue
            cfg, flow = P.cfg(wb), P.flow(wb)
            rsp_true = set()
            ef = cfg.edge_facts()
            for sb in cfg.reach:
                kk, pl, bi_, fl = switch_chain(wb, flow, sb)
                t = wb.blocks[sb]["t"]
                if t["k"] == "switch" and t["dty"] == "bool":
                    pl2 = op_place(t["d"])
                    o = flow.origins(t["d"])
                    if ("param", 7) in o and wk.endswith("write_args"):
                        for lab, v in switch_bool_labels(wb, flow, cfg, sb).items():
                            if v is True:
                                rsp_true.add((sb, lab))
            for bi, t in flow.calls():
                dk = declared_key(t["f"]) or ""
                if dk != "std::io::Write::write_all" or len(t["args"]) < 2:
                    continue
                # only writes to the script streams (param `out` = 3, setup_out = 4), not to files
                o = flow.origins(t["args"][1])
                lits = [x for x in o if x[0] == "const"]
                non_lit = [x for x in o if x[0] in ("param", "call") and not (x[0] == "call" and x[1] in (None,))]
                n += 1
                if non_lit and not (lits and not [x for x in non_lit if x[0] == "param"] and all(str(x[1]).endswith(("as_bytes", "deref", "as_ref", "as_slice")) for x in non_lit if x[0] == "call")):
                    on_rsp = bool(ef.get(bi, frozenset()) & rsp_true)
                    rep.ob("writers", f"{stable(wk)}:raw-write", on_rsp,
                           "non-literal bytes are written to the script without escaping" + (" (response-file edge: consumed by the linker, not the shell)" if on_rsp else ""), wb.file, t["l"])
                else:
                    rep.ob("writers", f"{stable(wk)}:literal", True, "literal script text", wb.file, t["l"])
            # the escaper is used
            uses = [bi for bi, t in flow.calls() if callee_key(t["f"]) == escaper_key]
            rep.ob("writers", f"{stable(wk)}:uses-escaper", len(uses) >= 1, f"{len(uses)} call(s) of {escaper_key.split('::')[-1]}", wb.file, wb.line)
        rep.floor("writers", "write_all sites in the script writers", n, 4)

    # ---- env quoting ------------------------------------------------------------------------------------
    se = F.hir_body("libwild::save_dir::shell_escape_string")
    if se is None:
        rep.lost("env-quoting", "shell_escape_string")
    else:
        reps = []
        for d, node in hirq.calls(se["body"], lambda d: d and d.endswith("::replace")):
            ls = []
            for a in node["args"]:
                ls += hirq.literals(a)
            reps.append(tuple(ls[:2]))
        rep.ob("env-quoting", "escapes-backslash-and-quote", ("\\", "\\\\") in reps and ("\"", "\\\"") in reps,
               f"replacements {reps}; note: `$` and backquote remain active inside double quotes (GCC option strings rely on ${{OUT}} substitution)", se["file"], se["line"])
    # ---- lexically normalised paths are not file-system paths ---------------------------------------------------------
    # `normalize_abs_path` cancels `dir/..` textually. That equals what the kernel does only if `dir` is not a symlink, so its result
    # may be compared (`starts_with`) or turned into link text, but must never be the path that is opened, stat-ed or copied: the bundle
    # would get a dangling link (or another file) for inputs reached through a symlinked directory.
    rep.rule("lexical-paths", "the result of normalize_abs_path never reaches, by identity, a call that accesses the file system or copy_file")
    from mir import callee_key as _ck, stable as _st
    ACCESS = ("copy_file", "handle_thin_archive", "FileData::new", "File::open", "File::create", "symlink_metadata", "read_link", "Path::exists",
              "hard_link", "fs::copy", "fs::read", "fs::write", "create_dir", "fs::metadata", "Path::is_file", "Path::is_dir", "canonicalize")
    n_norm = n_acc = 0
    for b in F.all_bodies:
        if not _st(b.key).startswith("libwild::save_dir::"):
            continue
        flow = P.flow(b)
        for bi, t in flow.calls():
            ck = _ck(t["f"]) or ""
            if ck.endswith("normalize_abs_path"):
                n_norm += 1
            if not any(ck.endswith(a) or ("::" + a) in ck for a in ACCESS):
                continue
            n_acc += 1
            for i_, a in enumerate(t["args"]):
                o = flow.origins(a)
                if any(x[0] == "call" and (x[1] or "").endswith("normalize_abs_path") for x in o):
                    rep.ob("lexical-paths", f"{_st(b.key)}->{ck.split('::')[-1]}", False,
                           "a path produced by the textual `..` cancellation of normalize_abs_path is used to access the file system: for an input reached through a "
                           "symlinked directory this names a different (or no) file, and the saved bundle no longer replays", b.file, t["l"])
    rep.ob("lexical-paths", "summary", n_norm >= 1 and n_acc >= 5, f"{n_norm} call(s) of normalize_abs_path, {n_acc} file-system access call(s) in save_dir examined", "libwild/src/save_dir.rs", 0)
    _response_file_copy(ctx, rep, F)
    rep.assume("byte-identical replay itself (same wild binary, same inputs) is a run-time matter")


class _ByteFolder(fold.Folder):
    """Folder with the u8 predicates the escaper uses."""
    def method(self, e, recv, args, depth):
        name = e["name"]
        if isinstance(recv, int) and not isinstance(recv, bool):
            if name == "is_ascii_alphanumeric":
                return (48 <= recv <= 57) or (65 <= recv <= 90) or (97 <= recv <= 122)
            if name == "is_ascii":
                return recv < 128
            if name == "is_ascii_digit":
                return 48 <= recv <= 57
            if name == "is_ascii_alphabetic":
                return (65 <= recv <= 90) or (97 <= recv <= 122)
            if name == "is_ascii_whitespace":
                return recv in (9, 10, 12, 13, 32)
        if isinstance(recv, list) and name == "contains":
            return args[0] in recv
        return super().method(e, recv, args, depth)


def _response_file_copy(ctx, rep, F):
    """The run-with script re-creates each top-level response file line by line with a shell `read` loop (to substitute $D / $OUT). The saved at-N.txt
    holds backslash-escaped arguments that the linker's response-file parser needs verbatim, so the loop must not interpret anything: `read` needs -r
    (otherwise backslashes are consumed) and an empty IFS (otherwise leading/trailing blanks are trimmed), and the line must be re-emitted with a
    `%s` format (echo / a format built from the line would reinterpret it)."""
    from mir import callee_key
    P = ctx.program()
    rep.rule("rsp-copy", "if the setup script copies a response file with a shell read loop, it is `IFS= read -r` and the line is printed with printf '%s\\n' (nothing in the "
             "line is interpreted by the shell on the way)")
    b = F.body("libwild::save_dir::SaveDirState::write_args")
    if b is None:
        rep.lost("rsp-copy", "SaveDirState::write_args")
        return
    flow = P.flow(b)
    templates = set()
    for bi, t in flow.calls():
        if (callee_key(t["f"]) or "").endswith("fmt::Arguments::new") or (callee_key(t["f"]) or "").endswith("Arguments::new_const"):
            for a in t["args"]:
                for x in flow.deep_origins(a):
                    if x[0] == "const" and isinstance(x[2], str) and x[2].startswith('b"'):
                        templates.add(x[2])
    loops = [tpl for tpl in templates if re.search(r"\bread\b", tpl) and "while" in tpl]
    if not loops:
        rep.note("rsp-copy: the setup script has no shell read loop (response files are re-created by some other means): not decided")
        rep.ob("rsp-copy", "mechanism", any("mktemp" in tpl or "RSP_" in tpl for tpl in templates), "a response-file re-creation snippet exists", b.file, b.line)
        return
    for n, tpl in enumerate(sorted(loops)):
        reads = re.findall(r"(IFS=\S*\s+)?read((?:\s+-\w+)*)\s+(\w+)", tpl)
        ok_r = bool(reads) and all("r" in flags.replace("-", "").replace(" ", "") for _ifs, flags, _v in reads)
        ok_ifs = bool(reads) and all(ifs.strip() == "IFS=" for ifs, _f, _v in reads)
        rep.ob("rsp-copy", f"loop#{n}:raw-read", ok_r, "read -r: backslashes in the saved arguments reach the linker's response-file parser" if ok_r else
               "`read` without -r: the shell consumes the backslashes that escape blanks/quotes in the saved response file, the replayed link sees different arguments", b.file, b.line)
        rep.ob("rsp-copy", f"loop#{n}:empty-ifs", ok_ifs, "IFS= : leading/trailing blanks of a line are kept", b.file, b.line)
        pr = re.findall(r"printf\s+(\S+)", tpl)
        ec = re.search(r"\becho\b", tpl)
        ok_p = bool(pr) and all(re.fullmatch(r"\\?'%s(\\\\n)?\\?'", x) or "%s" in x and "$" not in x for x in pr) and not ec
        rep.ob("rsp-copy", f"loop#{n}:verbatim-print", ok_p, f"the line is printed with a constant %s format ({pr})" if ok_p else f"the line is re-emitted through {pr or 'echo'}: its contents are reinterpreted", b.file, b.line)
