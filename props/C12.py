"""C12 — relocation overflow is reported exactly when a value doesn't fit.

Decided statically: the range of every x86-64 and AArch64 relocation row (extracted from the folded
table functions) against the {GNU ld ∩ lld} oracle: must contain every value both accept and must
exclude every value both reject; a row's range is no wider than its byte size allows (no silent
truncation); AllowedRange::contains is the half-open test and the unchecked range is total; verify
dominates every store in write_to_buffer; relocation fields are written only through it."""
import sys, os
sys.path.insert(0, os.path.join(os.path.dirname(os.path.dirname(os.path.abspath(__file__))), "oracles"))
import fold
import tables
from mir import callee_key, stable, success_blocks, op_place

EXPLANATION = ("table-vs-oracle comparison over the constant-folded relocation tables (HIR facts; const fn constructors "
               "folded from their own source), shape rule on AllowedRange::contains (operators and operands from MIR), "
               "dominance of verify over stores in write_to_buffer, who-may-call on buffer writers")

I64MIN, I64MAX = -(1 << 63), (1 << 63) - 1


def run(ctx, rep):
    F = ctx.facts(); P = ctx.program()
    FD = fold.Folder(F)
    import x86_64 as OX
    import aarch64 as OA
    rep.rule("range", "wild's [min,max) for each relocation type contains the must-accept interval and lies within the complement of the must-reject set of the oracle")
    rep.rule("no-truncation", "a ByteSize(n) row's range is not wider than n bytes can hold (signed or unsigned)")
    rep.rule("contains-shape", "AllowedRange::contains(v) is min <= v && v < max, and the unchecked range admits every i64")
    rep.rule("verify-dominates", "in RelocationKindInfo::write_to_buffer every store into the output is on the success edge of verify; verify tests alignment and range")
    rep.rule("field-writers", "in every function that applies relocations (the callers of write_to_buffer) a `&mut [u8]` view of the section is consumed only by sub-slicing, "
             "write_to_buffer, or the instruction rewriters (Relaxation::apply, Arch::fill_nop_padding); helpers are followed; no raw store, so no relocated value bypasses verify")
    rep.rule("from-bit-size", "AllowedRange::from_bit_size folds to the two's-complement / unsigned ranges")

    contains_total = check_contains(rep, P, F, FD)
    for arch, fn, O, floor in (("x86_64", "linker_utils::x86_64::relocation_from_raw", OX.ROWS, 37),
                               ("aarch64", "linker_utils::aarch64::relocation_type_from_raw", OA.ROWS, 114)):
        t = tables.table(FD, fn)
        if t is None:
            rep.lost("range", fn)
            continue
        rep.floor("range", f"{arch} rows", len(t), floor)
        unchecked = 0
        for r in t:
            name = r["name"]
            b = F.hir_body(fn)
            file = b["file"] if b else None
            if "error" in r:
                rep.ob("range", f"{arch}:{name}:fold", False, f"row could not be folded: {r['error']}", file, r["line"])
                continue
            o = O.get(name)
            if o is None:
                unchecked += 1
                rep.count(f"{arch}-rows-not-in-oracle")
                continue
            lo, hi = r["range"]
            # effective acceptance set: [lo, hi) (plus hi itself if the unchecked range is total)
            eff_hi = hi + 1 if (hi == I64MAX and contains_total) else hi
            acc, rej = o.get("accept"), o.get("reject")
            if acc is None and rej is None and _nbytes(r, o) in (8, None) and o.get("field", ("bytes", 0))[0] == "bytes" or (acc is None and rej is None and r["size"] and "insn" in r["size"]):
                # rows the psABI leaves unchecked: every 64-bit value must be accepted
                if _is_unchecked_row(o):
                    # the exclusion of i64::MAX by the half-open test is one root cause, reported once
                    # under contains-shape:unchecked-range-total
                    ok = lo == I64MIN and hi >= I64MAX
                    rep.ob("range", f"{arch}:{name}:total", ok,
                           f"no overflow check is defined for this relocation: every value must be accepted; wild accepts [{lo}, {hi}{']' if eff_hi > hi else ')'}", file, r["line"])
                    continue
            if acc is not None:
                ok = lo <= acc[0] and eff_hi >= acc[1]
                rep.ob("range", f"{arch}:{name}:accept", ok,
                       f"values in [{acc[0]}, {acc[1]}) are accepted by GNU ld and lld; wild accepts [{lo}, {hi})", file, r["line"])
            if rej is not None:
                ok = lo >= rej[0] and hi <= rej[1]
                rep.ob("range", f"{arch}:{name}:reject", ok,
                       f"values outside [{rej[0]}, {rej[1]}) are rejected by GNU ld and lld (the field cannot hold them); wild accepts [{lo}, {hi}): " +
                       ("ok" if ok else "wild writes a truncated value silently"), file, r["line"])
            if acc is None and rej is None:
                unchecked += 1
            # no truncation for byte-sized rows
            n = r["size"].get("bytes") if r["size"] else None
            if n and n < 8:
                ok = lo >= -(1 << (8 * n - 1)) and hi <= (1 << (8 * n))
                rep.ob("no-truncation", f"{arch}:{name}", ok, f"{n}-byte field, range [{lo}, {hi})", file, r["line"])
        rep.count(f"{arch}-rows-unchecked", unchecked)

    check_from_bit_size(rep, FD)
    check_verify(rep, P, F)
    check_field_writers(rep, P, F)
    _relaxed_range(ctx, rep)


def _nbytes(r, o):
    return r["size"].get("bytes") if r["size"] else None


def _is_unchecked_row(o):
    return o.get("accept") is None and o.get("reject") is None


def check_contains(rep, P, F, FD):
    """Shape of AllowedRange::contains from MIR: Le(min, v) and Lt(v, max). Returns True if the function
    also admits i64::MAX for the unchecked range."""
    b = F.body("linker_utils::elf::AllowedRange::contains")
    if b is None:
        rep.lost("contains-shape", "AllowedRange::contains")
        return False
    ops = []
    flow = P.flow(b)

    def desc(o, depth=0):
        pl = op_place(o)
        if not pl:
            return "const:" + str(o[1].get("val"))
        l, proj = pl
        names = [p[1:] for p in proj if p.startswith(".")]
        if names:
            return names[-1]
        if l == 2:
            return "value"
        ds = flow.defs.get(l, [])
        if len(ds) == 1 and ds[0][1] != "call" and ds[0][3]["k"] == "use" and depth < 6:
            return desc(ds[0][3]["a"], depth + 1)
        return f"_{l}"
    for blk in b.blocks:
        for s in blk["s"]:
            if s["k"] == "assign" and s["rv"]["k"] == "bin":
                rv = s["rv"]
                ops.append((rv["op"], desc(rv["a"]), desc(rv["b"])))
    has_lo = ("Le", "min", "value") in ops or ("Ge", "value", "min") in ops
    has_hi = ("Lt", "value", "max") in ops or ("Gt", "max", "value") in ops
    hi_incl = ("Le", "value", "max") in ops or ("Ge", "max", "value") in ops
    total = any(o[0] == "Eq" and "max" in (o[1], o[2]) for o in ops) and any("const:%d" % I64MAX in (o[1], o[2]) for o in ops)
    rep.ob("contains-shape", "lower-inclusive", has_lo, f"lower bound test min <= value (comparisons found: {ops})", b.file, b.line)
    rep.ob("contains-shape", "upper-exclusive", has_hi and not hi_incl, f"upper bound test value < max (half-open ranges: from_bit_size builds max = 2^n)", b.file, b.line)
    # the unchecked range
    nc = FD.call_fn("linker_utils::elf::AllowedRange::no_check", [], 0)
    lo, hi = nc.fields["min"], nc.fields["max"]
    ok_total = lo == I64MIN and (hi > I64MAX or (hi == I64MAX and total))
    rep.ob("contains-shape", "unchecked-range-total", ok_total,
           f"no_check() = [{lo}, {hi}) with a half-open test excludes i64::MAX: a relocation whose value is 0x7fffffffffffffff is rejected although the relocation has no overflow check", b.file, b.line)
    return total


def check_from_bit_size(rep, FD):
    S = fold.Enum("linker_utils::elf::Sign::Signed")
    U = fold.Enum("linker_utils::elf::Sign::Unsigned")
    for n in (8, 12, 16, 19, 21, 26, 32, 33, 48):
        for sign, exp in ((S, [-(1 << (n - 1)), 1 << (n - 1)]), (U, [0, 1 << n])):
            try:
                v = FD.call_fn("linker_utils::elf::AllowedRange::from_bit_size", [n, sign], 0)
                got = [v.fields["min"], v.fields["max"]]
            except fold.FoldError as e:
                got = str(e)
            rep.ob("from-bit-size", f"{n}:{sign.name}", got == exp, f"from_bit_size({n}, {sign.name}) folds to {got}, expected {exp}")
    for n in (0, 64):
        v = FD.call_fn("linker_utils::elf::AllowedRange::from_bit_size", [n, S], 0)
        rep.ob("from-bit-size", f"{n}:unchecked", v.fields["min"] == I64MIN and v.fields["max"] >= I64MAX, f"from_bit_size({n}) is the unchecked range")


def check_verify(rep, P, F):
    b = F.body("linker_utils::elf::RelocationKindInfo::write_to_buffer")
    if b is None:
        rep.lost("verify-dominates", "RelocationKindInfo::write_to_buffer")
        return
    cfg, flow = P.cfg(b), P.flow(b)
    okb, _ = success_blocks(b, flow, cfg, lambda k: k == "linker_utils::elf::RelocationKindInfo::verify")
    writers = []
    for bi, t in flow.calls():
        ck = callee_key(t["f"]) or ""
        if ck.endswith("copy_from_slice") or ck.endswith("::write_to_value") or ck.endswith("::write"):
            writers.append((bi, t, ck))
    rep.floor("verify-dominates", "writes in write_to_buffer", len(writers), 3)
    for bi, t, ck in writers:
        rep.ob("verify-dominates", f"write:{ck.split('::')[-1]}:{t['l'] and ''}{len([w for w in writers if w[0] <= bi])}", bi in okb,
               "the store into the output happens only after verify() returned Ok (range and alignment hold)", b.file, t["l"])
    v = F.body("linker_utils::elf::RelocationKindInfo::verify")
    if v is None:
        rep.lost("verify-dominates", "verify")
        return
    vf = P.flow(v)
    calls = {callee_key(t["f"]) for bi, t in vf.calls()}
    rep.ob("verify-dominates", "verify-tests-range", "linker_utils::elf::AllowedRange::contains" in calls, "verify calls range.contains(value)", v.file, v.line)
    rep.ob("verify-dominates", "verify-tests-alignment", any((c or "").endswith("is_multiple_of") for c in calls), "verify tests alignment", v.file, v.line)
    # both tests lead to Err when false
    from mir import bool_edge_blocks
    vcfg = P.cfg(v)
    tb, fb = bool_edge_blocks(v, vf, vcfg, lambda k: k == "linker_utils::elf::AllowedRange::contains")
    oks = [bi for bi, si, pr, pl in vf.defs.get(0, []) if si != "call" and pl["k"] == "agg" and pl.get("variant") == "Ok"]
    rep.ob("verify-dominates", "out-of-range-is-error", bool(oks) and all(o in tb for o in oks), "Ok(()) is returned only on the contains()==true edge", v.file, v.line)


W2B = "linker_utils::elf::RelocationKindInfo::write_to_buffer"
SLICERS = ("core::slice::index::index_mut", "core::slice::get_mut", "core::slice::split_at_mut", "core::slice::split_at_mut_checked",
           "::index_mut", "core::slice::get_unchecked_mut", "core::slice::first_chunk_mut", "core::slice::split_first_chunk_mut")
# consumers other than write_to_buffer that legitimately take the section bytes: they rewrite *instructions* (C14 decides their bytes),
# the relocated value itself is still written by write_to_buffer afterwards
REWRITERS = ("libwild::platform::Relaxation::apply", "libwild::platform::Arch::fill_nop_padding")


def _is_bytes_mut(ty):
    return ty.startswith("&mut [u8") or ty.startswith("std::option::Option<&mut [u8") or ty.startswith("(&mut [u8")


def check_field_writers(rep, P, F):
    callers = sorted({b.key for b, bi, t in P.callers_of(lambda k: k == W2B)} if hasattr(P, "callers_of") else [])
    callers = [c for c in callers if not c.startswith("linker_utils::")]
    rep.floor("field-writers", "functions applying relocations through write_to_buffer", len(callers), 3)
    rep.count("relocation-applying-functions", len(callers))
    seen = set()

    def visit(key, root, depth):
        if (key, root) in seen:
            return
        seen.add((key, root))
        b = F.body(key)
        if b is None:
            rep.ob("field-writers", f"{stable(root)}:{stable(key)}:body", False, f"{key} receives the section bytes of {root} but has no analysable body", None, None)
            return
        flow = P.flow(b)
        bad_stores = []
        for bi, blk in enumerate(b.blocks):
            if blk.get("cleanup"):
                continue
            for s in blk["s"]:
                if s["k"] == "assign" and s["p"][1] and "*" in s["p"][1] and _is_bytes_mut(b.locals[s["p"][0]]):
                    bad_stores.append(s.get("l"))
        rep.ob("field-writers", f"{stable(root)}:{stable(key)}:no-direct-store", not bad_stores,
               f"{key} has no direct store through a `&mut [u8]` (lines {bad_stores})", b.file, b.line)
        consumers = {}
        for bi, t in flow.calls():
            for a in t["args"]:
                if a[0] in ("c", "m") and not a[1][1] and _is_bytes_mut(b.locals[a[1][0]]):
                    consumers.setdefault(callee_key(t["f"]) or "?", t["l"])
        for ck, line in sorted(consumers.items()):
            if ck == W2B or ck in REWRITERS or any(ck == s or ck.endswith(s) for s in SLICERS):
                continue
            if ck.startswith("<std::option::Option") or ck.startswith("std::option::Option::") or ck.startswith("<std::result::Result") \
                    or ck.startswith("std::result::Result::") or "::error::Context>::" in ck:
                continue  # unwrapping an Option/Result of a sub-slice: the slice comes out with the same type and is judged at its consumer
            if F.body(ck) is not None and depth < 3:
                visit(ck, root, depth + 1)
                continue
            rep.ob("field-writers", f"{stable(root)}:{stable(key)}:consumer:{stable(ck)}", False,
                   f"{key} hands the section bytes to {ck}, which writes them without write_to_buffer's range/alignment check", b.file, line)
        rep.ob("field-writers", f"{stable(root)}:{stable(key)}:consumers", True,
               f"`&mut [u8]` consumers in {key}: {sorted(consumers)}", b.file, b.line)

    for c in callers:
        visit(c, c, 0)


def _relaxed_range(ctx, rep):
    """After a relaxation the value is range-checked (and written) with the row of the *replacement* relocation type the relaxation names. The psABI fixes that type
    by the rewritten instruction's operand form (zero-extended imm32 -> R_X86_64_32, sign-extended -> 32S, ...): a wrong choice rejects values the instruction can
    hold or lets through values it silently changes. Same oracle rule as C14 `pairs` (shared implementation), reported here for the range it selects."""
    import C14
    import framework
    sub = framework.Report("C14")
    C14.run(ctx, sub)
    rep.rule("relaxed-range", "each relaxation of ElfX86_64::new_relaxation names the replacement relocation type - hence the range - that the psABI assigns to the rewritten "
             "instruction form (C14's `pairs` oracle rule, shared)")
    n = 0
    for o in sub.obligations:
        if o["rule"] == "pairs":
            n += 1
            w = o.get("where", "") or ""
            f, _, l = w.rpartition(":")
            rep.ob("relaxed-range", o["instance"], o["ok"], o["detail"], f or None, int(l) if l.isdigit() else None)
    rep.floor("relaxed-range", "shared obligations", n, 15)
