"""C25 — the dependency file lists exactly the files the link read.

Shares C20's registry rules (every mapped file reaches loaded_files). Plus, on the dependency writer:
the target is the output path; the iterated collection is the registry; each path is emitted once
(HashSet::insert true edge); only temporary files are skipped; it is written only for a successful,
verified link."""
import C20
from mir import (callee_key, declared_key, stable, success_blocks, bool_edge_blocks, op_place, place_chain,
                 switch_source_call, switch_bool_labels, switch_predicate)
from prov import Prov, fmt_root

EXPLANATION = ("C20's reference-identity registry analysis + value-flow/guard rules on write_dependency_file and its "
               "call site (target provenance, iterated collection, once-each edge, the only skip is `temporary`)")

W = "libwild::write_dependency_file"


def run(ctx, rep):
    F = ctx.facts()
    P = ctx.program()
    PV = Prov(P)
    # the shared registry rules, re-keyed under this property by the framework (rep.prop == C25)
    C20.run(ctx, rep, prop="C25")
    rep.rule("dep-target", "the make target is the output path (Args::output) and never the dependency file's own path")
    rep.rule("dep-source", "the dependency list is built by iterating the registry slice passed from file_loader.loaded_files")
    rep.rule("dep-once", "a path is added to the list only on the true edge of HashSet::insert (once each)")
    rep.rule("dep-skip", "inside the loop the only branch that can skip a file tests `modifiers.temporary`")
    rep.rule("dep-when", "written only when the link result is Ok")

    b = F.body(W)
    if b is None:
        rep.lost("dep-target", W)
        return
    cfg, flow = P.cfg(b), P.flow(b)
    # call site
    sites = P.callers_of(lambda k: k == W)
    rep.floor("dep-when", "callers of write_dependency_file", len(sites), 1)
    for cb, bi, t in sites:
        r0 = PV.roots(cb, t["args"][0])
        r1 = PV.roots(cb, t["args"][1])
        f2, _ = place_chain(P.flow(cb), t["args"][2])
        rep.ob("dep-target", f"{stable(cb.key)}:arg-output", r1 == {("call", "libwild::platform::Args::output")},
               f"second argument (the make target) derives from {sorted(map(fmt_root, r1))}", cb.file, t["l"])
        rep.ob("dep-target", f"{stable(cb.key)}:arg-depfile", r0 == {("call", "libwild::platform::Args::dependency_file")},
               f"first argument (the file written) derives from {sorted(map(fmt_root, r0))}", cb.file, t["l"])
        rep.ob("dep-source", f"{stable(cb.key)}:arg-registry", "loaded_files" in f2,
               f"third argument is file_loader.loaded_files (fields {f2})", cb.file, t["l"])
        ccfg, cflow = P.cfg(cb), P.flow(cb)
        tb, fb = bool_edge_blocks(cb, cflow, ccfg, lambda k: k == "std::result::Result::is_ok")
        rep.ob("dep-when", f"{stable(cb.key)}:on-ok", bi in tb, "call is on the result.is_ok() edge", cb.file, t["l"])

    # target: Path::display on param 2, none on param 1
    disp = [(bi, t) for bi, t in flow.calls() if callee_key(t["f"]) == "std::path::Path::display"]
    on2 = [x for x in disp if 2 in place_chain(flow, x[1]["args"][0])[1]]
    on1 = [x for x in disp if 1 in place_chain(flow, x[1]["args"][0])[1]]
    rep.ob("dep-target", "displays-output-path", len(on2) == 1, f"output_path is formatted exactly once ({len(on2)})", b.file, b.line)
    rep.ob("dep-target", "never-displays-depfile-path", not on1, "the dependency file's own path is never written into it", b.file, b.line)
    # the formatted target is written before any dependency line: the display block dominates every write_fmt fed by deps
    # source loop: into_iter whose arg roots at param 3
    loops = []
    for bi, t in flow.calls():
        ck = callee_key(t["f"]) or ""
        if ck.endswith("into_iter") and t["args"]:
            _f, roots = place_chain(flow, t["args"][0])
            if 3 in roots:
                loops.append(bi)
    rep.ob("dep-source", "iterates-param", len(loops) == 1, f"exactly one loop over the loaded_files parameter ({len(loops)})", b.file, b.line)
    # once-each
    pushes = [(bi, t) for bi, t in flow.calls() if callee_key(t["f"]) == "std::vec::Vec::push"]
    ins_t, ins_f = bool_edge_blocks(b, flow, cfg, lambda k: k is not None and k.endswith("HashSet::insert"))
    rep.ob("dep-once", "push-sites", len(pushes) == 1, f"one push into the dependency list ({len(pushes)})", b.file, b.line)
    for bi, t in pushes:
        rep.ob("dep-once", "push-on-insert-true", bi in ins_t,
               "deps.push happens only when the path was not seen before", b.file, t["l"])
    # skips: switches between loop head and the push that can bypass it
    if pushes and loops:
        pb = pushes[0][0]
        can = {x for x in cfg.reach if pb in cfg.reachable_from(x)}
        # the loop body starts after Iterator::next's Some edge
        n_guards = 0
        for sb in sorted(cfg.reach):
            term = b.blocks[sb]["t"]
            if term["k"] != "switch" or sb not in can:
                continue
            if not any(l in cfg.dom().get(sb, ()) for l in loops):
                continue
            within = {lab: _reaches_without_next(cfg, b, tgt, pb) for lab, tgt in cfg.succ[sb]}
            bypass = [lab for lab, r in within.items() if not r]
            if not bypass or not any(within.values()):
                continue
            src = switch_source_call(b, flow, sb)
            info = switch_predicate(b, flow, sb)
            desc = None
            ok = False
            if src and src[0] and src[0].endswith("HashSet::insert"):
                desc, ok = "HashSet::insert", True
            elif src and src[0] and src[0].endswith("Iterator>::next"):
                desc, ok = "loop end", True
            elif info["discr_of"] is not None:
                oc = flow.origin_calls(["c", info["discr_of"]])
                if any(c.endswith("Iterator>::next") for c in oc):
                    desc, ok = "loop end", True
            if desc is None:
                fields, _ = place_chain(flow, term["d"])
                if "temporary" in fields:
                    desc, ok = "modifiers.temporary", True
                    labels = switch_bool_labels(b, flow, cfg, sb)
                    ok = all(labels.get(l) is True for l in bypass)
                else:
                    desc = f"fields={fields} src={src[0] if src else None}"
            n_guards += 1
            rep.ob("dep-skip", f"guard:{desc}", ok, "a branch inside the loop can skip adding a file to the dependency list", b.file, term.get("l"))
        rep.floor("dep-skip", "loop guards", n_guards, 2)


def _reaches_without_next(cfg, body, start, target):
    """target reachable from start without passing another Iterator::next call (i.e. in this iteration)"""
    from mir import callee_key as ck
    nexts = [i for i in cfg.reach if body.blocks[i]["t"]["k"] == "call" and (ck(body.blocks[i]["t"]["f"]) or "").endswith("Iterator>::next")]
    return target in cfg.reachable_from(start, avoid=nexts)
