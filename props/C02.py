"""C02 — symbol references bind to the definition the ELF rules select.

Outcomes over arbitrary input sets are not decided. Decided (guards of the selection logic, from MIR):
shared-library definitions never compete in the first pass; first definition wins among equals;
the largest common wins and the first among equal commons; strong > common > weak in `best`;
duplicate strong definitions outside COMDAT groups are an error unless multiple definitions are allowed;
weak undefined references are exempt from the undefined-symbol error; SymbolStrength::of tests weak,
common, gnu-unique in that order."""
from mir import (bool_edge_blocks, bool_edges_of, callee_key, enum_switch, field_stores, op_const, op_place, place_chain,
                 stable, switch_chain, switch_bool_labels, switch_predicate, switch_source_call, variant_blocks)

EXPLANATION = ("guarded-effect rules over MIR: enum-variant and boolean edge dominance for every store to the selector's fields, "
               "operator/operand/polarity of the common-size comparison, decision order of `best`, edge conditions of the "
               "duplicate-definition error, of `consider` in select_symbol and of the undefined-symbol report")

SD = "libwild::symbol_db::"
SEL = SD + "SymbolPrioritySelector"
STR = SD + "SymbolStrength"


def run(ctx, rep):
    F = ctx.facts(); P = ctx.program()
    rep.rule("first-wins", "in consider: first_strong / first_weak are stored only in their variant's arm and only on the is_none() edge of the same field")
    rep.rule("largest-common", "max_common is stored only in the Common arm, and only when it was None or the new size is strictly larger than the stored one")
    rep.rule("priority-order", "best() prefers first_strong, then max_common, then first_weak")
    rep.rule("dynamic-excluded", "in select_symbol: consider() is reached only on the is_dynamic()==false edge; the dynamic fallback only when best() is None")
    rep.rule("duplicate-error", "the duplicate-definition error requires: Strong, an earlier strong, at least one of the two outside a COMDAT group, multiple definitions not allowed")
    rep.rule("undefined", "should_emit_undefined_error returns false on the is_weak() edge; check_for_undefined reports an error exactly on the should_error_on_unresolved_symbols() edge, a warning otherwise")
    rep.rule("strength-order", "SymbolStrength::of tests is_weak, then is_common, then is_gnu_unique")

    c = F.body(SEL + "::consider")
    if c is None:
        rep.lost("first-wins", SEL + "::consider")
    else:
        cfg, flow = P.cfg(c), P.flow(c)
        for field, variants in (("first_strong", {"Strong"}), ("first_weak", {"Weak", "GnuUnique"})):
            stores = field_stores(c, field)
            rep.ob("first-wins", f"{field}:one-store", len(stores) == 1, f"{len(stores)} store(s) to {field}", c.file, c.line)
            vb = variant_blocks(F, c, flow, cfg, STR, variants)
            none_true = set()
            for sb in cfg.reach:
                src = switch_source_call(c, flow, sb)
                if src and src[0] == "std::option::Option::is_none":
                    fields, _ = place_chain(flow, src[2]["args"][0])
                    if field in fields:
                        for lab, v in switch_bool_labels(c, flow, cfg, sb).items():
                            if v:
                                none_true.add((sb, lab))
            ef = cfg.edge_facts()
            for bi, s in stores:
                rep.ob("first-wins", f"{field}:in-arm", bi in vb, f"store is inside the {sorted(variants)} arm", c.file, s["l"])
                rep.ob("first-wins", f"{field}:only-if-none", bool(ef.get(bi, frozenset()) & none_true),
                       f"the first {field.split('_')[1]} definition is kept: the store happens only when the field was None (command-line order wins among equals)", c.file, s["l"])
                o = flow.origins(s["rv"]["a"])
                rep.ob("first-wins", f"{field}:stores-candidate", ("param", 2) in o, "the stored id is the candidate", c.file, s["l"])
        # max_common
        stores = field_stores(c, "max_common")
        rep.ob("largest-common", "one-store", len(stores) == 1, f"{len(stores)} store(s) to max_common", c.file, c.line)
        vb = variant_blocks(F, c, flow, cfg, STR, {"Common"})
        allowed = set()
        shape = None
        for sb in cfg.reach:
            es = enum_switch(F, c, flow, cfg, sb)
            if es and es[0] == "std::option::Option":
                info = switch_predicate(c, flow, sb)
                if info["discr_of"] and ".max_common" in info["discr_of"][1]:
                    for lab, names in es[1].items():
                        if names == frozenset(["None"]):
                            allowed.add((sb, lab))
            k, rv, bi_, fl = switch_chain(c, flow, sb)
            if k == "bin" and rv["op"] in ("Le", "Lt", "Ge", "Gt"):
                fa, _ = place_chain(flow, rv["a"])
                fb, _ = place_chain(flow, rv["b"])
                a_new = "@Common" in fa
                b_new = "@Common" in fb
                a_old = "max_common" in fa
                b_old = "max_common" in fb
                labels = switch_bool_labels(c, flow, cfg, sb)
                for lab, v in labels.items():
                    # is this edge "new > old" (strictly larger)?
                    strictly = None
                    if a_new and b_old:
                        strictly = {("Le", False): True, ("Gt", True): True}.get((rv["op"], v), False)
                    elif a_old and b_new:
                        strictly = {("Ge", False): True, ("Lt", True): True}.get((rv["op"], v), False)
                    if strictly:
                        allowed.add((sb, lab))
                shape = (rv["op"], "new" if a_new else "old" if a_old else "?", "new" if b_new else "old" if b_old else "?")
        for bi, s in stores:
            rep.ob("largest-common", "in-arm", bi in vb, "store is inside the Common arm", c.file, s["l"])
            reach = cfg.reachable_avoiding_edges(0, allowed)
            rep.ob("largest-common", "strictly-larger-or-first", bi not in reach,
                   f"max_common is replaced only if it was None or the candidate is strictly larger (comparison {shape}): among commons of equal size the first one is kept", c.file, s["l"])
            o = flow.origins(s["rv"]["a"])
            rep.ob("largest-common", "stores-candidate", ("param", 2) in o, "the stored id is the candidate", c.file, s["l"])

    # ---- priority order ------------------------------------------------------------------------------
    b = F.body(SEL + "::best")
    if b is None:
        rep.lost("priority-order", SEL + "::best")
    else:
        cfg, flow = P.cfg(b), P.flow(b)
        ors = [(bi, t) for bi, t in flow.calls() if callee_key(t["f"]) in ("std::option::Option::or", "std::option::Option::or_else")]
        if ors:
            order = []
            # innermost first: the `or` whose receiver chain names first
            for bi, t in sorted(ors, key=lambda x: x[0]):
                f0, _ = place_chain(flow, t["args"][0])
                f1, _ = place_chain(flow, t["args"][1])
                order.append(([x for x in f0 if x.startswith(("first_", "max_"))], [x for x in f1 if x.startswith(("first_", "max_"))] or _map_source(flow, t["args"][1])))
            flat = []
            for a, b_ in order:
                for x in a + b_:
                    if x not in flat:
                        flat.append(x)
            rep.ob("priority-order", "or-chain", flat == ["first_strong", "max_common", "first_weak"], f"decision order {flat}", b.file, b.line)
        else:
            # decision tree on discriminants
            seq = []
            for sb in sorted(cfg.reach):
                info = switch_predicate(b, flow, sb) if b.blocks[sb]["t"]["k"] == "switch" else None
                if info and info["discr_of"]:
                    for p in info["discr_of"][1]:
                        if p[1:] in ("first_strong", "max_common", "first_weak") and p[1:] not in seq:
                            seq.append(p[1:])
            rep.ob("priority-order", "decision-tree", seq == ["first_strong", "max_common", "first_weak"], f"fields tested in order {seq}", b.file, b.line)

    # ---- select_symbol ----------------------------------------------------------------------------------
    s_ = F.body(SD + "select_symbol")
    if s_ is None:
        rep.lost("dynamic-excluded", SD + "select_symbol")
    else:
        cfg, flow = P.cfg(s_), P.flow(s_)
        tb, fb = bool_edge_blocks(s_, flow, cfg, lambda k: k is not None and k.endswith("ValueFlags::is_dynamic"))
        cons = [bi for bi, t in flow.calls() if callee_key(t["f"]) == SEL + "::consider"]
        rep.ob("dynamic-excluded", "consider-sites", len(cons) == 1, f"{len(cons)} consider() call(s)", s_.file, s_.line)
        for bi in cons:
            rep.ob("dynamic-excluded", "consider-on-not-dynamic", bi in fb, "a shared-library definition never enters the priority selection (so it cannot override an object's definition)", s_.file, s_.blocks[bi]["t"]["l"])
        # fallback only if best() is None
        best_none = variant_blocks_of_call(F, s_, flow, cfg, SEL + "::best", "None")
        strength_calls = [bi for bi, t in flow.calls() if (callee_key(t["f"]) or "").endswith("symbol_strength")]
        later = [bi for bi in strength_calls if bi in best_none]
        rep.ob("dynamic-excluded", "fallback-after-none", len(later) >= 1 and len(strength_calls) - len(later) >= 1,
               "the loop that picks a shared-library definition runs only when best() returned None", s_.file, s_.line)
        # duplicate error
        errs = [bi for bi, t in flow.calls() if callee_key(t["f"]) == "libwild::error::Error::with_message"]
        rep.ob("duplicate-error", "error-site", len(errs) == 1, f"{len(errs)} error construction(s) in select_symbol", s_.file, s_.line)
        strong_b = variant_blocks(F, s_, flow, cfg, STR, {"Strong"})
        _amt, amf_blocks = bool_edge_blocks(s_, flow, cfg, lambda k: k is not None and k.endswith("allow_multiple_definitions"))
        ct, cf = bool_edges_of(s_, flow, cfg, lambda k: k is not None and k.endswith("is_in_comdat_group"))
        some_b = set()
        ef = cfg.edge_facts()
        some_edges = set()
        for sb in cfg.reach:
            es = enum_switch(F, s_, flow, cfg, sb)
            if es and es[0] == "std::option::Option":
                info = switch_predicate(s_, flow, sb)
                if info["discr_of"] and ".first_strong" in info["discr_of"][1]:
                    for lab, names in es[1].items():
                        if names == frozenset(["Some"]):
                            some_edges.add((sb, lab))
        for e in errs:
            l = s_.blocks[e]["t"]["l"]
            rep.ob("duplicate-error", "needs-strong", e in strong_b, "only a Strong candidate can be a duplicate", s_.file, l)
            rep.ob("duplicate-error", "needs-earlier-strong", bool(ef.get(e, frozenset()) & some_edges), "only when a strong definition was already selected", s_.file, l)
            rep.ob("duplicate-error", "needs-not-allowed", e in amf_blocks, "not when --allow-multiple-definition is given", s_.file, l)
            reach = cfg.reachable_avoiding_edges(0, cf)
            rep.ob("duplicate-error", "needs-non-comdat", e not in reach and len(cf) >= 2,
                   "unreachable if both definitions are in COMDAT groups (every path to the error takes a false edge of is_in_comdat_group)", s_.file, l)
            # and it is an Err return: the error block cannot reach consider()
            rep.ob("duplicate-error", "is-fatal", not any(cb in cfg.reachable_from(e) for cb in cons), "after the error nothing is selected (the function returns Err)", s_.file, l)

    # ---- undefined ----------------------------------------------------------------------------------------
    u = F.body("libwild::layout::should_emit_undefined_error")
    if u is None:
        rep.lost("undefined", "layout::should_emit_undefined_error")
    else:
        cfg, flow = P.cfg(u), P.flow(u)
        tb, fb = bool_edge_blocks(u, flow, cfg, lambda k: k is not None and k.endswith("::is_weak"))
        # every `true` return is outside the weak-true region; some `false` return inside it
        rets_true = [bi for bi, si, pr, pl in flow.defs.get(0, []) if si != "call" and pl["k"] == "use" and op_const(pl["a"]) and op_const(pl["a"]).get("val") == 1]
        rets_other = [bi for bi, si, pr, pl in flow.defs.get(0, []) if not (si != "call" and pl["k"] == "use" and op_const(pl["a"]) and op_const(pl["a"]).get("val") == 0)]
        wt, wf = bool_edges_of(u, flow, cfg, lambda k: k is not None and k.endswith("::is_weak"))
        reach_weak = set()
        for sb, lab in wt:
            for l2, tgt in cfg.succ[sb]:
                if l2 == lab:
                    reach_weak |= cfg.reachable_from(tgt)
        bad = [bi for bi in rets_other if bi in reach_weak and not _also_reachable_without(cfg, bi, wt)]
        rep.ob("undefined", "weak-exempt", bool(wt) and not bad, "a weak undefined reference never leads to a true (= report) result", u.file, u.line)
    cu = F.body("libwild::layout::check_for_undefined")
    if cu is None:
        rep.lost("undefined", "layout::check_for_undefined")
    else:
        cfg, flow = P.cfg(cu), P.flow(cu)
        tb, fb = bool_edge_blocks(cu, flow, cfg, lambda k: k is not None and k.endswith("should_error_on_unresolved_symbols"))
        st, sf = bool_edge_blocks(cu, flow, cfg, lambda k: k == "libwild::layout::should_emit_undefined_error")
        reps = [bi for bi, t in flow.calls() if callee_key(t["f"]) == "libwild::layout::GraphResources::report_error"]
        warns = [bi for bi, t in flow.calls() if (callee_key(t["f"]) or "").endswith("SymbolDb::warning")]
        rep.ob("undefined", "error-on-flag", len(reps) == 1 and all(r in tb and r in st for r in reps), "report_error only when should_emit_undefined_error and should_error_on_unresolved_symbols hold", cu.file, cu.line)
        rep.ob("undefined", "warning-otherwise", len(warns) == 1 and all(w in fb and w in st for w in warns), "otherwise a warning", cu.file, cu.line)

    # ---- strength order -------------------------------------------------------------------------------------
    so = F.body(STR + "::of")
    if so is None:
        rep.lost("strength-order", STR + "::of")
    else:
        flow = P.flow(so)
        seq = [callee_key(t["f"]).split("::")[-1] for bi, t in sorted(flow.calls(), key=lambda x: x[0]) if (callee_key(t["f"]) or "").split("::")[-1] in ("is_weak", "is_common", "is_gnu_unique")]
        rep.ob("strength-order", "tests", seq == ["is_weak", "is_common", "is_gnu_unique"], f"tests in order {seq}", so.file, so.line)
        cfg = P.cfg(so)
        for pred, variant in (("is_weak", "Weak"), ("is_common", "Common"), ("is_gnu_unique", "GnuUnique")):
            tb, fb = bool_edge_blocks(so, flow, cfg, lambda k, p=pred: k is not None and k.endswith("::" + p))
            aggs = [bi for bi, blk in enumerate(so.blocks) for s in blk["s"] if s["k"] == "assign" and s["rv"]["k"] == "agg" and s["rv"].get("adt") == STR and s["rv"]["variant"] == variant]
            rep.ob("strength-order", f"{variant}", bool(aggs) and all(a in tb for a in aggs), f"{variant} is produced on the {pred}() true edge", so.file, so.line)
    # ---- undefined-reference error: the whole decision, as a boolean function ------------------------------------------
    import decide
    rep.rule("undefined-function", "should_emit_undefined_error == absolute && symbol readable && !allow_object_undefined && !referrer_is_weak && behaviour not in "
             "{IgnoreAll, IgnoreInObjectFiles} && SymbolDb::is_undefined(id); SymbolDb::is_undefined == (object file && symbol readable && sym.is_undefined()) - "
             "in particular it does not look at the canonical symbol's binding (weakness is a property of the *referrer*, tested by the caller)")
    se = F.body("libwild::layout::should_emit_undefined_error")
    if se is None:
        rep.lost("undefined-function", "layout::should_emit_undefined_error")
    else:
        try:
            paths = decide.bool_paths(P, F, se)
            ok, why = decide.check_formula(paths, {"abs": "is_absolute(", "sym": "variant:symbol(", "allow": "should_allow_object_undefined(", "weak": "Symbol::is_weak(",
                                                   "beh": "variant:unresolved_symbols_behaviour", "undef": "SymbolDb::is_undefined("},
                                           lambda v: v["abs"] and v["sym"] == "Ok" and not v["allow"] and not v["weak"] and v["beh"] not in ("IgnoreAll", "IgnoreInObjectFiles") and v["undef"])
            rep.ob("undefined-function", "should_emit_undefined_error", ok, f"{len(paths)} paths; {why}", se.file, se.line)
        except decide.NotLoopFree as e:
            rep.ob("undefined-function", "should_emit_undefined_error", False, f"no longer loop-free: {e}", se.file, se.line)
    iu = F.body("libwild::symbol_db::SymbolDb::is_undefined")
    if iu is None:
        rep.lost("undefined-function", "SymbolDb::is_undefined")
    else:
        try:
            paths = decide.bool_paths(P, F, iu)
            ok, why = decide.check_formula(paths, {"grp": "variant:index(self.groups", "ok": "Result::is_ok_and("}, lambda v: v["grp"] == "Objects" and v["ok"])
            rep.ob("undefined-function", "is_undefined:outer", ok, f"{len(paths)} paths; {why}", iu.file, iu.line)
        except decide.NotLoopFree as e:
            rep.ob("undefined-function", "is_undefined:outer", False, f"no longer loop-free: {e}", iu.file, iu.line)
        cl = F.closures_of("libwild::symbol_db::SymbolDb::is_undefined")
        rep.ob("undefined-function", "is_undefined:closures", len(cl) == 1, f"{len(cl)} closure(s) in SymbolDb::is_undefined", iu.file, iu.line)
        for c in cl:
            try:
                paths = decide.bool_paths(P, F, c)
                ok, why = decide.check_formula(paths, {"u": "Symbol::is_undefined("}, lambda v: v["u"])
                rep.ob("undefined-function", "is_undefined:closure", ok, f"the closure is exactly sym.is_undefined(): {why}", c.file, c.line)
            except decide.NotLoopFree as e:
                rep.ob("undefined-function", "is_undefined:closure", False, str(e), c.file, c.line)
    # ---- a weak reference is defined iff the definition finally selected for it lives in a loaded file ----------------------------
    # At lookup time a weak reference only knows the *first* definition of its name, which may sit in an archive member that is never
    # loaded (a weak reference does not pull it in). Whether the reference ends up defined must be judged from the definition selected
    # after alternative definitions were resolved - otherwise `main.o libx.a b.o` leaves the reference null although b.o defines it.
    rep.rule("weak-current-definition", "canonicalise_undefined_symbols decides `weak reference is defined` from the file of SymbolDb::definition(reference), not from the file remembered at lookup time")
    cu = F.body("libwild::resolution::canonicalise_undefined_symbols")
    cands = [cu] + list(F.closures_of("libwild::resolution::canonicalise_undefined_symbols")) if cu is not None else []
    tests = []
    for b_ in cands:
        fl_, cf_ = P.flow(b_), P.cfg(b_)
        import mir as _mir
        for sb in cf_.reach:
            es = _mir.enum_switch(F, b_, fl_, cf_, sb)
            if es and es[0].endswith("resolution::ResolvedFile") and any(v == frozenset({"NotLoaded"}) for v in es[1].values()):
                o = fl_.deep_origins(b_.blocks[sb]["t"]["d"])
                names = {(x[1] or "").split("::")[-1] for x in o if x[0] == "call"}
                tests.append((b_, sb, names))
    if cu is None:
        rep.lost("weak-current-definition", "resolution::canonicalise_undefined_symbols")
    else:
        rep.ob("weak-current-definition", "loaded-test", len(tests) >= 1, f"{len(tests)} test(s) of ResolvedFile::NotLoaded in canonicalise_undefined_symbols", cu.file, cu.line)
        for b_, sb, names in tests:
            ok = "definition" in names and "file_id_for_symbol" in names
            rep.ob("weak-current-definition", "from-current-definition", ok, (f"the file tested is file_id_for_symbol(definition(reference)) (calls: {sorted(names)})" if ok else
                   f"the file tested for being loaded does not come from SymbolDb::definition (calls: {sorted(names)}): a weak reference whose first definition is in an unloaded archive member "
                   "resolves to zero even when a loaded object defines the symbol"), b_.file, b_.blocks[sb]["t"]["l"])

    # ---- references are recorded under their own symbol id -----------------------------------------------------------------
    rep.rule("reference-index", "in resolve_symbols every use of the per-chunk enumerate index goes through start_symbol_offset + index (the symbol id an undefined or weak reference is recorded under is the reference's own)")
    import chunkidx
    r_ = chunkidx.analyse(F, P)
    if r_ is None:
        rep.lost("reference-index", "libwild::resolution::resolve_symbols")
    else:
        rep.ob("reference-index", "site", len(r_["uses"]) >= 2, f"{len(r_['uses'])} use(s) of the enumerate index examined", "libwild/src/resolution.rs", 0)
        for c_, line, kind, ok, detail in r_["uses"]:
            rep.ob("reference-index", f"absolute-index:{kind}", ok or r_["relative"] is False, detail + ("" if ok else ": in an object with more than 5000 symbols an undefined or weak reference in a later chunk "
                   "is recorded under the id of an unrelated symbol - a non-weak undefined reference is then not reported and a bound reference can be reset to undefined"), c_.file, line)
    rep.assume("the fixpoint over arbitrary sets of inputs and the position of definitions on the command line are input data: not decided")


def _map_source(flow, op):
    oc = flow.origin_calls(op)
    out = []
    for c in oc:
        pass
    fields, _ = place_chain(flow, op)
    # the value may be the result of Option::map(self.max_common, ..)
    for bi, si, pr, payload in flow.defs.get(op_place(op)[0], []) if op_place(op) else []:
        if si == "call" and (callee_key(payload["f"]) or "").endswith("Option::map"):
            f2, _ = place_chain(flow, payload["args"][0])
            out += [x for x in f2 if x.startswith(("first_", "max_"))]
    return out


def variant_blocks_of_call(F, body, flow, cfg, callee, variant):
    """blocks edge-dominated by `callee`'s Option result being `variant`"""
    ef = cfg.edge_facts()
    edges = set()
    for sb in cfg.reach:
        es = enum_switch(F, body, flow, cfg, sb)
        if not es or es[0] != "std::option::Option":
            continue
        info = switch_predicate(body, flow, sb)
        if callee not in info["calls"]:
            continue
        for lab, names in es[1].items():
            if names == frozenset([variant]):
                edges.add((sb, lab))
    return {b for b in cfg.reach if ef.get(b, frozenset()) & edges}


def _also_reachable_without(cfg, target, edges):
    return target in cfg.reachable_avoiding_edges(0, edges) and False
