"""C37 — DT_NEEDED lists exactly the required libraries (structural clauses).

Which libraries satisfy a reference depends on the inputs: not decided. Decided:
 * is_optional is exactly (archive-semantics && !whole_archive) || (dynamic && as_needed) (truth table from MIR), so a
   shared library without --as-needed is never optional, and an --as-needed one is;
 * resolve_group parks optional files and queues all others (shared rule with C03); a parked file is requested only by a
   non-weak reference from another file (shared rule with C03);
 * one DT_NEEDED per loaded shared object: activate_dynamic allocates exactly one .dynamic entry and lib_name.len()+1
   bytes of .dynstr on every path; DynamicLayoutState::activate calls it unconditionally; write_dynamic_file calls
   write_so_name on every path before anything else; write_so_name writes one entry, tag DT_NEEDED, value = the offset
   of the string it wrote, string = object.lib_name;
 * and no others: DT_NEEDED is written nowhere else; write_file reaches write_dynamic_file only on the
   FileLayout::Dynamic arm."""
import decide
from mir import callee_key, op_const, stable, variant_blocks

EXPLANATION = ("truth-table extraction of SequencedInputObject::is_optional over MIR decision atoms; post-dominance (must-pass-through) "
               "of the DT_NEEDED allocation and writer; value-flow of tag/value/string; who-may-write DT_NEEDED over all bodies; enum-arm confinement in write_file")
DT_NEEDED = 1


def run(ctx, rep):
    F = ctx.facts(); P = ctx.program()
    rep.rule("is-optional", "is_optional == (has_archive_semantics && !whole_archive) || (is_dynamic && as_needed)")
    rep.rule("loading", "optional files are parked, others queued; a parked file is requested only by a non-weak reference from another file (C03's rules)")
    rep.rule("one-per-loaded", "every activated shared object allocates and writes exactly one DT_NEEDED, unconditionally")
    rep.rule("needed-contents", "write_so_name: tag DT_NEEDED, value = offset returned by write_str(object.lib_name)")
    rep.rule("no-others", "DT_NEEDED is written only by write_so_name; write_dynamic_file is reached only on the FileLayout::Dynamic arm")

    io = F.body("libwild::grouping::SequencedInputObject::is_optional")
    if io is None:
        rep.lost("is-optional", "SequencedInputObject::is_optional")
    else:
        try:
            paths = decide.bool_paths(P, F, io)
            ok, why = decide.check_formula(paths, {"arch": "has_archive_semantics", "whole": "whole_archive", "dyn": "is_dynamic", "asn": "as_needed"},
                                           lambda v: (v["arch"] and not v["whole"]) or (v["dyn"] and v["asn"]))
            rep.ob("is-optional", "truth-table", ok, f"{len(paths)} paths; {why}", io.file, io.line)
        except decide.NotLoopFree as e:
            rep.ob("is-optional", "truth-table", False, str(e), io.file, io.line)

    import C03
    import framework
    sub = framework.Report("C03")
    C03.run(ctx, sub)
    n = 0
    for o in sub.obligations:
        if o["rule"] in ("optional-parked", "activation-guard", "weak-conditional"):
            n += 1
            w = o.get("where", "")
            f, _, l = w.rpartition(":")
            rep.ob("loading", f"{o['rule']}:{o['instance']}", o["ok"], o["detail"], f or None, int(l) if l.isdigit() else None)
    rep.floor("loading", "shared loading obligations", n, 5)

    # ---- allocation ---------------------------------------------------------------------------------------------
    ad = next((b for b in F.all_bodies if stable(b.key).endswith("libwild::platform::Platform>::activate_dynamic") and "elf::Elf" in b.key), None)
    if ad is None:
        rep.lost("one-per-loaded", "Elf::activate_dynamic")
    else:
        flow, cfg = P.flow(ad), P.cfg(ad)
        allocs = []
        for bi, t in flow.calls():
            if (callee_key(t["f"]) or "").endswith("CommonGroupState::<'data, P>::allocate") or (callee_key(t["f"]) or "").endswith("::allocate"):
                c = op_const(t["args"][1]) if len(t["args"]) > 1 else None
                allocs.append((bi, (c or {}).get("def") or (c or {}).get("text"), t))
        dyn = [a for a in allocs if a[1] and a[1].endswith("part_id::DYNAMIC")]
        dstr = [a for a in allocs if a[1] and a[1].endswith("part_id::DYNSTR")]
        rep.ob("one-per-loaded", "alloc:dynamic-entry", len(dyn) == 1 and all(cfg.postdominates(a[0], 0) for a in dyn),
               f"{len(dyn)} allocation(s) of part_id::DYNAMIC, on every path from entry", ad.file, ad.line)
        for a in dyn:
            from mir import expr_tree, render, simplify
            r = render(simplify(expr_tree(P, ad, a[2]["args"][2], depth=5, expand_params=0)))
            szs = [ad.blocks[o[2]]["t"]["f"].get("fn_args") or "" for o in flow.deep_origins(a[2]["args"][2]) if o[0] == "call" and (o[1] or "").endswith("size_of")]
            rep.ob("one-per-loaded", "alloc:entry-size", len(szs) == 1 and ("DynamicEntry" in szs[0] or "elf::Dyn64<" in szs[0]) and r.startswith("size_of("), f"size allocated = {r} with {szs} (exactly one DynamicEntry)", ad.file, a[2]["l"])
        rep.ob("one-per-loaded", "alloc:dynstr", len(dstr) == 1 and all(cfg.postdominates(a[0], 0) for a in dstr), f"{len(dstr)} allocation(s) of part_id::DYNSTR on every path", ad.file, ad.line)
        for a in dstr:
            from mir import expr_tree, render, simplify
            r = render(simplify(expr_tree(P, ad, a[2]["args"][2], depth=12, expand_params=0)))
            rep.ob("one-per-loaded", "alloc:dynstr-size", "lib_name" in r and r.startswith("Add(") and r.endswith(", 1)"), f"size allocated = {r} (lib_name.len() + 1)", ad.file, a[2]["l"])
    act = F.body("libwild::layout::DynamicLayoutState::activate")
    if act is None:
        rep.lost("one-per-loaded", "DynamicLayoutState::activate")
    else:
        flow, cfg = P.flow(act), P.cfg(act)
        calls = [bi for bi, t in flow.calls() if (callee_key(t["f"]) or "").endswith("activate_dynamic") or "activate_dynamic" in (t["f"].get("fn") or "")]
        rep.ob("one-per-loaded", "activate-calls-alloc", len(calls) == 1 and all(cfg.postdominates(c, 0) for c in calls), f"{len(calls)} call(s) of P::activate_dynamic, on every path from entry", act.file, act.line)

    # ---- writer ----------------------------------------------------------------------------------------------------
    wd = F.body("libwild::elf_writer::write_dynamic_file")
    if wd is None:
        rep.lost("one-per-loaded", "elf_writer::write_dynamic_file")
    else:
        flow, cfg = P.flow(wd), P.cfg(wd)
        so = [bi for bi, t in flow.calls() if (callee_key(t["f"]) or "").endswith("elf_writer::write_so_name")]
        rep.ob("one-per-loaded", "writer-calls-so_name", len(so) == 1 and all(cfg.postdominates(c, 0) for c in so), f"{len(so)} call(s) of write_so_name, executed on every path from entry (no condition can skip it)", wd.file, wd.line)
        # not inside a loop: the block must not be reachable from itself
        for c in so:
            nxt = wd.blocks[c]["t"].get("to")
            rep.ob("one-per-loaded", "writer-once", nxt is None or c not in cfg.reachable_from(nxt), "write_so_name is not inside a loop (one entry per object)", wd.file, wd.blocks[c]["t"]["l"])
    ws = F.body("libwild::elf_writer::write_so_name")
    if ws is None:
        rep.lost("needed-contents", "elf_writer::write_so_name")
    else:
        flow, cfg = P.flow(ws), P.cfg(ws)
        writes = [(bi, t) for bi, t in flow.calls() if (callee_key(t["f"]) or "").endswith("DynamicEntriesWriter::write") or (callee_key(t["f"]) or "").endswith("::write") and "Dynamic" in (callee_key(t["f"]) or "")]
        strs = [(bi, t) for bi, t in flow.calls() if (callee_key(t["f"]) or "").endswith("StrTabWriter::write_str") or (callee_key(t["f"]) or "").endswith("::write_str")]
        rep.ob("needed-contents", "one-entry", len(writes) == 1 and len(strs) == 1, f"{len(writes)} dynamic entry write(s), {len(strs)} string write(s)", ws.file, ws.line)
        for bi, t in writes:
            c = op_const(t["args"][1])
            rep.ob("needed-contents", "tag", bool(c) and (c.get("val") == DT_NEEDED or (c.get("def") or "").endswith("elf::DT_NEEDED")), f"tag constant = {c and (c.get('def') or c.get('val'))}", ws.file, t["l"])
            o = flow.deep_origins(t["args"][2])
            rep.ob("needed-contents", "value-is-string-offset", any(x[0] == "call" and (x[1] or "").endswith("write_str") for x in o), "the entry's value derives from the offset returned by write_str", ws.file, t["l"])
        for bi, t in strs:
            from mir import expr_tree, render
            r = render(expr_tree(P, ws, t["args"][1], depth=5, expand_params=0))
            rep.ob("needed-contents", "string-is-lib_name", "object.lib_name" in r or r.endswith(".lib_name"), f"string written = {r}", ws.file, t["l"])
            tgt = render(expr_tree(P, ws, t["args"][0], depth=5, expand_params=0))
            rep.ob("needed-contents", "string-in-dynstr", "dynsym_writer" in tgt and "strtab_writer" in tgt, f"string table written = {tgt} (.dynstr)", ws.file, t["l"])

    # ---- no others ---------------------------------------------------------------------------------------------------
    others = []
    n_tag = 0
    for b in F.all_bodies:
        if not b.key.startswith(("libwild::", "<libwild::")):
            continue
        for bi, blk in enumerate(b.blocks):
            t = blk["t"]
            if t["k"] != "call" or blk.get("cleanup"):
                continue
            for a in t["args"]:
                c = op_const(a)
                if c and (c.get("def") or "").endswith("elf::DT_NEEDED"):
                    n_tag += 1
                    ck = callee_key(t["f"]) or ""
                    if stable(b.key) != "libwild::elf_writer::write_so_name" and not ck.endswith(("PartialEq::eq", "PartialEq::ne")):
                        others.append((b, t))
    for b, t in others:
        rep.ob("no-others", f"writer:{stable(b.key)}", False, "DT_NEEDED is passed to a call outside write_so_name (an entry for a library that was not loaded?)", b.file, t["l"])
    rep.ob("no-others", "dt-needed-uses", n_tag >= 1 and not others, f"{n_tag} call(s) receive the DT_NEEDED constant; all inside write_so_name", "libwild/src/elf_writer.rs", 0)
    callers = P.callers_of(lambda k: k.endswith("elf_writer::write_so_name"))
    rep.ob("no-others", "so_name-callers", [stable(c[0].key) for c in callers] == ["libwild::elf_writer::write_dynamic_file"], f"callers of write_so_name: {[stable(c[0].key) for c in callers]}", "libwild/src/elf_writer.rs", 0)
    for cb, cbi, ct in P.callers_of(lambda k: k.endswith("elf_writer::write_dynamic_file")):
        flow, cfg = P.flow(cb), P.cfg(cb)
        vb = variant_blocks(F, cb, flow, cfg, "libwild::layout::FileLayout", {"Dynamic"})
        rep.ob("no-others", f"dynamic-arm:{stable(cb.key)}", cbi in vb, "write_dynamic_file is called only on the FileLayout::Dynamic arm (objects that were not loaded write nothing)", cb.file, ct["l"])
    _as_needed_scope(ctx, rep)
    rep.assume("the order of DT_NEEDED entries follows the order of the per-file output buffers, which follows file order: not decided here")


def _as_needed_scope(ctx, rep):
    """Linker scripts: `GROUP ( AS_NEEDED ( liba.so ) libb.so )` - only liba.so is as-needed. foreach_input walks the command list with a `modifiers` value; the
    AS_NEEDED arm must hand a *copy* with as_needed = true to the recursive call and leave its own value alone, otherwise every later entry of the same list
    inherits the flag and an unreferenced library listed outside the group loses its DT_NEEDED."""
    from mir import callee_key, op_const
    F, P = ctx.facts(), ctx.program()
    rep.rule("as-needed-scope", "in linker_script::foreach_input the modifiers parameter is never written (no store to it or to one of its fields); the AsNeeded arm recurses with a fresh "
             "Modifiers { as_needed: true, ..modifiers }; Arg entries get the parameter as it was passed in")
    bs = [b for b in F.all_bodies if b.key == "libwild::linker_script::foreach_input"]
    if not bs:
        rep.lost("as-needed-scope", "linker_script::foreach_input")
        return
    b = bs[0]
    flow = P.flow(b)
    mp = next((i for i in range(1, b.d["argc"] + 1) if b.locals[i].strip().endswith("Modifiers")), None)
    if mp is None:
        rep.lost("as-needed-scope", "the Modifiers parameter of foreach_input")
        return
    writes = []
    for bi, blk in enumerate(b.blocks):
        if blk.get("cleanup"):
            continue
        for st in blk["s"]:
            if st["k"] == "assign" and st["p"][0] == mp:
                writes.append(st.get("l"))
        t = blk["t"]
        if t["k"] == "call" and t["dest"][0] == mp:
            writes.append(t.get("l"))
    rep.ob("as-needed-scope", "parameter-not-mutated", not writes,
           "the modifiers parameter is read-only inside foreach_input" if not writes else
           f"the modifiers parameter is written at line(s) {writes}: the as_needed flag set for an AS_NEEDED(...) group leaks to the entries that follow the group in the same list", b.file, b.line)
    rec = [(bi, t) for bi, t in flow.calls() if callee_key(t["f"]) == b.key]
    fresh = 0
    for bi, t in rec:
        for x in flow.origins(t["args"][1]):
            if x[0] == "agg" and str(x[1]).endswith("Modifiers::Modifiers") or (x[0] == "agg" and "Modifiers" in str(x[1])):
                # the aggregate: as_needed field is the constant true
                for blk in b.blocks:
                    for st in blk["s"]:
                        if st["k"] == "assign" and st["rv"]["k"] == "agg" and "Modifiers" in str(st["rv"].get("adt") or ""):
                            fields = st["rv"].get("fields") or []
                            if "as_needed" in fields and (op_const(st["rv"]["ops"][fields.index("as_needed")]) or {}).get("val") == 1:
                                fresh += 1
    rep.ob("as-needed-scope", "group-gets-a-copy", fresh >= 1 and len(rec) >= 2, f"{len(rec)} recursive call(s); {fresh} receive(s) a fresh Modifiers with as_needed = true", b.file, b.line)
