"""C22 — malformed input produces a diagnostic, never a crash (three exact sub-rules).

Panic-freedom of all index arithmetic is not decided. Decided, type-resolved over the MIR of every
workspace body:
 (A) error discipline: no Result::unwrap/expect/unwrap_unchecked whose error type is one that input
     parsing produces (object's errors, io::Error, UTF-8/int parse errors, winnow, leb128 read,
     zerocopy size/alignment errors, the linker's own Error/anyhow) outside a table of sites whose
     invariant is written down;
 (B) todo!/unimplemented! are not reachable from Linker::run in the ELF instantiation; trait methods whose
     default body is unimplemented!() are overridden wherever their enabling method is;
 (C) every call-graph cycle inside the modules that parse or walk input-controlled nesting contains a
     depth/budget test; cycles without one are findings (each demonstrated with a stack overflow)."""
import re

from mir import callee_key, declared_key, expr_tree, op_const, render, sccs, simplify, stable, switch_chain

EXPLANATION = ("type-resolved scan of all workspace MIR bodies for Result::unwrap/expect with an input-derived error type; call-graph "
               "reachability of todo!/unimplemented! panics from Linker::run restricted to the ELF instantiation, plus override "
               "pairing of default-unimplemented trait methods; SCCs of the call graph inside input-nesting modules and a guard "
               "test (comparison of a depth/budget value on a path to the recursive call)")
W = ("libwild::", "<libwild::", "linker_utils::", "<linker_utils::", "wild::", "<wild::")
UNWRAPS = {"std::result::Result::unwrap", "std::result::Result::expect", "std::result::Result::unwrap_unchecked"}
INPUT_ERR = re.compile(r"(object::Error|object::read::Error|libwild::error::Error|anyhow::Error|std::io::Error|Utf8Error|FromUtf8Error|"
                       r"ParseIntError|ParseFloatError|winnow::|leb128::read::Error|zerocopy::)")
# (function, error class) -> invariant that makes the error impossible
ALLOW = {
    ("libwild::layout::Layout::layout_data::{closure}::{closure}::{closure}::{closure}", "libwild::error::Error"):
        "section_size(section) is unwrapped only inside `.then(..)` of a condition that already required section_size(section).is_ok_and(..)",
    ("libwild::file_writer::split_buffers_by_alignment::{closure}", "anyhow::Error"):
        "splits the output buffer by the sizes the layout itself computed (the buffer was created with the sum of those sizes)",
    ("libwild::elf::riscv_attributes_section_size::{closure}", "std::io::Error"):
        "ULEB128 of a u64 into a 10-byte cursor always fits",
    ("linker_utils::elf::RelocationKindInfo::write_to_buffer", "std::io::Error"):
        "ULEB128 of a u64 into a 10-byte Vec cursor always fits",
    ("<libwild::elf::Elf as libwild::platform::Platform>::validate_resolution", "zerocopy::"):
        "reads a u64 from a slice of exactly size_of::<u64>() bytes (bounds checked just above); SizeError is the only error of read_from_bytes",
    ("libwild::elf::process_eh_frame_relocations", "zerocopy::"):
        "read_from_bytes on data[offset..offset+PREFIX_LEN]: exactly size_of::<EhFrameEntryPrefix>() bytes, loop condition keeps it in bounds",
    ("libwild::elf_writer::write_eh_frame_relocations", "zerocopy::"):
        "read_from_bytes on data[input_pos..input_pos+PREFIX_LEN]: exactly size_of::<EhFrameEntryPrefix>() bytes",
    ("libwild::elf_writer::sort_eh_frame_hdr_entries", "zerocopy::"):
        "output buffer of .eh_frame_hdr: 4-byte aligned section, size = header + 8*n by construction of the layout",
    ("libwild::elf_writer::TableWriter::new", "zerocopy::"):
        "output buffer of the GOT part: 8-byte aligned, size a multiple of 8 by construction of the layout",
    ("libwild::elf_writer::TableWriter::take_eh_frame_hdr", "zerocopy::"):
        "output buffer, split at exactly size_of::<EhFrameHdr>() in a 4-byte aligned section",
    ("libwild::elf_writer::TableWriter::take_eh_frame_hdr_entry", "zerocopy::"):
        "output buffer, split at exactly size_of::<EhFrameHdrEntry>() in a 4-byte aligned section",
    ("libwild::elf_writer::write_gnu_property_notes", "zerocopy::"):
        "output buffer of .note.gnu.property, split at exactly size_of::<NoteProperty>() in an 8-byte aligned section",
}
# cycles that carry no depth test but are bounded for a stated reason; kind `visited` is re-verified from the code
CYCLE_ALLOW = {
    "libwild::linker_script::foreach_input": ("tree-walk",
        "structural recursion over the Command tree built by parse_command/parse_paren_group: its depth is the parser's recursion depth, "
        "so the parser cycle is the one that needs (and is reported for lacking) the budget"),
    "libwild::save_dir::SaveDirState::write_args": ("after-parse",
        "runs from SaveDirState::finish, i.e. only after Args::parse expanded the same response files, whose nesting is limited "
        "(MAX_RESPONSE_FILE_DEPTH, fix 68a4390)"),
    "libwild::save_dir::SaveDirState::copy_file": ("visited",
        "visited-set recursion: returns at once when the destination already exists; parents are strictly shorter paths; symlink chains are "
        "cut by the OS (exists() follows links and fails with ELOOP); thin-archive members are visited only after the archive itself was copied"),
}
NESTING_MODULES = ("libwild::linker_script::", "libwild::version_script::", "libwild::export_list::", "libwild::expression_eval::",
                   "libwild::args::", "libwild::save_dir::", "libwild::glob_match::")


def err_type(fn_args):
    m = re.match(r".*?Result::<(.*)>::(unwrap|expect|unwrap_unchecked)$", fn_args or "")
    inner = m.group(1) if m else (fn_args or "")
    depth = 0
    idx = None
    for i, c in enumerate(inner):
        if c in "<([":
            depth += 1
        elif c in ">)]":
            depth -= 1
        elif c == "," and depth == 0:
            idx = i
    return inner[idx + 1:].strip() if idx is not None else inner


def run(ctx, rep):
    F = ctx.facts(); P = ctx.program()
    rep.rule("input-error-unwrap", "no Result::unwrap/expect on an error type produced by input parsing, outside the allow table")
    rep.rule("todo-elf", "no todo!()/unimplemented!() reachable from Linker::run in the ELF instantiation")
    rep.rule("default-unimplemented", "a trait method whose default body is unimplemented!() is overridden by every implementation that enables its caller")
    rep.rule("recursion-budget", "every call-graph cycle in an input-nesting module tests a depth/budget value before recursing")

    # ---- (A)
    n_sites = 0
    used = set()
    for b in F.all_bodies:
        if not b.key.startswith(W):
            continue
        for bi, blk in enumerate(b.blocks):
            t = blk["t"]
            if t["k"] != "call" or blk.get("cleanup"):
                continue
            ck = callee_key(t["f"]) or ""
            if ck not in UNWRAPS:
                continue
            n_sites += 1
            E = err_type(t["f"].get("fn_args"))
            # the *head* of the error type decides: PoisonError<MutexGuard<Vec<Error>>> is a lock error, not an input error
            m = INPUT_ERR.match(E.lstrip("&").strip())
            if not m:
                continue
            cls = m.group(1)
            key = (stable(b.key), cls)
            reason = ALLOW.get(key)
            if reason:
                used.add(key)
            rep.ob("input-error-unwrap", f"{stable(b.key)}:{cls.rstrip(':')}", reason is not None,
                   (f"allowed: {reason}" if reason else f"`{ck.split('::')[-1]}()` on Result<_, {E[:80]}>: a malformed input reaching this call panics"), b.file, t["l"])
    rep.floor("input-error-unwrap", "Result::unwrap/expect sites scanned", n_sites, 40)
    for key in ALLOW:
        if key not in used:
            rep.note(f"allow row no longer matches anything: {key}")

    # ---- (B)
    todo = {}
    for b in F.all_bodies:
        for bi, blk in enumerate(b.blocks):
            t = blk["t"]
            if t["k"] == "call" and not blk.get("cleanup"):
                ck = callee_key(t["f"]) or ""
                if ck in ("core::panicking::panic", "core::panicking::panic_fmt", "core::panicking::panic_display", "std::rt::begin_panic"):
                    msg = None
                    for a in t["args"]:
                        c = op_const(a)
                        if c:
                            msg = c.get("text")
                    if msg and ("not yet implemented" in msg or "not implemented" in msg):
                        todo.setdefault(b.key, []).append(t["l"])
    rep.floor("todo-elf", "bodies containing todo!/unimplemented!", len(todo), 1)
    roots = [k for k in F.bodies if stable(k) in ("libwild::Linker::run", "libwild::Args::parse", "wild::main")] if hasattr(F, "bodies") else []
    reach = P.reachable(roots)
    rep.ob("todo-elf", "roots", len(roots) >= 1, f"roots: {sorted(stable(r) for r in roots)}; {len(reach)} bodies reachable (trait calls expanded to every implementation)", "libwild/src/lib.rs", 0)

    def macho_only(k):
        s = stable(k)
        return "::macho" in s or "MachO" in s
    elf_reach = [k for k in todo if k in reach and not macho_only(k)]
    trait_defaults = [k for k in elf_reach if stable(k).startswith("libwild::platform::")]
    for k in elf_reach:
        if k in trait_defaults:
            continue
        b = F.body(k)
        rep.ob("todo-elf", stable(k), False, f"todo!/unimplemented! at line(s) {todo[k]} is reachable from Linker::run", b.file if b else None, todo[k][0])
    rep.ob("todo-elf", "summary", True, f"{len(todo)} bodies contain todo!/unimplemented!; {sum(1 for k in todo if k in reach and macho_only(k))} are Mach-O-only implementations "
           f"(selected only when P = MachO; not claimed), {len(trait_defaults)} are trait defaults (next rule), {len([k for k in elf_reach if k not in trait_defaults])} reachable in the ELF instantiation", "libwild/src/lib.rs", 0)
    # default-unimplemented pairing
    PAIRS = {"libwild::platform::Arch::write_thunk": "thunk_config", "libwild::platform::Platform::plugin_all_symbols_read": "maybe_init_linker_plugin"}
    impls = list(F.impls())
    for k in trait_defaults:
        s = stable(k)
        enabling = PAIRS.get(s)
        trait_path = s.rsplit("::", 1)[0]
        method = s.rsplit("::", 1)[1]
        if enabling is None:
            rep.ob("default-unimplemented", s, False, "default body is unimplemented!() and no enabling method is known for it", None, todo[k][0])
            continue
        bad = []
        n = 0
        for im in impls:
            if not (im.get("trait") or "").startswith(trait_path):
                continue
            n += 1
            items = {i if isinstance(i, str) else i.get("name") for i in im.get("items", [])}
            if enabling in items and method not in items:
                bad.append(im.get("self") or im.get("ty") or "?")
        rep.ob("default-unimplemented", s, n > 0 and not bad,
               f"{n} implementations of {trait_path.split('::')[-1]}: every one that overrides `{enabling}` also overrides `{method}`" if not bad else f"{bad} override `{enabling}` but inherit the unimplemented!() `{method}`", "libwild/src/platform.rs", todo[k][0])

    # ---- (C)
    E = P.edges()
    sub = {a: {x for x in bs if x.startswith(W)} for a, bs in E.items() if a.startswith(W)}
    comps = [c for c in sccs(sub) if len(c) > 1 or c[0] in sub.get(c[0], ())]
    n_cycles = 0
    for c in comps:
        names = sorted(stable(x) for x in c)
        if not any(n.startswith(NESTING_MODULES) for n in names):
            continue
        if all("setup_argument_parser" in n for n in names):
            continue  # closure registration, not recursion on input
        n_cycles += 1
        cset = set(c)
        guarded = None
        for k in c:
            b = F.body(k)
            if b is None:
                continue
            g = _budget_guard(P, b, cset)
            if g:
                guarded = (stable(k), g)
                break
        rep_name = min(n for n in names if "{closure" not in n) if any("{closure" not in n for n in names) else names[0]
        b0 = F.body(next(k for k in c if stable(k) == rep_name)) if any(stable(k) == rep_name for k in c) else None
        if guarded is None and rep_name in CYCLE_ALLOW:
            kind, reason = CYCLE_ALLOW[rep_name]
            ok, why = True, ""
            if kind == "visited":
                ok, why = _visited_guard(P, F, c)
            elif kind == "tree-walk":
                ok, why = _structural(P, F, c)
            rep.ob("recursion-budget", rep_name, ok, (f"cycle of {len(c)} bounded without a counter ({kind}): {reason}; verified: {why}" if ok else
                   f"cycle listed as `{kind}` but its structural condition no longer holds: {why}"), b0.file if b0 else None, b0.line if b0 else 0)
            continue
        rep.ob("recursion-budget", rep_name, guarded is not None,
               (f"cycle of {len(c)} ({', '.join(n.split('::')[-1] for n in names[:5])}…): bounded by `{guarded[1]}` in {guarded[0].split('::')[-1]}" if guarded else
                f"cycle of {len(c)} function(s) ({', '.join(n.split('::')[-1] for n in names[:6])}{'…' if len(names) > 6 else ''}) recurses on input nesting with no depth or budget test: a deeply nested input overflows the stack (abort, no diagnostic)"),
               b0.file if b0 else None, b0.line if b0 else 0)
    rep.floor("recursion-budget", "cycles in input-nesting modules", n_cycles, 5)
    # ---- (D) arithmetic panics on input values -------------------------------------------------------------------
    rep.rule("arith-panic", "in the linker-script expression evaluator and number parser no arithmetic on input values can panic: no raw signed `/`/`%` "
             "(i64::MIN / -1 panics in every profile), every division or remainder (operator or wrapping_/checked_ call) is dominated by the "
             "divisor != 0 edge, and every overflow-checked +,-,*,<<,>> has a listed reason")
    import decide
    ARITH_OK = {
        ("libwild::expression_eval::evaluate_expression", "overflow:Sub"): ("guard-nonzero", "`align - 1` after the `align == 0` bail"),
        ("libwild::expression_eval::line_number", "overflow:Add"): ("reason", "1 + number of newlines in a slice: bounded by the slice length"),
        ("libwild::linker_script::parse_number_with_suffix", "overflow:Mul"): ("const", "1024 * 1024: both operands are constants"),
    }
    n_arith = 0
    for b in F.all_bodies:
        sk = stable(b.key)
        if not (sk.startswith("libwild::expression_eval::") or sk.startswith("libwild::linker_script::parse_number")):
            continue
        cfg, flow = P.cfg(b), P.flow(b)
        for bi, blk in enumerate(b.blocks):
            if blk.get("cleanup") or bi not in cfg.reach:
                continue
            t = blk["t"]
            kind = None
            if t["k"] == "assert":
                d = t.get("desc") or ""
                if d in ("divzero", "remzero") or d.startswith("overflow"):
                    kind = d
            elif t["k"] == "call":
                ck = callee_key(t["f"]) or ""
                if re.search(r"::(wrapping_div|wrapping_rem|checked_div|checked_rem|div_euclid|rem_euclid|wrapping_div_euclid|wrapping_rem_euclid|overflowing_div|overflowing_rem)$", ck) and "::num::" in ck or re.search(r"^(core|std)::num::.*::(wrapping_div|wrapping_rem|div_euclid|rem_euclid)$", ck):
                    kind = "call:" + ck.split("::")[-1]
            if kind is None:
                continue
            n_arith += 1
            at = decide.atoms_at(P, F, b, bi)
            nonzero = any(a.startswith("bin:Eq(") and a.endswith(", 0)") and v is False for a, v in at) or any(a.startswith("bin:Ne(") and a.endswith(", 0)") and v is True for a, v in at)
            inst = f"{sk}:{kind}"
            if kind in ("overflow:Div", "overflow:Rem"):
                rep.ob("arith-panic", inst, False, "raw signed division/remainder on an input value: i64::MIN / -1 panics (`attempt to divide with overflow`) in every build profile; use wrapping_div/wrapping_rem", b.file, t["l"])
            elif kind in ("divzero", "remzero") or kind.startswith("call:"):
                rep.ob("arith-panic", inst, nonzero, "division is dominated by the divisor != 0 edge" if nonzero else "division by an input value with no dominating divisor != 0 test: a zero divisor panics", b.file, t["l"])
            else:
                row = ARITH_OK.get((sk, kind))
                ok = row is not None and (row[0] != "guard-nonzero" or nonzero)
                rep.ob("arith-panic", inst, ok, (f"allowed: {row[1]}" if ok else f"overflow-checked `{kind.split(':')[1]}` on an input value panics in builds with overflow checks (the dev profile the test suite uses); use the wrapping_ form"), b.file, t["l"])
    rep.floor("arith-panic", "arithmetic operations examined in the evaluator", n_arith, 4)
    # ---- (E) indexing of input text ---------------------------------------------------------------------------------------
    rep.rule("text-index", "in the modules that parse user-written text (glob_match, version_script, export_list, linker_script, expression_eval, args) every slice/str index "
             "expression is a row of the table with the reason it is in bounds; a new index (e.g. `s[pos + 1]` after a memchr) is reported")
    TEXT_MODULES = ("libwild::glob_match::", "libwild::version_script::", "libwild::export_list::", "libwild::linker_script::", "libwild::args::", "libwild::expression_eval::")
    INDEX_OK = {
        "libwild::args::elf::setup_argument_parser::{closure}": (6, "parts[0]/parts[1] after `parts.len() != 2` bails; `&s[2..]` after starts_with(\"0x\")"),
        "libwild::args::elf::setup_argument_parser::{closure}::{closure}": (1, "parts[1] inside the error-message closure of the same `parts.len() == 2` arm"),
        "libwild::args::ArgumentParser::handle_nested_argument": (3, "`..eq_pos`/`eq_pos + 1..` from str::find('=') (1-byte char); `&arg[1..]` after starts_with('-') && len() > 1"),
        "libwild::expression_eval::line_number": (1, "`..parsed_len` with parsed_len = len.saturating_sub(..) <= len"),
        "libwild::linker_script::parse_identifier_or_function::{closure}": (3, "s[0] in `.verify` of a take_while(1.., ..) match: at least one byte"),
        "libwild::linker_script::parse_function_arg::{closure}": (3, "s[0] in `.verify` of a take_while(1.., ..) match: at least one byte"),
    }
    found = {}
    lines = {}
    for b in F.all_bodies:
        sk = stable(b.key)
        if not sk.startswith(TEXT_MODULES):
            continue
        for blk in b.blocks:
            if blk.get("cleanup"):
                continue
            t = blk["t"]
            hit = False
            if t["k"] == "assert" and (t.get("desc") or "") == "bounds":
                hit = True
            elif t["k"] == "call":
                ck = callee_key(t["f"]) or ""
                fa = t["f"].get("fn_args") or ""
                if ck.endswith(("slice::index::index", "slice::index::index_mut", "str::traits::index")) or ("Index>::index" in ck and ("[u8]" in fa or "str" in fa)):
                    hit = True
            if hit:
                found[sk] = found.get(sk, 0) + 1
                lines.setdefault(sk, (b.file, t["l"]))
    for sk, n in sorted(found.items()):
        row = INDEX_OK.get(sk)
        ok = row is not None and n <= row[0]
        rep.ob("text-index", sk, ok, (f"{n} index expression(s), allowed: {row[1]}" if ok else
               f"{n} index expression(s) on input text" + (f" (table allows {row[0]}: {row[1]})" if row else " in a function that has no row") +
               ": an out-of-range index panics instead of producing a diagnostic"), lines[sk][0], lines[sk][1])
    rep.floor("text-index", "functions indexing input text", len(found), 4)
    rep.assume("index/slice panics and arithmetic overflow outside the expression evaluator are not decided; dependencies (object, winnow, glob) are trusted not to panic on malformed input")


def _budget_guard(P, body, cset):
    """A switch in `body` whose condition compares a value named/derived from a depth/budget/level parameter,
    and that lies on a path to a call into the cycle."""
    flow, cfg = P.flow(body), P.cfg(body)
    rec_blocks = []
    for bi, t in flow.calls():
        ks = P.callees_of_call(t)
        if ks & cset:
            rec_blocks.append(bi)
    if not rec_blocks:
        return None
    for sb in cfg.reach:
        t = body.blocks[sb]["t"]
        if t["k"] != "switch":
            continue
        k, payload, _bi, _fl = switch_chain(body, flow, sb)
        if k != "bin" or payload["op"] not in ("Lt", "Le", "Gt", "Ge", "Eq", "Ne"):
            continue
        tr = render(simplify(("bin", payload["op"], expr_tree(P, body, payload["a"], depth=5, expand_params=0), expr_tree(P, body, payload["b"], depth=5, expand_params=0))))
        if re.search(r"depth|budget|level|nest|remaining|fuel|limit", tr, re.I):
            r = cfg.reachable_from(sb)
            if any(rb in r for rb in rec_blocks):
                return tr
    return None


FS_CREATE = ("std::fs::hard_link", "std::fs::copy", "std::fs::create_dir", "std::fs::write", "std::os::unix::fs::symlink")


def _visited_guard(P, F, comp):
    """(a) some body of the cycle returns early on the true edge of Path::exists without recursing; (b) every call from the cycle into a
    body that re-enters it through *other files' contents* (here: handle_thin_archive) is dominated by a file-creation call, so that the
    re-entry finds the destination present."""
    cset = set(comp)
    exists_guard = False
    dominated = []
    for k in comp:
        b = F.body(k)
        if b is None:
            continue
        flow, cfg = P.flow(b), P.cfg(b)
        calls = list(flow.calls())
        if any((callee_key(t["f"]) or "") == "std::path::Path::exists" for _bi, t in calls):
            exists_guard = True
        creators = [bi for bi, t in calls if (callee_key(t["f"]) or "").startswith(FS_CREATE)]
        for bi, t in calls:
            ks = P.callees_of_call(t)
            tgt = [x for x in ks & cset if stable(x).endswith("handle_thin_archive")]
            if tgt and stable(k).endswith("copy_file"):
                dominated.append(any(cfg.dominates(cb, bi) for cb in creators))
    if not exists_guard:
        return False, "no Path::exists test in the cycle"
    if not dominated:
        return False, "no call from copy_file to handle_thin_archive found"
    if not all(dominated):
        return False, "handle_thin_archive is called before the archive itself has been created at the destination: an archive that lists itself recurses forever"
    return True, f"Path::exists early return present; {len(dominated)} call(s) to handle_thin_archive each dominated by a file-creation call"


def _structural(P, F, comp):
    """every recursive call passes, as its first argument, the payload of an enum variant (a strict sub-tree of the node being visited)."""
    cset = set(comp)
    n = 0
    for k in comp:
        b = F.body(k)
        if b is None:
            continue
        flow = P.flow(b)
        for bi, t in flow.calls():
            if not (P.callees_of_call(t) & cset):
                continue
            n += 1
            tr = render(expr_tree(P, b, t["args"][0], depth=8, expand_params=0))
            # e.g. `next(?)@Some.0@Group.0`: the payload of an enum variant of the element being visited
            if not re.search(r"@\w+\.\d+$", tr):
                return False, f"recursive call at line {t['l']} passes `{tr[:80]}`, which is not the payload of a variant of the visited node"
    return (n > 0), f"{n} recursive call(s), each on the payload of an enum variant of the visited node (strictly smaller tree)"
