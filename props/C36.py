"""C36 — stack and GNU property notes are merged as in GNU ld.

Merged values over input sets are not decided. Decided: the property-type -> merge-class tables of x86-64
and AArch64 against the gABI/psABI ranges; the merge step ANDs exactly under the And class and ORs
otherwise; an executable-stack request without -z execstack is an error and PF_X is added to
PT_GNU_STACK exactly under is_stack_segment && execstack."""
import fold
from mir import (bool_edge_blocks, callee_key, op_place, place_chain, stable, variant_blocks, switch_chain, switch_bool_labels)

EXPLANATION = ("constant folding of get_property_class match arms (range patterns with named constants evaluated by the "
               "compiler) vs an oracle of the GNU property ranges; enum-variant edge rule on the merge closure; bool-edge rules on "
               "validate_stack_section and on the PT_GNU_STACK flag writer")

# Linux Extensions to gABI (GNU_PROPERTY_UINT32_*), x86-64 psABI (GNU_PROPERTY_X86_UINT32_*), aaelf64
ORACLE_X86 = [
    ((0xb0000000, 0xb0007fff), "And", "GNU_PROPERTY_UINT32_AND_LO..HI"),
    ((0xb0008000, 0xb000ffff), "Or", "GNU_PROPERTY_UINT32_OR_LO..HI"),
    ((0xc0000002, 0xc0007fff), "And", "GNU_PROPERTY_X86_UINT32_AND_LO..HI"),
    ((0xc0008000, 0xc000ffff), "Or", "GNU_PROPERTY_X86_UINT32_OR_LO..HI"),
    ((0xc0010000, 0xc0017fff), "AndOr", "GNU_PROPERTY_X86_UINT32_OR_AND_LO..HI"),
]
ORACLE_A64 = [((0xc0000000, 0xc0000000), "And", "GNU_PROPERTY_AARCH64_FEATURE_1_AND")]


def run(ctx, rep):
    F = ctx.facts(); P = ctx.program()
    FD = fold.Folder(F)
    rep.rule("property-classes", "every oracle range is mapped, in full, to its class; no other range is classified")
    rep.rule("merge-op", "merge_gnu_property_notes: `&=` exactly on the PropertyClass::And edge, `|=` otherwise")
    rep.rule("execstack", "validate_stack_section errors exactly on is_executable() && !execstack; PF_X is OR-ed into PT_GNU_STACK exactly on is_stack_segment && execstack")
    for arch, oracle, sub in (("x86_64", ORACLE_X86, "elf_x86_64"), ("aarch64", ORACLE_A64, "elf_aarch64")):
        key = None
        for k in F.hir():
            if k.endswith("::get_property_class") and sub in k:
                key = k
        if key is None:
            rep.lost("property-classes", f"{arch} get_property_class")
            continue
        rows = fold.match_table(FD, key)
        got = []
        for r in rows:
            if r["wild"] and not r["consts"]:
                continue
            cls = r["value"]
            name = cls.args[0].name if isinstance(cls, fold.Enum) and cls.args else repr(cls)
            for c, _n in r["consts"]:
                if isinstance(c, tuple) and c and c[0] == "range":
                    got.append(((c[1], c[2] if c[3] else c[2] - 1), name, r["line"]))
                elif isinstance(c, int):
                    got.append(((c, c), name, r["line"]))
        hb = F.hir_body(key)
        for rng, cls, what in oracle:
            m = [g for g in got if g[0] == rng]
            rep.ob("property-classes", f"{arch}:{what}", len(m) == 1 and m[0][1] == cls,
                   f"{what} = [{rng[0]:#x}, {rng[1]:#x}] must merge as {cls}; wild: {[(hex(g[0][0]), hex(g[0][1]), g[1]) for g in m] or 'not classified'}", hb["file"], m[0][2] if m else hb["line"])
        extra = [g for g in got if g[0] not in [o[0] for o in oracle]]
        rep.ob("property-classes", f"{arch}:no-extra-ranges", not extra, f"ranges outside the oracle: {[(hex(g[0][0]), hex(g[0][1]), g[1]) for g in extra]}", hb["file"], hb["line"])

    # ---- merge op ------------------------------------------------------------------------------------
    cls_ = [b for b in F.all_bodies if b.key.startswith("libwild::elf::merge_gnu_property_notes::{closure")]
    found = False
    for c in cls_:
        cfg, flow = P.cfg(c), P.flow(c)
        and_blocks = variant_blocks(F, c, flow, cfg, "libwild::elf::PropertyClass", {"And"})
        other_blocks = variant_blocks(F, c, flow, cfg, "libwild::elf::PropertyClass", {"Or", "AndOr"})
        for bi, blk in enumerate(c.blocks):
            if blk.get("cleanup") or bi not in cfg.reach:
                continue
            for s in blk["s"]:
                if s["k"] == "assign" and s["rv"]["k"] == "bin" and s["rv"]["op"] in ("BitAnd", "BitOr") and s["p"][1]:
                    a = op_place(s["rv"]["a"])
                    if a and [a[0], a[1]] == [s["p"][0], s["p"][1]]:
                        found = True
                        if s["rv"]["op"] == "BitAnd":
                            rep.ob("merge-op", "and-under-And", bi in and_blocks, "`entry &= data` only for the And class", c.file, s["l"])
                        else:
                            rep.ob("merge-op", "or-otherwise", bi in other_blocks or bi not in and_blocks, "`entry |= data` for the Or / OrAnd classes", c.file, s["l"])
    if not found:
        rep.lost("merge-op", "&= / |= in merge_gnu_property_notes")

    # ---- execstack -------------------------------------------------------------------------------------
    vs = None
    for b in F.all_bodies:
        if b.key.endswith("::validate_stack_section") and "elf::Elf" in b.key:
            vs = b
    if vs is None:
        rep.lost("execstack", "Elf::validate_stack_section")
    else:
        cfg, flow = P.cfg(vs), P.flow(vs)
        tb, fb = bool_edge_blocks(vs, flow, cfg, lambda k: k is not None and k.endswith("is_executable"))
        errs = [bi for bi, t in flow.calls() if (callee_key(t["f"]) or "") == "libwild::error::Error::with_message"]
        # !execstack: switch on the field
        ex_false = set()
        ef = cfg.edge_facts()
        for sb in cfg.reach:
            k, pl, bi_, fl = switch_chain(vs, flow, sb)
            if k == "place" and ".execstack" in pl[1]:
                for lab, v in switch_bool_labels(vs, flow, cfg, sb).items():
                    if v is False:
                        ex_false.add((sb, lab))
        rep.ob("execstack", "error-under-executable", bool(errs) and all(e in tb for e in errs), "the error is raised only when the input's .note.GNU-stack is executable", vs.file, vs.line)
        rep.ob("execstack", "error-under-not-execstack", bool(ex_false) and all(ef.get(e, frozenset()) & ex_false for e in errs), "and only when -z execstack was not given", vs.file, vs.line)
    # writer
    n = 0
    for b in F.all_bodies:
        if not b.key.startswith("libwild::elf_writer::"):
            continue
        flow = P.flow(b)
        if not any(callee_key(t["f"]) and callee_key(t["f"]).endswith("is_stack_segment") for bi, t in flow.calls()):
            continue
        cfg = P.cfg(b)
        tb, fb = bool_edge_blocks(b, flow, cfg, lambda k: k is not None and k.endswith("is_stack_segment"))
        ex_true = set()
        ef = cfg.edge_facts()
        for sb in cfg.reach:
            k, pl, bi_, fl = switch_chain(b, flow, sb)
            if k == "place" and ".execstack" in pl[1]:
                for lab, v in switch_bool_labels(b, flow, cfg, sb).items():
                    if v is True:
                        ex_true.add((sb, lab))
        for bi, t in flow.calls():
            ck = callee_key(t["f"]) or ""
            if ck.endswith("BitOrAssign>::bitor_assign") or ck.endswith("::bitor_assign"):
                o = flow.origins(t["args"][1]) if len(t["args"]) > 1 else set()
                if any(x[0] == "const" and "EXECUTABLE" in str(x[2]) for x in o):
                    n += 1
                    rep.ob("execstack", "pf_x-under-stack-and-flag", bi in tb and bool(ef.get(bi, frozenset()) & ex_true),
                           "segment_flags |= pf::EXECUTABLE only for the stack segment and only with -z execstack", b.file, t["l"])
    rep.ob("execstack", "writer-site", n == 1, f"{n} site(s) OR PF_X into segment flags")
    # ---- merging: the fold operator per class and the emission condition ------------------------------------------------
    import decide as _d
    rep.rule("merge-fold", "when a property type is seen again its value is AND-ed on the PropertyClass::And edge and OR-ed otherwise")
    rep.rule("merge-emit", "a merged property is emitted iff (Or && value != 0) || (And && present in every input && value != 0) || (AndOr && present in every input) - GNU ld drops an AND property that any input lacks")
    cls_ = [b for b in F.all_bodies if "merge_gnu_property_notes" in b.key and b.d["kind"] == "Closure"]
    if not cls_:
        rep.lost("merge-fold", "closures of elf::merge_gnu_property_notes")
    n_fold = 0
    for c in cls_:
        for bi, blk in enumerate(c.blocks):
            for st in blk["s"]:
                if st["k"] == "assign" and st["rv"]["k"] == "bin" and st["rv"]["op"] in ("BitAnd", "BitOr") and "PropertyClass" in " ".join(c.locals):
                    at = _d.atoms_at(P, F, c, bi)
                    vs = [v for a, v in at if a.startswith("variant:PropertyClass")]
                    if not vs:
                        continue
                    n_fold += 1
                    names = set().union(*vs)
                    if st["rv"]["op"] == "BitAnd":
                        rep.ob("merge-fold", "and-on-And", names == {"And"}, f"`&=` is applied for classes {sorted(names)}", c.file, st["l"])
                    else:
                        rep.ob("merge-fold", "or-otherwise", "And" not in names and "Or" in names, f"`|=` is applied for classes {sorted(names)}", c.file, st["l"])
    rep.floor("merge-fold", "fold operators found", n_fold, 2)
    emit = None
    for c in cls_:
        tg = {bi for bi, blk in enumerate(c.blocks) for st in blk["s"] if st["k"] == "assign" and st["rv"]["k"] == "agg" and (st["rv"].get("adt") or "").endswith("GnuProperty")}
        if tg and "Option<libwild::elf::GnuProperty>" in c.locals[0]:
            emit = (c, tg)
    if emit is None:
        rep.lost("merge-emit", "the filter_map closure that builds the merged GnuProperty")
    else:
        c, tg = emit
        try:
            paths = _d.bool_paths(P, F, c, targets=tg)
            ok, why = _d.check_formula(paths, {"cls": "variant:", "nz": "bin:Ne(", "all": "Iterator::all("},
                                       lambda v: (v["cls"] == "Or" and v["nz"]) or (v["cls"] == "And" and v["all"] and v["nz"]) or (v["cls"] == "AndOr" and v["all"]))
            rep.ob("merge-emit", "truth-table", ok, f"{len(paths)} paths; {why}", c.file, c.line)
        except _d.NotLoopFree as e:
            rep.ob("merge-emit", "truth-table", False, str(e), c.file, c.line)
    _parse_records_all(ctx, rep)
    rep.assume("which inputs carry which notes is input data; merged values are not decided")


def _parse_records_all(ctx, rep):
    """The merge (AND / OR / OR_AND classes) needs to know, per input, which property *types are present* - a property whose value is 0 still counts as
    present (OR_AND: x86 ISA_1_USED / FEATURE_2_USED with no bits set keeps the property alive). The per-object parser must therefore record every
    4-byte property it reads, whatever its value."""
    import decide
    from mir import callee_key, place_chain
    F, P = ctx.facts(), ctx.program()
    rep.rule("parse-records-all", "process_gnu_note_section records every property entry with a 4-byte payload: the push into gnu_property_notes is guarded by the payload "
             "length test only, never by the property's value or type")
    bs = [b for b in F.all_bodies if b.key.endswith("::process_gnu_note_section") and b.d["kind"] != "Closure" and "libwild::elf::File" in b.key]
    if not bs:
        rep.lost("parse-records-all", "elf::File::process_gnu_note_section")
        return
    b = bs[0]
    flow, cfg = P.flow(b), P.cfg(b)
    full = decide.all_edge_atoms_full(P, F, b)
    ef = cfg.edge_facts()
    pushes = [(bi, t) for bi, t in flow.calls() if (callee_key(t["f"]) or "").endswith("Vec::push") and "gnu_property_notes" in place_chain(flow, t["args"][0])[0]]
    rep.floor("parse-records-all", "pushes into gnu_property_notes", len(pushes), 1)
    for n, (bi, t) in enumerate(pushes):
        guards = [full[e] for e in ef.get(bi, ()) if e in full]
        bins = [(a, v) for a, v in guards if str(a).startswith("bin:")]
        extra = [(a, v) for a, v in bins if not ("len(" in str(a) and str(a).rstrip(")").endswith(", 4"))]
        calls = [(a, v) for a, v in guards if str(a).startswith("call:") and not any(x in str(a) for x in ("is_empty", "is_some", "is_none", "is_ok", "is_err"))]
        ok = not extra and not calls and len(bins) >= 1
        rep.ob("parse-records-all", f"push#{n}", ok,
               f"guarded only by the payload-length test {[str(a) for a, _v in bins]}" if ok else
               f"the push is also guarded by {[str(a) for a, _v in extra + calls]}: an input whose property has that value/type looks like an input *without* the property, "
               "and an AND / OR_AND-class property is then dropped from the output although every input carries it", b.file, t["l"])
