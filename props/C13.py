"""C13 — instruction immediate fields are encoded exactly and locally.

Bit-provenance abstract interpretation of every arm of the AArch64 / RISC-V / LoongArch instruction
encoders (write_to_value) and decoders (read_value), against the instruction formats' immediate
fields: locality (only field bits change), independence (the new field content does not depend on the
old one), exactness (each value bit lands at its architectural position) and invertibility; plus
relocation-row consistency (bit range, instruction class, alignment) for AArch64."""
import os
import sys

sys.path.insert(0, os.path.join(os.path.dirname(os.path.dirname(os.path.abspath(__file__))), "oracles"))
import bitflow
import fold
import reloc_oracle
from bitflow import atoms, fmt_cell

EXPLANATION = ("abstract interpretation with per-bit provenance cells (constant / copy of value bit i / copy of old "
               "instruction bit j / unknown function of a bit set) over the HIR of the encoders and decoders, helper "
               "methods interpreted from their own bodies; table-vs-oracle comparison of the AArch64 relocation rows")

ENUMS = {
    "aarch64": ("linker_utils::elf::AArch64Instruction", "linker_utils::aarch64::write_to_value", "linker_utils::aarch64::read_value"),
    "riscv64": ("linker_utils::elf::RiscVInstruction", "linker_utils::riscv64::write_to_value", "linker_utils::riscv64::read_value"),
    "loongarch64": ("linker_utils::elf::LoongArch64Instruction", "linker_utils::loongarch64::write_to_value", "linker_utils::loongarch64::read_value"),
}


def in_fields(j, fields):
    return any(lo <= j < hi for lo, hi in fields)


def run(ctx, rep):
    F = ctx.facts()
    import insn_fields as O
    T, FD = reloc_oracle.load(F)
    rep.rule("locality", "after write_to_value every instruction bit outside the format's immediate field is exactly the old bit")
    rep.rule("independence", "no bit of the immediate field depends on the old instruction bits (the field is cleared, not OR-ed into)")
    rep.rule("exactness", "value bit i lands, unmodified, at its architectural position in the field (permutation arms)")
    rep.rule("inverse", "read_value(write_to_value(v)) returns bit i of v at position i for every value bit")
    rep.rule("row-consistency", "for each AArch64 relocation row: bit range, instruction class and alignment are those of the psABI")
    rep.rule("helpers", "or_from_slice / and_from_slice have the element-wise |= / &= shape the interpreter models")

    check_helpers(rep, F)

    # (instruction kind, width) pairs used by the relocation rows of each architecture
    TABLE_FNS = {"aarch64": "linker_utils::aarch64::relocation_type_from_raw", "riscv64": "linker_utils::riscv64::relocation_type_from_raw",
                 "loongarch64": "linker_utils::loongarch64::relocation_type_from_raw"}
    import tables
    t, OR, file = T["aarch64"]
    n_arms = 0
    for arch, (enum_path, wfn, rfn) in ENUMS.items():
        fields_tab = {"aarch64": O.AARCH64, "riscv64": O.RISCV, "loongarch64": O.LOONGARCH}[arch]
        nbytes_tab = {"aarch64": {}, "riscv64": O.RISCV_BYTES, "loongarch64": O.LOONGARCH_BYTES}[arch]
        adt = F.adt(enum_path)
        if adt is None:
            rep.lost("locality", enum_path)
            continue
        rows = tables.table(FD, TABLE_FNS[arch]) or []
        used = {}
        for r in rows:
            sz = r.get("size") or {}
            if "insn" in sz:
                used.setdefault(sz["insn"], set()).add(sz["end"] - sz["start"])
        hb = F.hir_body(wfn)
        wfile = hb["file"] if hb else None
        for v in adt["variants"]:
            var = v["name"]
            if var not in fields_tab:
                rep.count(f"{arch}-arms-without-oracle")
                rep.note(f"{arch}:{var}: no oracle field (not checked)")
                continue
            nbytes = nbytes_tab.get(var, 4)
            base_fields = fields_tab[var]
            base_fw = sum(hi - lo for lo, hi in base_fields)
            if arch == "riscv64":
                widths_here = [64]          # the RISC-V encoders mask the value themselves
            elif arch == "aarch64":
                widths_here = [min(max(used.get(var, {base_fw})), base_fw)]
            else:
                widths_here = sorted(used.get(var, {base_fw}))
            for n in widths_here:
                fields = base_fields
                if arch == "loongarch64":
                    fields = O.LOONGARCH_BY_WIDTH.get((var, n))
                    if fields is None:
                        rep.count("loongarch64-widths-without-oracle")
                        rep.note(f"loongarch64:{var}: width {n} has no oracle field (not checked)")
                        continue
                extra = O.AARCH64_EXTRA.get(var, ([], ""))[0] if arch == "aarch64" else (O.LOONGARCH_EXTRA.get((var, n), ([], ""))[0] if arch == "loongarch64" else [])
                for neg in ((False, True) if (arch == "aarch64" and var == "Movnz") else (False,)):
                    n_arms += 1
                    tag = f"{arch}:{var}" + (f":w{n}" if arch == "loongarch64" else "") + (":neg" if neg else "")
                    try:
                        cells = bitflow.encode(F, FD, enum_path, var, n, neg, nbytes=nbytes, fn=wfn)
                    except (fold.FoldError, Exception) as e:
                        rep.ob("locality", f"{tag}:interp", False, f"encoder arm could not be interpreted: {type(e).__name__}: {e}", wfile, hb["line"] if hb else None)
                        continue
                    # locality
                    bad = [j for j, c in enumerate(cells) if not in_fields(j, fields) and not in_fields(j, extra) and c != ("a", ("old", j))]
                    rep.ob("locality", tag, not bad,
                           f"bits outside the immediate field {fields} that the write can change: {bad[:12]}" if bad else f"only bits of {fields} change", wfile, hb["line"] if hb else None)
                    # independence
                    dep = [j for j, c in enumerate(cells) if in_fields(j, fields) and any(a[0] == "old" for a in atoms(c))]
                    rep.ob("independence", tag, not dep,
                           (f"field bits {dep[:14]} are OR-ed with the old field content: a relocated instruction whose field is not zero in the input gets the OR of both values" if dep
                            else "the field's new content is a function of the value only"), wfile, hb["line"] if hb else None)
                    # exactness for permutation arms
                    if arch == "aarch64":
                        layout = O.AARCH64_LAYOUT.get(var) or (lambda i, lo=fields[0][0]: lo + i)
                        wrong = []
                        for i in range(n):
                            c = cells[layout(i)]
                            exp = ("n" if neg else "a", ("v", i))
                            if c != exp and not (any(a[0] == "old" for a in atoms(c)) and ("v", i) in atoms(c)):
                                wrong.append((i, layout(i), fmt_cell(c)))
                        rep.ob("exactness", tag, not wrong, f"value bit -> word bit mismatches: {wrong[:6]}" if wrong else f"{n} value bits at their architectural positions", wfile, hb["line"] if hb else None)
                    else:
                        unset = [j for j, c in enumerate(cells) if in_fields(j, fields) and c == ("c", 0)]
                        rep.ob("exactness", tag, not unset, f"field bits never written: {unset}" if unset else "every field bit receives value bits", wfile, hb["line"] if hb else None)
                    # inverse (only arms whose encoding is a permutation)
                    if all(c[0] in ("a", "n", "c") for j, c in enumerate(cells) if in_fields(j, fields)):
                        try:
                            word = [c if in_fields(j, fields) or in_fields(j, extra) else ("c", 0) for j, c in enumerate(cells)]
                            res = bitflow.decode(F, FD, enum_path, var, word, fn=rfn)
                            val = res[0] if isinstance(res, tuple) else res
                            present = sorted({a[1] for c in cells for a in atoms(c) if a[0] == "v"})
                            wrong = [i for i in present if i < val.w and val.cells[i] != ("a", ("v", i))]
                            rep.ob("inverse", tag, not wrong, f"decode(encode(v)) differs at value bits {wrong[:8]}" if wrong else f"{len(present)} value bits round-trip", wfile, None)
                        except (fold.FoldError, Exception) as e:
                            rep.note(f"inverse {tag}: not decided ({type(e).__name__}: {e})")
                            rep.count("inverse-not-decided")
                    else:
                        rep.count("inverse-not-decided")
    rep.floor("locality", "encoder arms interpreted", n_arms, 20)

    # ---- row consistency --------------------------------------------------------------------------------
    if t is None:
        rep.lost("row-consistency", reloc_oracle.FNS["aarch64"])
    else:
        for r in t:
            o = OR.get(r["name"])
            if o is None or "error" in r:
                continue
            for attr, ok, detail in reloc_oracle.attr_mismatches("aarch64", r, o):
                if attr in ("bits", "insn", "align"):
                    rep.ob("row-consistency", f"{r['name']}:{attr}", ok, detail, file, r["line"])
            sz = r.get("size") or {}
            if "insn" in sz and sz["insn"] in O.AARCH64:
                fw = sum(hi - lo for lo, hi in O.AARCH64[sz["insn"]])
                rep.ob("row-consistency", f"{r['name']}:fits", sz["end"] - sz["start"] <= fw,
                       f"{sz['end'] - sz['start']} value bits into a {fw}-bit field of {sz['insn']}", file, r["line"])


def check_helpers(rep, F):
    import fold as fd
    for name, op in (("linker_utils::utils::or_from_slice", "|="), ("linker_utils::utils::and_from_slice", "&=")):
        b = F.hir_body(name)
        if b is None:
            rep.lost("helpers", name)
            continue
        ops = [x for x in fd.walk(b["body"]) if x.get("e") == "assignop"]
        ok = len(ops) == 1 and ops[0]["op"] in (op, op.rstrip("=")) and ops[0]["a"]["e"] == "index"
        rep.ob("helpers", name.split("::")[-1], ok, f"body is `dest[i] {op} *v` over the mask bytes (found {[o['op'] for o in ops]})", b["file"], b["line"])
