"""C07 — string merging preserves every referenced string.

Byte equality at every relocated pointer and the split-across-group logic are not decided. Decided:
the addend is applied exactly once (to the input offset for section symbols, to the output address for
named symbols, on complementary edges of one predicate); the mid-string fallback of find_string adds
back the same distance it searched backwards; a string is appended to a bucket exactly when it is new
and its recorded offset is the pre-bump value; a taken string includes its NUL terminator and a
missing terminator is an error."""
import fold
import hirq
from mir import (bool_edges_of, callee_key, op_place, stable, switch_chain, switch_bool_labels)

EXPLANATION = ("guarded-effect rule over the MIR of get_merged_string_output_address (two addend applications on complementary "
               "edges of has_name), HIR skeleton rules on find_string's fallback loop, on the or_insert_with closure of add_string "
               "and on take_string_hashed")

SM = "libwild::string_merging::"


def run(ctx, rep):
    F = ctx.facts(); P = ctx.program()
    rep.rule("addend-once", "the addend reaches the result through exactly one wrapping_add on every path: on the !has_name edge added to the input offset before lookup, on the has_name edge added to the output address after lookup")
    rep.rule("lookup-both-tables", "every lookup of a string start in find_string consults the primary OffsetMap and, on a miss, the overflow table under the same "
             "key (a block holds a bounded number of starts; the rest spill to overflowed_string_offsets)")
    rep.rule("same-part", "the per-section closures that size (finalise_sizes), place (finalise_layout), write (write_merged_strings) and address "
             "(MergedStringStartAddresses::compute) a merged-string section all index the part map with <the closure's own section id>.part_id_with_alignment(MIN): "
             "the strings are addressed in the part they were allocated and written in (sibling agreement)")
    rep.rule("fallback-distance", "find_string's backward search looks up `input_offset - i` and returns `found + i` for the same i")
    rep.rule("append-iff-new", "add_string pushes the string and bumps next_offset only inside the or_insert_with closure, and the closure yields the pre-bump offset")
    rep.rule("terminator", "take_string_hashed takes memchr(0)+1 bytes (terminator included) and fails when no terminator exists")

    g = F.body(SM + "get_merged_string_output_address")
    if g is None:
        rep.lost("addend-once", SM + "get_merged_string_output_address")
    else:
        cfg, flow = P.cfg(g), P.flow(g)
        adds = []
        for bi, t in flow.calls():
            ck = callee_key(t["f"]) or ""
            if ck.endswith("wrapping_add") and len(t["args"]) == 2:
                o = flow.origins(t["args"][1])
                if ("param", 2) in o:
                    adds.append((bi, t))
        rep.ob("addend-once", "two-sites", len(adds) == 2, f"{len(adds)} wrapping_add(.., addend) site(s)", g.file, g.line)
        te, fe = bool_edges_of(g, flow, cfg, lambda k: k is not None and k.endswith("::has_name"))
        # the switches may be on a copy of the bool local: include switches whose chain ends at the has_name call
        ef = cfg.edge_facts()
        on_true = [bi for bi, t in adds if ef.get(bi, frozenset()) & te]
        on_false = [bi for bi, t in adds if ef.get(bi, frozenset()) & fe]
        rep.ob("addend-once", "one-per-edge", len(on_true) == 1 and len(on_false) == 1 and set(on_true) != set(on_false),
               f"one application under has_name (x{len(on_true)}) and one under !has_name (x{len(on_false)}): applying it on both or neither shifts every reference into a merged section", g.file, g.line)
        # which value each adds to
        for bi, t in adds:
            o0 = flow.origin_calls(t["args"][0])
            if bi in on_false:
                rep.ob("addend-once", "section-symbol:before-lookup", any(c.endswith("::value") for c in o0) and not any(c.endswith("find_string") for c in o0),
                       "for a section symbol the addend is added to the symbol's input offset (before find_string)", g.file, t["l"])
            if bi in on_true:
                fs = [x for x in flow.origins(t["args"][0]) if x[0] == "call" and (x[1] or "").endswith(("find_string", "offset_in_bucket"))]
                rep.ob("addend-once", "named-symbol:after-lookup", bool(fs), "for a named symbol the addend is added to the output address (after find_string)", g.file, t["l"])
        # find_string receives the adjusted input offset
        for bi, t in flow.calls():
            if callee_key(t["f"]) == SM + "find_string":
                o = flow.origin_calls(t["args"][1])
                rep.ob("addend-once", "lookup-uses-offset", any(c.endswith("::value") for c in o), "find_string is given the symbol value (+addend for section symbols)", g.file, t["l"])

    _lookup_both_tables(rep, P, F)
    _same_part(rep, P, F)
    _fallback_distance(rep, P, F)

    a = F.hir_body(SM + "MergeStringsSectionBucket::add_string")
    if a is None:
        rep.lost("append-iff-new", "add_string")
    else:
        clos = [x for x in fold.walk(a["body"]) if x.get("e") == "closure"]
        ins = [n for d, n in hirq.calls(a["body"], lambda d: d and d.endswith("or_insert_with"))]
        rep.ob("append-iff-new", "uses-or_insert_with", len(ins) == 1 and len(clos) == 1, "the offset comes from string_offsets.entry(string).or_insert_with(closure)", a["file"], a["line"])
        if clos:
            csk = hirq.skeleton(clos[0]["body"], lambda n: None).replace("local:", "")
            rep.ob("append-iff-new", "closure-appends", "self.strings.push(" in csk and "next_offset" in csk, f"closure: {csk[:160]}", a["file"], a["line"])
            rep.ob("append-iff-new", "pre-bump-offset", csk.startswith("{let offset = self.next_offset;") and csk.rstrip("}").rstrip().endswith("offset"), "the recorded offset is read before next_offset is advanced", a["file"], a["line"])
            # no push outside the closure
            outside = hirq.skeleton(a["body"], lambda n: "CLOSURE" if n.get("e") == "closure" else None)
            rep.ob("append-iff-new", "no-append-outside", ".push(" not in outside, "strings are appended only when the entry is vacant", a["file"], a["line"])
            rep.ob("append-iff-new", "advances-by-length", "self.next_offset" in csk and "string.bytes.len()" in csk, "next_offset advances by the string's length (terminator included)", a["file"], a["line"])

    t = F.hir_body(SM + "MergeString::take_string_hashed")
    if t is None:
        rep.lost("terminator", "take_string_hashed")
    else:
        sk = hirq.skeleton(t["body"], lambda n: None).replace("local:", "")
        rep.ob("terminator", "includes-nul", "memchr(lit:0, source).map(|i| (i + lit:1))" in sk, f"length = memchr(0)+1: {sk[:140]}", t["file"], t["line"])
        rep.ob("terminator", "missing-is-error", ".context(" in sk, "no terminator -> error (context on None)", t["file"], t["line"])
    # ---- a string that starts exactly on a work-group boundary belongs to the group that starts there ------------------------
    # Merge input is cut into groups at fixed byte offsets. A group whose range starts inside a section must start at the first string
    # that *begins* in its range: if the byte before the range start is NUL the range start is itself a string start and must be kept;
    # only otherwise may it skip to after the next NUL (the straddling string belongs to the previous group). Skipping unconditionally
    # loses the string that begins exactly on the boundary: neither group emits it and references to it read unrelated bytes.
    rep.rule("boundary-string", "in process_input_section the skip to the next NUL (memchr) is taken only on the `byte before the range start != 0` edge; the index tested is range start - 1")
    import decide as _d
    from mir import callee_key as _ck
    pis = F.body("libwild::string_merging::process_input_section")
    if pis is None:
        rep.lost("boundary-string", "string_merging::process_input_section")
    else:
        flow_, cfg_ = P.flow(pis), P.cfg(pis)
        full = _d.all_edge_atoms_full(P, F, pis)
        ef = cfg_.edge_facts()
        skips = [(bi, t) for bi, t in flow_.calls() if (_ck(t["f"]) or "").startswith("memchr::memchr")]
        rep.ob("boundary-string", "skip-site", len(skips) >= 1, f"{len(skips)} memchr call(s) in process_input_section", pis.file, pis.line)
        for bi, t in skips:
            facts_ = [full[e] for e in ef.get(bi, frozenset()) if e in full]
            guarded = [a for a, v in facts_ if a.startswith("bin:Eq(") and a.endswith(", 0)") and "remaining" in a and v is False] + \
                      [a for a, v in facts_ if a.startswith("bin:Ne(") and a.endswith(", 0)") and "remaining" in a and v is True]
            rep.ob("boundary-string", "skip-guarded", bool(guarded),
                   (f"the skip is taken only when {guarded[0][4:]} is false (previous byte is not NUL)" if guarded else
                    "the skip past the next NUL is unconditional: a string beginning exactly at the group boundary is dropped by both groups"), pis.file, t["l"])
        # the tested byte is remaining[start - 1]
        idx_ok = False
        for blk in pis.blocks:
            for st in blk["s"]:
                if st["k"] == "assign" and st["rv"]["k"] == "use" and st["rv"]["a"][0] in ("c", "m"):
                    pl = st["rv"]["a"][1]
                    for pr_ in pl[1]:
                        if pr_.startswith("[_"):
                            il = int(pr_[2:-1])
                            cur, hops = il, 0
                            while hops < 4:
                                hops += 1
                                ds = flow_.defs.get(cur, [])
                                if len(ds) != 1 or ds[0][1] == "call":
                                    break
                                rv_ = ds[0][3]
                                if rv_["k"] == "bin" and rv_["op"].startswith("Sub"):
                                    from mir import op_const as _oc
                                    c_ = _oc(rv_["b"])
                                    if c_ and c_.get("val") == 1 and pis.locals[st["p"][0]].strip() == "u8":
                                        idx_ok = True
                                    break
                                if rv_["k"] in ("use", "cast") and rv_["a"][0] in ("c", "m"):
                                    cur = rv_["a"][1][0]
                                    continue
                                break
        rep.ob("boundary-string", "index-is-start-minus-1", idx_ok, "a byte is read at an index computed as <range start in section> - 1", pis.file, pis.line)
    rep.assume("equality of output bytes with input bytes at every reference is a run-time matter")


def _lookup_units(P, F):
    """[(unit body, flow)] for find_string and its closures (a helper closure `lookup = |k| primary.get(k).or_else(..)` is a unit of its own)."""
    root = F.body(SM + "find_string")
    if root is None:
        return None, []
    units = [root]
    todo = [root.key]
    while todo:
        k = todo.pop()
        for c in F.closures_of(k):
            units.append(c)
            todo.append(c.key)
    return root, units


def _lookup_closures(P, units):
    """keys of closures that perform a primary lookup (calls of them count as lookups in their caller)"""
    return {u.key for u in units if "{closure" in u.key and any((callee_key(t["f"]) or "").endswith("OffsetMap::get") for _bi, t in P.flow(u).calls())}


def _lookup_both_tables(rep, P, F):
    from mir import place_chain
    root, units = _lookup_units(P, F)
    if root is None:
        rep.lost("lookup-both-tables", SM + "find_string")
        return
    lcl = _lookup_closures(P, units)
    rflow = P.flow(root)
    n_events = sum(1 for _bi, t in rflow.calls() if (callee_key(t["f"]) or "").endswith("OffsetMap::get") or (callee_key(t["f"]) or "") in lcl)
    rep.floor("lookup-both-tables", "lookups in find_string (exact offset, backward search)", n_events, 2)
    n = 0
    for b in units:
        flow = P.flow(b)
        closures = {c.key: c for c in F.closures_of(b.key)}
        for bi, t in flow.calls():
            if not (callee_key(t["f"]) or "").endswith("OffsetMap::get"):
                continue
            # what the key derives from: an Add impl call (in the root) or the unit's own parameter (helper closure)
            key_src = {x for x in flow.deep_origins(t["args"][-1]) if (x[0] == "call" and (x[1] or "").endswith("::add")) or (x[0] == "param" and x[1] >= 2)}
            ok, why = False, "the result of the primary lookup is used without an or_else fallback"
            for bj, tt in flow.calls():
                if not (callee_key(tt["f"]) or "").endswith("Option::or_else") or not tt["args"]:
                    continue
                if not any(x[0] == "call" and x[2] == bi for x in flow.origins(tt["args"][0])):
                    continue
                ck = None
                for x in flow.origins(tt["args"][1]):
                    if x[0] == "agg" and str(x[1]) in closures:
                        ck = closures[str(x[1])]
                cap_src = {x for x in flow.deep_origins(tt["args"][1]) if (x[0] == "call" and (x[1] or "").endswith("::add")) or (x[0] == "param" and x[1] >= 2)}
                if ck is None:
                    why = "or_else fallback is not a closure defined here"
                    continue
                f2 = P.flow(ck)
                over = any((callee_key(t3["f"]) or "").endswith("HashMap::get") and "overflowed_string_offsets" in place_chain(f2, t3["args"][0])[0] for _bk, t3 in f2.calls())
                same_key = bool(key_src) and key_src <= cap_src
                ok = over and same_key
                why = ("falls back to overflowed_string_offsets under the same key" if ok else
                       f"fallback closure consults overflow table: {over}; same key as the primary lookup: {same_key}")
            if not ok:
                for bk, t3 in flow.calls():
                    if (callee_key(t3["f"]) or "").endswith("HashMap::get") and "overflowed_string_offsets" in place_chain(flow, t3["args"][0])[0]:
                        k2 = {x for x in flow.deep_origins(t3["args"][-1]) if (x[0] == "call" and (x[1] or "").endswith("::add")) or (x[0] == "param" and x[1] >= 2)}
                        if key_src and key_src <= k2:
                            ok, why = True, "falls back to overflowed_string_offsets under the same key (in the body)"
            rep.ob("lookup-both-tables", f"lookup#{n}", ok,
                   why if ok else why + " - a string whose start spilled to the overflow table is not found; the backward search then attributes the reference to an earlier string "
                   "and the pointer lands on unrelated bytes", b.file, t["l"])
            n += 1
    if n == 1 and n_events >= 2:
        rep.note("find_string performs its lookups through one helper closure, called for the exact offset and in the backward search")


def _fallback_distance(rep, P, F):
    """Structural (MIR) form: no dependence on the names of locals."""
    b = F.body(SM + "find_string")
    if b is None:
        rep.lost("fallback-distance", SM + "find_string")
        return
    flow = P.flow(b)
    _root, _units = _lookup_units(P, F)
    lcl = _lookup_closures(P, _units)

    def is_lookup(k):
        return (k or "").endswith("OffsetMap::get") or (k or "") in lcl
    nexts = [bi for bi, t in flow.calls() if (callee_key(t["f"]) or "").endswith("::next")]
    if len(nexts) != 1:
        rep.lost("fallback-distance", f"search loop in find_string ({len(nexts)} iterator steps)")
        return
    nx = nexts[0]
    # input_offset - i : a Sub whose left operand is a u64 parameter and whose right operand is the loop variable
    subs = []
    for bi, blk in enumerate(b.blocks):
        if blk.get("cleanup"):
            continue
        for st in blk["s"]:
            if st["k"] == "assign" and st["rv"]["k"] == "bin" and st["rv"]["op"] in ("Sub", "SubWithOverflow", "SubUnchecked"):
                la, lb = flow.origins(st["rv"]["a"]), flow.origins(st["rv"]["b"])
                if any(x[0] == "param" and b.locals[x[1]].strip() == "u64" for x in la) and any(x[0] == "call" and x[2] == nx for x in lb):
                    subs.append((bi, st))
    rep.ob("fallback-distance", "searches-backwards", len(subs) >= 1, "the loop computes <u64 parameter> - <loop variable> (the offset i bytes before the reference)", b.file, subs[0][1]["l"] if subs else b.line)
    keyed = False
    sub_blocks = {bi for bi, _st in subs}
    for bi, t in flow.calls():
        if is_lookup(callee_key(t["f"])):
            # key = (start + (offset - i)).0 : the Add impl call whose argument is the Sub above
            for x in flow.origins(t["args"][-1]):
                if x[0] == "call" and (x[1] or "").endswith("::add"):
                    for a in b.blocks[x[2]]["t"]["args"]:
                        oo = flow.origins(a)
                        if any(y[0] == "op" and y[1].startswith("Sub") and y[2] in sub_blocks for y in oo):
                            keyed = True
                if x[0] == "op" and x[1].startswith("Sub") and x[2] in sub_blocks:
                    keyed = True
    rep.ob("fallback-distance", "lookup-uses-difference", keyed, "the backward lookup is keyed by that difference (plus the section's start offset)", b.file, b.line)
    # the result: BucketOffset(found.0 + i)
    res_ok = False
    line = b.line
    for bi, blk in enumerate(b.blocks):
        if blk.get("cleanup"):
            continue
        for st in blk["s"]:
            if st["k"] == "assign" and st["rv"]["k"] == "agg" and str(st["rv"].get("adt") or "").endswith("BucketOffset") and st["rv"]["ops"]:
                o = flow.origins(st["rv"]["ops"][0])
                has_i = any(x[0] == "call" and x[2] == nx for x in o)
                has_add = any(x[0] == "op" and x[1].startswith("Add") for x in o)
                has_sub = any(x[0] == "op" and (x[1].startswith("Sub") or x[1].startswith("Mul") or x[1].startswith("Sh")) for x in o)
                consts = [x for x in o if x[0] == "const"]
                from_lookup = any(x[0] == "call" and (is_lookup(x[1]) or (x[1] or "").endswith("Option::or_else")) for x in o)
                has_sub = has_sub or bool(consts)
                if has_i and has_add and from_lookup and not has_sub:
                    res_ok = True
                    line = st.get("l")
    rep.ob("fallback-distance", "adds-same-distance", res_ok, "the result is BucketOffset(found string's offset + the same loop variable): the reference keeps pointing i bytes into the string", b.file, line)


def _same_part(rep, P, F):
    from mir import op_const
    n = 0
    for b in F.all_bodies:
        if not b.key.startswith(("libwild::", "<libwild::")) or b.d["kind"] != "Closure":
            continue
        if not any("MergedStrings" in ty or "MergeString" in ty for ty in b.locals):
            continue
        flow = None
        for bi, blk in enumerate(b.blocks):
            t = blk["t"]
            if blk.get("cleanup") or t["k"] != "call" or not (callee_key(t["f"]) or "").endswith("OutputSectionId::part_id_with_alignment") or len(t["args"]) != 2:
                continue
            if not str((op_const(t["args"][1]) or {}).get("def")).endswith("alignment::MIN"):
                continue
            flow = flow or P.flow(b)
            o = flow.origins(t["args"][0])
            n += 1
            own = bool(o) and all(x[0] == "param" for x in o)
            who = b.key.split("::{closure")[0].split("::")[-1]
            rep.ob("same-part", f"{who}#{n}", own,
                   f"{who}: part of the section id the closure was called with" if own else
                   f"{who}: the part is taken from a section id derived through {sorted((x[1] or '').split('::')[-1] for x in o if x[0] == 'call')}, not from the section being processed: "
                   "for a linker-script output section with several patterns (secondary sections) the strings are allocated and written in one part and addressed in another", b.file, t["l"])
    rep.floor("same-part", "per-section closures indexing the MIN-aligned part of a merged-string section", n, 4)
