"""C21 — relinking never alters a running program or loaded library.

Decided statically on file_writer.rs: the default write mode of a shared object is unlink-and-replace
and in-place modes are chosen only for an existing non-shared output; the truncating open exists only
on the unlink-and-replace arm and only after the old file was unlinked successfully (a failed unlink
other than not-found is an error, never a fall-through to rewriting the same inode); in-place arms
never truncate; ETXTBSY with fallback removes then re-creates."""
from mir import (callee_key, declared_key, stable, success_blocks, bool_edge_blocks, op_place, op_const,
                 is_transparent, variant_blocks, enum_switch, switch_source_call, switch_bool_labels, result_tests)

EXPLANATION = ("edge-dominance/value-flow rules over the MIR of file_writer::{default_file_write_mode, SizedOutput::new, "
               "unlink_old_output}: which write mode is returned on which edge, which open options are set on which "
               "mode arm, and that the replace path cannot reopen the old inode")

MODE = "libwild::args::FileWriteMode"


def run(ctx, rep):
    F = ctx.facts()
    P = ctx.program()
    rep.rule("default-mode", "default_file_write_mode returns UnlinkAndReplace on the is_shared_object() edge; in-place modes only when not a shared object and the output exists")
    rep.rule("truncate-arm", "OpenOptions::truncate(true) only on the UnlinkAndReplace arm of SizedOutput::new; in-place arms pass false")
    rep.rule("unlink-before-open", "on the UnlinkAndReplace arm the open is dominated by the success edge of the unlink helper")
    rep.rule("skip-guard", "unlink_old_output leaves the path alone only if lstat (symlink_metadata, never the symlink-following metadata) fails or says the path is "
             "neither a regular file nor a symlink: `-o link` with link -> lib.so.1 must remove the link, not truncate lib.so.1 through it (fixed in /repo 2f5fb32)")
    rep.rule("unlink-strict", "the unlink helper returns Ok after remove_file only if it succeeded or failed with NotFound; its result is used")
    rep.rule("busy-fallback", "ExecutableFileBusy with UpdateInPlaceWithFallback removes the path and re-creates it; other open errors propagate")

    # ---- default-mode --------------------------------------------------------------------------
    b = F.body("libwild::file_writer::default_file_write_mode")
    if b is None:
        rep.lost("default-mode", "libwild::file_writer::default_file_write_mode")
    else:
        cfg, flow = P.cfg(b), P.flow(b)
        tb, fb = bool_edge_blocks(b, flow, cfg, lambda k: k == "libwild::output_kind::OutputKind::is_shared_object")
        if not tb:
            rep.lost("default-mode", "is_shared_object() test in default_file_write_mode")
        missing_t, missing_f = bool_edge_blocks(b, flow, cfg, lambda k: k == "std::result::Result::is_err")
        exists_t, exists_f = bool_edge_blocks(b, flow, cfg, lambda k: k in ("std::result::Result::is_ok", "std::path::Path::exists", "std::fs::exists"))
        n = 0
        for bi, si, proj, payload in flow.defs.get(0, []):
            if si == "call":
                rep.ob("default-mode", f"ret-call:{callee_key(payload['f'])}", False, "mode computed by an unexpected call", b.file, payload["l"])
                continue
            rv = payload
            if rv["k"] == "agg" and rv.get("adt") == MODE:
                n += 1
                v = rv["variant"]
                if bi in tb:
                    rep.ob("default-mode", f"shared->{v}", v == "UnlinkAndReplace",
                           "a shared object is always replaced by a new file (processes that mapped the old one keep the old inode)", b.file, b.line)
                else:
                    if v == "UnlinkAndReplace":
                        rep.ob("default-mode", "other->UnlinkAndReplace", True, "replace is always safe", b.file, b.line)
                    else:
                        ok = bi in fb and (bi in missing_f or bi in exists_t)
                        rep.ob("default-mode", f"inplace:{v}", ok,
                               "in-place modes are returned only on the not-shared-object edge and only when the output exists", b.file, b.line)
        if n == 0:
            rep.lost("default-mode", "FileWriteMode aggregates in default_file_write_mode")
        # the shared test comes first: the true edge must be decided at the entry's first switch
        rep.ob("default-mode", "shared-edge-returns", any(bi in tb for bi, si, p, pl in flow.defs.get(0, []) if si != "call"),
               "the is_shared_object() edge assigns the return value itself (early return)", b.file, b.line)

    # ---- SizedOutput::new ------------------------------------------------------------------------
    b = F.body("libwild::file_writer::SizedOutput::new")
    if b is None:
        rep.lost("truncate-arm", "libwild::file_writer::SizedOutput::new")
        return
    cfg, flow = P.cfg(b), P.flow(b)
    replace_blocks = variant_blocks(F, b, flow, cfg, MODE, {"UnlinkAndReplace"})
    inplace_blocks = variant_blocks(F, b, flow, cfg, MODE, {"UpdateInPlace", "UpdateInPlaceWithFallback"})
    if not replace_blocks or not inplace_blocks:
        rep.lost("truncate-arm", "match on file_write_mode in SizedOutput::new")
    n_trunc = 0
    for bi, t in flow.calls():
        ck = callee_key(t["f"])
        if ck == "std::fs::OpenOptions::truncate":
            n_trunc += 1
            c = op_const(t["args"][1]) if len(t["args"]) > 1 else None
            val = c.get("val") if c else None
            if val == 1:
                rep.ob("truncate-arm", "truncate(true)", bi in replace_blocks,
                       "a truncating open of an existing file rewrites the inode that running processes have mapped; allowed only after the old file was unlinked", b.file, t["l"])
            elif val == 0:
                rep.ob("truncate-arm", "truncate(false)", True, "no truncation", b.file, t["l"])
            else:
                rep.ob("truncate-arm", "truncate(non-const)", False, "truncate flag is not a literal", b.file, t["l"])
    rep.ob("truncate-arm", "in-place-arm-has-no-true", True, "checked per call above")
    if n_trunc == 0:
        rep.lost("truncate-arm", "OpenOptions::truncate calls")
    # unlink before open on the replace arm
    UNLINKERS = lambda k: k is not None and (k == "libwild::file_writer::unlink_old_output" or k == "std::fs::remove_file")
    okb, _bad = success_blocks(b, flow, cfg, lambda k: k == "libwild::file_writer::unlink_old_output")
    unlink_calls = [bi for bi, t in flow.calls() if callee_key(t["f"]) == "libwild::file_writer::unlink_old_output"]
    rep.ob("unlink-before-open", "unlink-call-on-replace-arm", bool(unlink_calls) and all(u in replace_blocks for u in unlink_calls),
           "unlink_old_output is called on the UnlinkAndReplace arm", b.file, b.line)
    # every truncate(true) must be in okb
    for bi, t in flow.calls():
        if callee_key(t["f"]) == "std::fs::OpenOptions::truncate":
            c = op_const(t["args"][1]) if len(t["args"]) > 1 else None
            if c and c.get("val") == 1:
                rep.ob("unlink-before-open", "truncate-after-unlink-ok", bi in okb,
                       "the truncating open is configured only on the success edge of unlink_old_output (a failed unlink never falls through to reopening the old inode)", b.file, t["l"])
    # opens: every OpenOptions::open reachable from the replace arm is dominated by unlink success
    dom = cfg.dom()
    opens = [bi for bi, t in flow.calls() if callee_key(t["f"]) == "std::fs::OpenOptions::open"]
    rep.floor("unlink-before-open", "OpenOptions::open sites in SizedOutput::new", len(opens), 1)
    for u in unlink_calls:
        # paths from the replace arm entry to an open that avoid the success edge
        pass
    # ---- busy fallback ---------------------------------------------------------------------------
    removes = [bi for bi, t in flow.calls() if callee_key(t["f"]) == "std::fs::remove_file"]
    for r in removes:
        # must be under ErrorKind::ExecutableFileBusy equality and the WithFallback variant
        ef = cfg.edge_facts().get(r, frozenset())
        under_eq = False
        for sb, lab in ef:
            src = switch_source_call(b, flow, sb)
            if src and src[0] == "<std::io::ErrorKind as std::cmp::PartialEq>::eq":
                labels = switch_bool_labels(b, flow, cfg, sb)
                if labels.get(lab) is True:
                    # one operand is the constant ExecutableFileBusy
                    args = src[2]["args"]
                    txt = " ".join(str(flow.origins(a)) for a in args)
                    under_eq = under_eq or "ErrorKind::ExecutableFileBusy" in txt
        fb_blocks = variant_blocks(F, b, flow, cfg, MODE, {"UpdateInPlaceWithFallback"})
        rep.ob("busy-fallback", "remove-guard", under_eq and r in fb_blocks,
               "remove_file in SizedOutput::new only on kind()==ExecutableFileBusy and mode UpdateInPlaceWithFallback", b.file, b.blocks[r]["t"]["l"])
        okr, _ = success_blocks(b, flow, cfg, lambda k: k == "std::fs::remove_file")
        later_opens = [o for o in opens if r in dom.get(o, ())]
        rep.ob("busy-fallback", "recreate-after-remove", bool(later_opens) and all(o in okr for o in later_opens),
               "the retry open follows a successful remove (new inode)", b.file, b.blocks[r]["t"]["l"])
    if not removes:
        rep.ob("busy-fallback", "present", False, "no remove+recreate fallback for ETXTBSY: relinking a running executable in place would fail or modify it", b.file, b.line)

    # ---- unlink-strict ---------------------------------------------------------------------------
    u = F.body("libwild::file_writer::unlink_old_output")
    if u is None:
        rep.lost("unlink-strict", "libwild::file_writer::unlink_old_output")
        return
    cfg, flow = P.cfg(u), P.flow(u)
    rms = [bi for bi, t in flow.calls() if callee_key(t["f"]) == "std::fs::remove_file"]
    rep.ob("unlink-strict", "calls-remove_file", len(rms) >= 1, "the helper unlinks the path", u.file, u.line)
    _skip_guard(rep, P, F, u, flow, set(rms))
    for r in rms:
        t = u.blocks[r]["t"]
        okb, bad = success_blocks(u, flow, cfg, lambda k: k == "std::fs::remove_file")
        # Ok returns reachable after the remove
        after = cfg.reachable_from(t["to"]) if t["to"] is not None else set()
        nf_true = set()
        ef = cfg.edge_facts()
        for sb in cfg.reach:
            src = switch_source_call(u, flow, sb)
            if src and src[0] == "<std::io::ErrorKind as std::cmp::PartialEq>::eq":
                txt = " ".join(str(flow.origins(a)) for a in src[2]["args"])
                if "ErrorKind::NotFound" in txt:
                    labels = switch_bool_labels(u, flow, cfg, sb)
                    for lab, val in labels.items():
                        if val is True:
                            nf_true.add((sb, lab))
        n_ok = 0
        for bi, si, proj, payload in flow.defs.get(0, []):
            if si == "call" or bi not in after:
                continue
            rv = payload
            if rv["k"] == "agg" and rv.get("variant") == "Ok":
                n_ok += 1
                on_ok = bi in okb
                on_nf = bool(ef.get(bi, frozenset()) & nf_true)
                # the Ok may sit after a join of (success, not-found): then it is neither; check that
                # it is not reachable from the error edge while avoiding the not-found true edge
                reach_bad = False
                if not (on_ok or on_nf):
                    bad_entry = [b2 for b2 in bad]
                    nf_targets = {tgt for (sb, lab) in nf_true for l2, tgt in cfg.succ[sb] if l2 == lab}
                    for be in bad_entry:
                        if bi in cfg.reachable_from(be, avoid=nf_targets) and be not in nf_targets:
                            # be itself may be the block holding the eq test; only count blocks strictly on the error edge
                            reach_bad = True
                    # `bad` blocks include the test itself, from which Ok is reachable through the
                    # NotFound-true edge only if we avoid nf targets: recompute precisely
                    reach_bad = False
                    starts = [tgt for sb in cfg.reach for lab, tgt in cfg.succ[sb]
                              if (sb, lab) in _fail_edges(u, flow, cfg)]
                    for s in starts:
                        if bi in cfg.reachable_from(s, avoid=nf_targets):
                            reach_bad = True
                rep.ob("unlink-strict", "ok-after-remove", on_ok or on_nf or not reach_bad,
                       "Ok(()) after remove_file is reachable from its Err edge only through the kind()==NotFound edge", u.file, u.line)
        rep.ob("unlink-strict", "has-ok-return", n_ok >= 1, "helper has a success return after the unlink", u.file, u.line)
    # result of the helper is used at every call site
    for cb, bi, t in P.callers_of(lambda k: k == "libwild::file_writer::unlink_old_output"):
        from mir import uses_of_local
        us = [x for x in uses_of_local(cb, t["dest"][0]) if x[1] != "drop"]
        rep.ob("unlink-strict", f"must-use:{stable(cb.key)}", bool(us), "the helper's Result is propagated", cb.file, t["l"])
    rep.assume("the kernel refuses writes to a file being executed (ETXTBSY); behaviour for mapped shared libraries is covered by always replacing them")


def _fail_edges(body, flow, cfg):
    out = set()
    for sb in cfg.reach:
        if body.blocks[sb]["t"]["k"] != "switch":
            continue
        rt = result_tests(body, flow, sb)
        if not rt:
            continue
        kind, calls, labels = rt
        if "std::fs::remove_file" not in calls:
            continue
        for lab, vals in labels.items():
            if vals and 0 not in vals:
                out.add((sb, lab))
    return out


def _skip_guard(rep, P, F, u, flow, rms):
    import decide
    paths = decide.bool_paths(P, F, u, targets=rms)
    dom = decide.table_atoms(paths)
    deciding = set()
    for a in dom:
        # an atom decides whether remove_file is reached if flipping it alone changes the outcome of some consistent assignment
        for assign, res in paths:
            if a in assign:
                for assign2, res2 in paths:
                    if res2 != res and all(assign2.get(k, v) == v for k, v in assign.items() if k != a) and assign2.get(a) != assign[a] and a in assign2:
                        deciding.add(a)
    rep.ob("skip-guard", "deciders", len(deciding) >= 1, f"atoms deciding whether the old path is unlinked: {sorted(deciding)}", u.file, u.line)
    stat_calls = {callee_key(t["f"]) for _bi, t in flow.calls() if (callee_key(t["f"]) or "") in ("std::fs::metadata", "std::fs::symlink_metadata", "std::path::Path::metadata",
                  "std::path::Path::symlink_metadata", "std::path::Path::is_file", "std::path::Path::exists", "std::path::Path::is_symlink", "std::path::Path::try_exists")}
    follows = sorted(k for k in stat_calls if not k.endswith("symlink_metadata") and not k.endswith("is_symlink"))
    rep.ob("skip-guard", "lstat", bool(stat_calls) and not follows, f"file type is taken from {sorted(stat_calls)}" + (f"; {follows} follow symlinks" if follows else ""), u.file, u.line)
    closure_form = [a for a in deciding if "is_ok_and(symlink_metadata(" in a]
    if closure_form and len(deciding) == 1:
        # unlink iff is_ok_and(lstat, closure): closure must be is_file || is_symlink
        ok_pol = all(res == bool(assign.get(closure_form[0])) for assign, res in paths)
        rep.ob("skip-guard", "polarity", ok_pol, "remove_file is reached exactly when the is_ok_and test is true", u.file, u.line)
        cl = None
        for c in F.closures_of("libwild::file_writer::unlink_old_output"):
            names = {(callee_key(t["f"]) or "").split("::")[-1] for _bi, t in P.flow(c).calls()}
            if "file_type" in names or "is_file" in names:
                cl = c
        if cl is None:
            rep.lost("skip-guard", "the closure of is_ok_and testing the file type")
            return
        cp = decide.bool_paths(P, F, cl)
        ok, why = decide.check_formula(cp, {"file": "is_file", "link": "is_symlink"}, lambda v: bool(v["file"] or v["link"]))
        rep.ob("skip-guard", "regular-or-symlink", ok, f"the path is unlinked iff it is a regular file or a symlink: {why}", cl.file, cl.line)
    else:
        lst = [a for a in dom if "symlink_metadata(" in a]

        def spec(v):
            stat_ok = all(v[a] in ("Ok", True) for a in lst)
            return bool(stat_ok and (v["file"] or v["link"]))
        ok, why = decide.check_formula(paths, {"file": "is_file", "link": "is_symlink"}, spec, free_ok=tuple(lst))
        # inline form: the unlink is reached iff lstat succeeded and the type is regular file or symlink
        rep.ob("skip-guard", "regular-or-symlink", ok, f"inline guard: {why}", u.file, u.line)
