"""C35 — jobserver tokens are conserved.

Decided statically: tokens (`jobserver::Acquired`) are acquired at one site and stored only in
`args::ThreadPool`; the thread count derives from `tokens.len() + 1`; ThreadPool is neither Clone nor
leaked; in every body that holds a ThreadPool by value no call made while it is live can reach a
process exit (which would skip the Drop that returns the tokens)."""
import os
from mir import (callee_key, declared_key, stable, op_place, op_const, is_transparent, place_chain, uses_of_local)
from C20 import holders

EXPLANATION = ("type facts (no Clone/Copy, field type), who-may-call (acquire sites, leak APIs), reference containment "
               "of the acquired tokens into the ThreadPool aggregate, and a liveness rule: no call between a ThreadPool "
               "local's initialisation and its drop transitively reaches process::exit/abort")

TP = "libwild::args::ThreadPool"
EXITS = {"std::process::exit", "std::process::abort", "libc::_exit", "libc::exit", "libc::abort"}
LEAKS = {"std::mem::forget", "std::mem::ManuallyDrop::new", "std::boxed::Box::leak", "std::boxed::Box::into_raw",
         "std::sync::Arc::into_raw", "std::rc::Rc::into_raw"}
ACQUIRE = {"jobserver::Client::try_acquire", "jobserver::Client::acquire", "jobserver::Client::acquire_raw"}


def run(ctx, rep):
    F = ctx.facts()
    P = ctx.program()
    rep.rule("token-type", "ThreadPool's only field is Vec<jobserver::Acquired>; ThreadPool implements neither Clone nor Copy; Acquired values are stored in no other workspace type")
    rep.rule("acquire-sites", "jobserver tokens are acquired only in activate_thread_pool and every acquired token is pushed into the vector that becomes ThreadPool._jobserver_tokens")
    rep.rule("thread-count", "available_threads on the jobserver path is tokens.len() + 1")
    rep.rule("live", "in every body holding a ThreadPool local: no call between its initialisation and its drop can reach process::exit/abort; it is not leaked")

    adt = F.adt(TP)
    if adt is None:
        rep.lost("token-type", TP)
        return
    fields = adt["variants"][0]["fields"]
    rep.ob("token-type", "field", len(fields) == 1 and "jobserver::Acquired" in fields[0]["ty"] and fields[0]["ty"].startswith("std::vec::Vec<"),
           f"ThreadPool fields: {[(f['name'], f['ty']) for f in fields]}", adt["file"], adt["line"])
    bad_impls = [i["trait"] for i in F.impls() if i["self_ty"] == TP and i["trait"] in ("std::clone::Clone", "std::marker::Copy")]
    rep.ob("token-type", "not-clone", not bad_impls, f"ThreadPool must not be Clone/Copy (found {bad_impls})", adt["file"], adt["line"])
    others = []
    for h in F.headers.values():
        for a in h["adts"]:
            for v in a["variants"]:
                for f in v["fields"]:
                    if "jobserver::Acquired" in f["ty"] and a["path"] != TP:
                        others.append(a["path"])
    rep.ob("token-type", "only-holder", not others, f"no other workspace type stores Acquired tokens ({others})", adt["file"], adt["line"])

    # ---- acquire sites -----------------------------------------------------------------------------
    acq = P.callers_of(lambda k: k in ACQUIRE)
    rep.floor("acquire-sites", "Client::try_acquire sites", len(acq), 1)
    for b, bi, t in acq:
        parent = stable(b.key)
        rep.ob("acquire-sites", f"site:{parent}", parent.startswith("libwild::args::CommonArgs::activate_thread_pool"),
               "tokens are acquired only while building the ThreadPool", b.file, t["l"])
        flow = P.flow(b)
        H = holders(b, flow, {t["dest"][0]})
        # pushed into a Vec reachable through the closure environment
        pushed = False
        for bj, tt in flow.calls():
            if callee_key(tt["f"]) == "std::vec::Vec::push" and len(tt["args"]) >= 2:
                pl = op_place(tt["args"][1])
                if pl and pl[0] in H:
                    pushed = True
        rep.ob("acquire-sites", f"pushed:{parent}", pushed, "each acquired token is pushed into the tokens vector (a dropped Acquired would return the token immediately, an un-stored one would be lost)", b.file, t["l"])
    # the vector becomes the ThreadPool field
    atp = F.body("libwild::args::CommonArgs::activate_thread_pool")
    if atp is None:
        rep.lost("acquire-sites", "CommonArgs::activate_thread_pool")
    else:
        flow = P.flow(atp)
        aggs = []
        for blk in atp.blocks:
            for s in blk["s"]:
                if s["k"] == "assign" and s["rv"]["k"] == "agg" and s["rv"].get("adt") == TP:
                    aggs.append(s)
        rep.ob("acquire-sites", "aggregate", len(aggs) == 1, "ThreadPool is built at one place", atp.file, atp.line)
        # the closure capturing `tokens` and the aggregate operand share a root local
        for s in aggs:
            op = s["rv"]["ops"][0]
            pl = op_place(op)
            cl_ops = []
            for blk in atp.blocks:
                for st in blk["s"]:
                    if st["k"] == "assign" and st["rv"]["k"] == "agg" and st["rv"]["ak"] == "closure":
                        for o in st["rv"]["ops"]:
                            _f, roots = place_chain(flow, o)
                            cl_ops.append(roots)
            _f2, agg_roots = place_chain(flow, op)
            ok = pl is not None and any(agg_roots & r for r in cl_ops)
            rep.ob("acquire-sites", "same-vector", ok, "the vector the closure pushes tokens into is the one moved into ThreadPool", atp.file, s["l"])
    # ---- thread count -----------------------------------------------------------------------------------
    found = False
    for b in F.closures_of("libwild::args::CommonArgs::activate_thread_pool"):
        flow = P.flow(b)
        for bi, blk in enumerate(b.blocks):
            for s in blk["s"]:
                if s["k"] == "assign" and s["rv"]["k"] == "bin" and s["rv"]["op"] in ("Add", "AddWithOverflow"):
                    a, c = s["rv"]["a"], s["rv"]["b"]
                    consts = [op_const(x).get("val") for x in (a, c) if op_const(x)]
                    others = [x for x in (a, c) if not op_const(x)]
                    if consts == [1] and others:
                        oc = flow.origin_calls(others[0])
                        if "std::vec::Vec::len" in oc:
                            found = True
    rep.ob("thread-count", "len-plus-one", found, "thread count = number of acquired tokens + 1 (the implicit token of the parent)", atp.file if atp else None, atp.line if atp else None)

    # ---- live ----------------------------------------------------------------------------------------------
    n_holders = 0
    for b in F.all_bodies:
        tp_locals = [li for li, ty in enumerate(b.locals) if ty == TP and li != 0]
        if not tp_locals:
            continue
        flow, cfg = P.flow(b), P.cfg(b)
        starts = []
        for li in tp_locals:
            for bi, si, proj, payload in flow.defs.get(li, []):
                st = payload["to"] if si == "call" else bi
                if st is not None and st in cfg.reach:
                    starts.append(st)
        if not starts:
            continue  # only a parameter (by-value receiver): the caller's obligation
        n_holders += 1
        drops = [i for i in cfg.reach if b.blocks[i]["t"]["k"] == "drop" and b.blocks[i]["t"]["p"][0] in tp_locals and not b.blocks[i]["t"]["p"][1]]
        live = set()
        for st in starts:
            live |= cfg.reachable_from(st, avoid=drops)
        seen_callees = set()
        for bj in sorted(live):
            tt = b.blocks[bj]["t"]
            if tt["k"] != "call":
                continue
            for k in sorted(P.callees_of_call(tt)):
                if k in LEAKS and any(op_place(a) and op_place(a)[0] in tp_locals for a in tt["args"]):
                    rep.ob("live", f"leak:{stable(b.key)}:{k}", False, "the ThreadPool is leaked, its tokens are never returned", b.file, tt["l"])
                if k in EXITS or k == "libwild::error::report_error_and_exit":
                    rep.ob("live", f"exit:{stable(b.key)}->{k}", False, "process exit while the ThreadPool is live: Drop does not run, the acquired tokens are never written back to the jobserver", b.file, tt["l"])
                    continue
                if not (k.startswith("libwild::") or k.startswith("<libwild::") or k.startswith("wild::")):
                    continue
                if k in seen_callees:
                    continue
                seen_callees.add(k)
                p = P.reaches(k, lambda x: x in EXITS)
                inst = f"reach:{stable(b.key)}->{stable(k)}" if p is None else f"reach:{stable(b.key)}->{stable(k)}=>{stable(p[-2])}->{p[-1]}"
                rep.ob("live", inst, p is None,
                       "no process exit reachable while the ThreadPool is live" if p is None else
                       "process exit reachable while the ThreadPool is live (Drop is skipped, tokens are not returned to the jobserver): " + " -> ".join(stable(x) for x in p), b.file, tt["l"])
        # every exit of the body passes a drop, unless the pool is the return value
        if "ThreadPool" not in b.locals[0]:
            bad = [e for e in cfg.exits() if e in live]
            rep.ob("live", f"dropped:{stable(b.key)}", not bad, "every return path drops the ThreadPool (tokens returned)", b.file, b.line)
    rep.floor("live", "bodies holding a ThreadPool", n_holders, 2)
    # callers of run_in_subprocess-style exits after the pool was dropped are C17's business
    # ---- the pool is never larger than the thread budget ------------------------------------------------------------------------
    # rayon's default pool size is one worker per CPU; `use_current_thread()` alone does not limit it. Every ThreadPoolBuilder that
    # reaches build_global()/build() must therefore carry an explicit num_threads whose argument is the budget (tokens + 1) or 1.
    rep.rule("pool-size", "every rayon ThreadPoolBuilder built in libwild/wild has num_threads set, from available_threads (= acquired tokens + 1) or the constant 1")
    n_pool = 0
    for b_ in F.all_bodies:
        if not b_.key.startswith(("libwild::", "<libwild::", "wild::")):
            continue
        fl_ = P.flow(b_)
        for bi_, t_ in fl_.calls():
            ck_ = callee_key(t_["f"]) or ""
            if not (ck_.endswith("ThreadPoolBuilder::build_global") or ck_.endswith("ThreadPoolBuilder::build") or ck_.endswith("ThreadPoolBuilder::<S>::build_global") or ck_.endswith("ThreadPoolBuilder::<S>::build")):
                continue
            n_pool += 1
            o_ = fl_.deep_origins(t_["args"][0])
            nts = [x for x in o_ if x[0] == "call" and (x[1] or "").endswith("::num_threads")]
            ok_ = False
            why_ = "no num_threads call on this builder"
            for x in nts:
                tt = b_.blocks[x[2]]["t"]
                ao = fl_.deep_origins(tt["args"][1]) if len(tt["args"]) > 1 else set()
                consts = [y[1] for y in ao if y[0] == "const" and isinstance(y[1], int)]
                from_budget = any(y[0] == "call" and (y[1] or "").endswith("NonZero::<T>::get") or (y[0] == "call" and (y[1] or "").split("::")[-1] == "get") for y in ao)
                if from_budget or consts == [1]:
                    ok_ = True
                    why_ = "num_threads(" + ("available_threads" if from_budget else "1") + ")"
                else:
                    why_ = f"num_threads argument derives from {sorted(str(y)[:40] for y in ao)[:3]}"
            rep.ob("pool-size", f"{stable(b_.key)}#{n_pool}", ok_, f"thread pool built with {why_}" + ("" if ok_ else
                   ": rayon then starts one worker per CPU whatever the jobserver granted (wild uses more threads than tokens + 1)"), b_.file, t_["l"])
    rep.floor("pool-size", "thread pools built", n_pool, 2)

    # ---- no signal disposition that kills the process without running destructors ---------------------------------------------
    # Tokens are written back by the Drop of jobserver::Acquired. The Rust runtime ignores SIGPIPE, so a write to a closed pipe is an
    # error (or a panic that unwinds through ThreadPool). Restoring a terminating default (signal(SIGPIPE, SIG_DFL), sigaction, raise,
    # kill(getpid)) makes such a write end the process on the spot with every acquired token lost.
    rep.rule("signal-disposition", "no call in libwild/wild changes a signal's disposition or sends a signal to the process itself (libc::signal / sigaction / raise / kill / pthread_kill and wrappers); count must be 0")
    SIG = ("libc::signal", "libc::sigaction", "libc::raise", "libc::kill", "libc::pthread_kill", "libc::sigprocmask", "libc::pthread_sigmask", "libc::alarm")
    sig_sites = P.callers_of(lambda k: k in SIG or k.startswith(("signal_hook::", "nix::sys::signal::", "ctrlc::")))
    for b_, bi_, t_ in sig_sites:
        if not b_.key.startswith(("libwild::", "<libwild::", "wild::")):
            continue
        rep.ob("signal-disposition", f"{stable(b_.key)}->{callee_key(t_['f'])}", False,
               "a signal disposition is changed / a signal is sent from the linker's own code: a death by signal skips the destructors that return the jobserver tokens", b_.file, t_["l"])
    ctl_ = P.callers_of(lambda k: k.startswith("libc::"))
    # the `nofork` build configuration compiles the subprocess module (fork / waitpid / pipe) out: there the control is the extern-crate call matcher itself
    if getattr(ctx, "config", "default") == "nofork" or os.environ.get("VERIF_CONFIG") == "nofork":
        ctl_ = P.callers_of(lambda k: k.startswith(("libc::", "std::process::", "std::fs::")))
    rep.ob("signal-disposition", "positive-control", len(ctl_) >= 3, f"the matcher sees {len(ctl_)} other libc:: call site(s) (waitpid, fork, pipe, ...), so a zero count of signal calls is not vacuous", "libwild/src/subprocess.rs", 0)
    rep.assume("SIGKILL cannot be handled; the parent's implicit token is the jobserver protocol's convention")
    rep.assume("jobserver::Acquired returns its token in Drop (dependency behaviour)")
