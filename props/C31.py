"""C31 — symbol tables describe the final resolution (structural clauses).

Values, sizes and the order of entries are runtime quantities: not decided. Decided on every path of the
current tree:
 * can_export_symbol is exactly the boolean function the property states (truth table over its decision
   atoms, extracted from MIR: undefined / local / hidden / non-canonical / downgraded-to-local are never
   exported, the export list filters unless everything is exported);
 * the EXPORT_DYNAMIC flag is set at a closed set of sites, each under its guard;
 * `.dynsym` definitions are produced at a closed set of sites, each under its guard, and only through
   layout::export_dynamic (the only writer of dynamic_symbol_definitions);
 * DOWNGRADE_TO_LOCAL producers are a closed set; the loader sets it on the should_downgrade_to_local edge;
 * .symtab partition: is_symtab_local = is_local || downgraded; the allocator, the writer and the
   sh_info counter all partition by is_symtab_local; define_symbol takes a local slot exactly when is_local;
   a downgraded symbol gets STB_LOCAL in both copy functions (locals-before-globals needs binding and
   position to agree)."""
import decide
from mir import callee_key, op_const, stable, expr_tree, render

EXPLANATION = ("truth-table extraction over MIR decision atoms (path enumeration of loop-free predicate bodies) compared with the specified "
               "boolean function; who-may-set / who-may-call tables with edge-dominance guards; sibling agreement of the .symtab "
               "partition predicate between allocator, writer and sh_info")
L = "libwild::layout::"
VF = "libwild::value_flags::ValueFlags::"


def const_def_args(t):
    out = []
    for a in t["args"]:
        c = op_const(a)
        if c and c.get("def"):
            out.append(c["def"])
    return out


def flag_sites(F, P, flag):
    """(body, block, terminator) of every call that receives the named ValueFlags constant, directly or or-ed with others."""
    sites = []
    for b in F.all_bodies:
        if not b.key.startswith(("libwild::", "<libwild::")):
            continue
        flow = None
        for bi, blk in enumerate(b.blocks):
            t = blk["t"]
            if t["k"] != "call" or blk.get("cleanup"):
                continue
            hit = False
            for a in t["args"]:
                c = op_const(a)
                if c and (c.get("def") or "") == VF + flag:
                    hit = True
                elif a[0] in ("c", "m"):
                    flow = flow or P.flow(b)
                    for o in flow.origins(a):
                        if o[0] == "const" and (o[2] or "").endswith("ValueFlags::" + flag):
                            hit = True
            if hit:
                sites.append((b, bi, t))
    return sites


def run(ctx, rep):
    F = ctx.facts(); P = ctx.program()
    rep.rule("can-export", "can_export_symbol(sym, id, res, all) == !undefined && !local && visibility != Hidden && canonical && !downgraded_to_local && (all || no export list || name unreadable || list contains name)")
    rep.rule("export-flag-sites", "ValueFlags::EXPORT_DYNAMIC is set only at the listed sites, each dominated by its guard")
    rep.rule("dynsym-producers", "dynamic_symbol_definitions is pushed only by layout::export_dynamic, which is called only from the listed sites, each dominated by its guard")
    rep.rule("downgrade-producers", "ValueFlags::DOWNGRADE_TO_LOCAL is produced only at the listed sites; the symbol loader sets it on the should_downgrade_to_local() edge")
    rep.rule("symtab-partition", "is_symtab_local = is_local || is_downgraded_to_local; allocator, writer and sh_info counter partition by it; define_symbol takes a local slot iff is_local; downgraded symbols get STB_LOCAL")

    # ---- can_export_symbol -----------------------------------------------------------------------------------
    ce = F.body(L + "can_export_symbol")
    if ce is None:
        rep.lost("can-export", "layout::can_export_symbol")
    else:
        try:
            paths = decide.bool_paths(P, F, ce)
            ok, why = decide.check_formula(paths, {
                "undef": "Symbol::is_undefined(", "local": "Symbol::is_local(", "hidden": "Visibility::Hidden", "canon": "is_canonical(",
                "down": "is_downgraded_to_local(", "all": "place:export_all_dynamic", "list": "variant:resources.symbol_db.export_list", "name": "variant:symbol_name", "contains": "ExportList::contains("},
                lambda v: (not v["undef"] and not v["local"] and not v["hidden"] and v["canon"] and not v["down"]
                           and (v["all"] or v["list"] == "None" or v["name"] == "Err" or v["contains"])))
            rep.ob("can-export", "truth-table", ok, f"{len(paths)} paths; {why}", ce.file, ce.line)
        except decide.NotLoopFree as e:
            rep.ob("can-export", "truth-table", False, f"can_export_symbol is no longer loop-free ({e}): its boolean function cannot be tabulated", ce.file, ce.line)

    # ---- EXPORT_DYNAMIC set sites -------------------------------------------------------------------------------
    SITES = {
        "libwild::layout::ObjectLayoutState::load_non_hidden_symbols": [("can_export_symbol", True)],
        "libwild::layout::ObjectLayoutState::export_dynamic": [("can_export_symbol", True)],
        "libwild::layout::InternalSymbols::activate_symbols": [("is_canonical", True), ("is_hidden", False)],
    }
    sites = [s for s in flag_sites(F, P, "EXPORT_DYNAMIC") if not (callee_key(s[2]["f"]) or "").endswith(("::contains", "::intersection", "::intersects"))]
    seen = set()
    for b, bi, t in sites:
        name = stable(b.key)
        ck = callee_key(t["f"]) or "?"
        if name == "libwild::value_flags::ValueFlags::resolution_flags" or name.startswith("libwild::value_flags::"):
            continue  # masks/readers inside the flags module itself
        need = SITES.get(name)
        if need is None:
            rep.ob("export-flag-sites", f"{name}->{ck.split('::')[-1]}", False, "EXPORT_DYNAMIC is set at a site that is not in the table: the symbol would get a .dynsym entry without passing can_export_symbol", b.file, t["l"])
            continue
        seen.add(name)
        decide.require(rep, "export-flag-sites", name, decide.atoms_at(P, F, b, bi), need, f"`{ck.split('::')[-1]}(EXPORT_DYNAMIC)` under its guard", b.file, t["l"])
    rep.floor("export-flag-sites", "sites setting EXPORT_DYNAMIC", len(seen), 3)

    # ---- dynsym producers -------------------------------------------------------------------------------------------
    pushes = []
    for b in F.all_bodies:
        if not b.key.startswith(("libwild::", "<libwild::")):
            continue
        for bi, blk in enumerate(b.blocks):
            t = blk["t"]
            if t["k"] == "call" and not blk.get("cleanup") and (callee_key(t["f"]) or "").endswith(("Vec::<T, A>::push", "::push", "::extend", "::insert", "::append")) and t["args"]:
                r = render(expr_tree(P, b, t["args"][0], depth=5, expand_params=0))
                if "dynamic_symbol_definitions" in r:
                    pushes.append((b, t))
    PUSHERS = {L + "export_dynamic": [], L + "append_prelude_defsym_dynamic_symbols": [("needs_dynsym", True), ("is_canonical", True)]}
    for b, t in pushes:
        need = PUSHERS.get(stable(b.key))
        if need is None:
            rep.ob("dynsym-producers", f"push:{stable(b.key)}", False, "dynamic_symbol_definitions grows outside layout::export_dynamic / the --defsym merge step", b.file, t["l"])
        else:
            bi = next(i for i, blk in enumerate(b.blocks) if blk["t"] is t)
            decide.require(rep, "dynsym-producers", f"push:{stable(b.key)}", decide.atoms_at(P, F, b, bi), need, "push under its guard", b.file, t["l"])
    rep.floor("dynsym-producers", "pushes to dynamic_symbol_definitions", len(pushes), 1)
    CALLERS = {
        "libwild::layout::ObjectLayoutState::load_non_hidden_symbols": [("can_export_symbol", True), ("needs_export_dynamic", False)],
        "libwild::layout::ObjectLayoutState::export_dynamic": [("can_export_symbol", True), ("needs_export_dynamic", False)],
        "libwild::layout::InternalSymbols::activate_symbols": [("is_canonical", True), ("is_hidden", False), ("needs_dynsym", True)],
        "libwild::elf::select_copy_relocation_alternatives": [("is_canonical", True)],
    }
    seen = set()
    for b, bi, t in P.callers_of(lambda k: k == L + "export_dynamic"):
        name = stable(b.key)
        need = CALLERS.get(name)
        if need is None:
            rep.ob("dynsym-producers", f"caller:{name}", False, "layout::export_dynamic is called from a site that is not in the table (a .dynsym definition without the export guard)", b.file, t["l"])
            continue
        seen.add(name)
        decide.require(rep, "dynsym-producers", f"caller:{name}", decide.atoms_at(P, F, b, bi), need, "layout::export_dynamic under its guard", b.file, t["l"])
    rep.floor("dynsym-producers", "callers of layout::export_dynamic", len(seen), 4)

    # ---- DOWNGRADE_TO_LOCAL producers ----------------------------------------------------------------------------
    DOWN = {
        "libwild::resolution::": "symbols of a discarded COMDAT/--exclude-libs archive member",
        "libwild::symbol_db::": "symbol loader / version-script / exclude-libs handling",
    }
    ds = [s for s in flag_sites(F, P, "DOWNGRADE_TO_LOCAL") if not stable(s[0].key).startswith("libwild::value_flags::")]
    n_loader = 0
    for b, bi, t in ds:
        name = stable(b.key)
        ck = (callee_key(t["f"]) or "?").split("::")[-1]
        okmod = name.startswith(tuple(DOWN))
        if ck in ("remove",):
            rep.ob("downgrade-producers", f"clear:{name}", name.startswith("libwild::symbol_db::"), "the flag is cleared only inside symbol_db (when a definition is replaced)", b.file, t["l"])
            continue
        rep.ob("downgrade-producers", f"{name}->{ck}", okmod, "producer inside the listed modules" if okmod else "DOWNGRADE_TO_LOCAL produced outside resolution/symbol_db", b.file, t["l"])
        at = decide.atoms_at(P, F, b, bi)
        if any("should_downgrade_to_local" in a for a, v in at):
            n_loader += 1
            decide.require(rep, "downgrade-producers", f"loader-guard:{name}", at, [("should_downgrade_to_local", True)], "set on the should_downgrade_to_local()==true edge", b.file, t["l"])
    rep.floor("downgrade-producers", "producers", len(ds), 5)
    rep.floor("downgrade-producers", "loader sites guarded by should_downgrade_to_local", n_loader, 1)

    # ---- .symtab partition ----------------------------------------------------------------------------------------
    isl = F.body("libwild::value_flags::ValueFlags::is_symtab_local")
    if isl is None:
        rep.lost("symtab-partition", "ValueFlags::is_symtab_local")
    else:
        try:
            paths = decide.bool_paths(P, F, isl)
            ok, why = decide.check_formula(paths, {"local": "is_local(", "down": "is_downgraded_to_local("}, lambda v: v["local"] or v["down"])
            rep.ob("symtab-partition", "is_symtab_local", ok, why, isl.file, isl.line)
        except decide.NotLoopFree as e:
            rep.ob("symtab-partition", "is_symtab_local", False, str(e), isl.file, isl.line)
    users = P.callers_of(lambda k: k.endswith("ValueFlags::is_symtab_local"))
    names = sorted({stable(b.key) for b, _bi, _t in users})
    need_users = {"allocator": "allocate_symtab_space", "writer": "copy_symbol_shndx", "writer-abs": "copy_absolute_symbol", "sh_info": ""}
    rep.ob("symtab-partition", "users", len(names) >= 4, f"is_symtab_local decides the partition in: {[n.split('::')[-1] for n in names]}", "libwild/src/value_flags.rs", 0)
    for tag, fn in (("writer", "copy_symbol_shndx"), ("writer-abs", "copy_absolute_symbol")):
        b = next((x for x in F.all_bodies if stable(x.key).endswith("SymbolTableWriter::" + fn)), None)
        if b is None:
            rep.lost("symtab-partition", fn)
            continue
        flow = P.flow(b)
        ok_arg = False
        stb = []
        for bi, t in flow.calls():
            ck = callee_key(t["f"]) or ""
            if ck.endswith("SymbolTableWriter::define_symbol"):
                ok_arg = any("is_symtab_local" in (o[1] or "") for o in flow.origins(t["args"][1]) if o[0] == "call")
            if ck.endswith("set_st_info"):
                stb.append((bi, t))
        rep.ob("symtab-partition", f"{fn}:is_local-arg", ok_arg, "define_symbol's is_local argument is the result of is_symtab_local(sym)", b.file, b.line)
        rep.ob("symtab-partition", f"{fn}:stb-local", len(stb) == 1 and all(("call:ValueFlags::is_downgraded_to_local", True) in {(a.split("(")[0], v) for a, v in decide.atoms_at(P, F, b, bi)} or
               any("is_downgraded_to_local" in a and v is True for a, v in decide.atoms_at(P, F, b, bi)) for bi, _t in stb),
               "a downgraded symbol is rewritten to STB_LOCAL (it sits among the locals, so its binding must say so)", b.file, b.line)
        for bi, t in stb:
            c = [op_const(a) for a in t["args"]]
            vals = [x.get("val") for x in c if x]
            rep.ob("symtab-partition", f"{fn}:stb-value", 0 in vals, f"set_st_info binding constant = {vals} (STB_LOCAL = 0)", b.file, t["l"])
    ds_ = next((x for x in F.all_bodies if stable(x.key).endswith("SymbolTableWriter::define_symbol")), None)
    if ds_ is None:
        rep.lost("symtab-partition", "define_symbol")
    else:
        flow, cfg = P.flow(ds_), P.cfg(ds_)
        loc = glob = 0
        okl = okg = True
        for bi, t in flow.calls():
            ck = callee_key(t["f"]) or ""
            if "split_off_first_mut" in ck and t["args"]:
                r = render(expr_tree(P, ds_, t["args"][0], depth=4, expand_params=0))
                at = decide.atoms_at(P, F, ds_, bi)
                if "local_entries" in r and "shndx" not in r:
                    loc += 1
                    okl &= ("place:is_local", True) in at
                if "global_entries" in r and "shndx" not in r:
                    glob += 1
                    okg &= ("place:is_local", False) in at
        rep.ob("symtab-partition", "define_symbol:local-slot", loc == 1 and okl, "local_entries is consumed exactly on the is_local edge", ds_.file, ds_.line)
        rep.ob("symtab-partition", "define_symbol:global-slot", glob == 1 and okg, "global_entries is consumed exactly on the !is_local edge", ds_.file, ds_.line)
    # ---- merged visibility of multiply-defined symbols covers *all* definitions ------------------------------------------------
    # When a symbol has several definitions the most restrictive visibility of any of them applies (GNU ld): a hidden first definition
    # overridden by a default one must still end up local / not exported. The merged value must therefore include the first-seen
    # definition (the map key) as well as every alternative (the map value).
    rep.rule("visibility-merge", "in process_alternatives the visibility that guards handle_non_default_visibility derives from input_symbol_visibility of the first "
             "definition (the map key) and, through a max-combining closure, of every alternative")
    pa = F.body("libwild::symbol_db::process_alternatives")
    if pa is None:
        rep.lost("visibility-merge", "symbol_db::process_alternatives")
    else:
        pflow = P.flow(pa)
        vis_calls = [(bi, t) for bi, t in pflow.calls() if (callee_key(t["f"]) or "").endswith("::input_symbol_visibility")]
        on_key = [bi for bi, t in vis_calls if render(expr_tree(P, pa, t["args"][-1], depth=5, expand_params=0)).endswith("@Some.0.0")]
        cl_ok = False
        for c in F.closures_of("libwild::symbol_db::process_alternatives"):
            names = {(callee_key(t["f"]) or "").split("::")[-1] for _bi, t in P.flow(c).calls()}
            parent_combines = any((callee_key(t["f"]) or "").split("::")[-1] in ("max", "fold", "reduce", "max_by_key") for _bi, t in pflow.calls())
            if "input_symbol_visibility" in names and ("max" in names or parent_combines):
                cl_ok = True
        guards = [(bi, t) for bi, t in pflow.calls() if (callee_key(t["f"]) or "").endswith("handle_non_default_visibility")]
        rep.ob("visibility-merge", "first-definition", len(on_key) >= 1, f"{len(on_key)} input_symbol_visibility call(s) on the map key (the first-seen definition)", pa.file, pa.line)
        rep.ob("visibility-merge", "alternatives-max", cl_ok, "a closure of process_alternatives reads input_symbol_visibility of an alternative and the values are combined with max/fold", pa.file, pa.line)
        n_g = 0
        for bi, t in guards:
            o = pflow.deep_origins(t["args"][-1])
            from_key = any(x[0] == "call" and x[2] in on_key for x in o)
            from_fold = any(x[0] == "call" and (x[1] or "").split("::")[-1] in ("fold", "max", "reduce", "max_by_key") for x in o)
            n_g += 1
            rep.ob("visibility-merge", f"applied-value#{n_g}", from_key and from_fold,
                   "the visibility applied to the definitions combines the first definition's and the alternatives'" if from_key and from_fold else
                   f"the visibility applied here does not derive from {'the first definition' if not from_key else 'the alternatives'}: a hidden/protected definition that is "
                   "overridden by a default one would be exported", pa.file, t["l"])
        rep.floor("visibility-merge", "handle_non_default_visibility calls", n_g, 2)
        import decide as _d2
        for k_, (bi, t) in enumerate(guards):
            at = {str(a[0]): a[1] for a in _d2.atoms_at(P, F, pa, bi)}
            pol = any(("::ne(" in k and "Visibility::Default" in k and v is True) or ("::eq(" in k and "Visibility::Default" in k and v is False) for k, v in at.items())
            rep.ob("visibility-merge", f"guard-polarity#{k_ + 1}", pol,
                   "the restrictive visibility is applied on the `merged visibility != Default` edge" if pol else
                   "handle_non_default_visibility is not on the `!= Default` edge: hidden / protected definitions would be left exported and default ones restricted", pa.file, t["l"])

    # ---- --exclude-libs accumulates over repeated options ----------------------------------------------------------------------------
    # `--exclude-libs a.a --exclude-libs b.a` demotes the symbols of both archives (GNU ld). The option handler may therefore build a fresh
    # ExcludeLibs::Some(set) only when no set exists yet (previous value None); otherwise it must insert into the existing set.
    rep.rule("exclude-libs-accumulate", "a fresh ExcludeLibs::Some(..) is constructed only on the edge where the previous value is ExcludeLibs::None, and the Some arm inserts "
             "into the existing set: repeated --exclude-libs options add up")
    import decide as _decide
    n_some = n_ins = 0
    for c in F.closures_of("libwild::args::elf::setup_argument_parser"):
        made = []
        for bi, blk in enumerate(c.blocks):
            if blk.get("cleanup"):
                continue
            for st in blk["s"]:
                if st["k"] == "assign" and st["rv"]["k"] == "agg" and str(st["rv"].get("adt") or "").endswith("ExcludeLibs") and st["rv"].get("variant") == "Some":
                    made.append((bi, st))
        if not made:
            continue
        cflow = P.flow(c)
        for bi, st in made:
            n_some += 1
            at = _decide.atoms_at(P, F, c, bi)
            on_none = any(a[0] == "variant:ExcludeLibs" and a[1] == frozenset({"None"}) for a in at)
            if not on_none and st["rv"]["ops"]:
                # or the new set is built from the old one (take/replace, then extend)
                on_none = "exclude_libs" in render(expr_tree(P, c, st["rv"]["ops"][0], depth=8, expand_params=0))
            rep.ob("exclude-libs-accumulate", f"fresh-set#{n_some}", on_none,
                   "a new set is created only when none existed" if on_none else
                   "ExcludeLibs::Some(new set) is stored without knowing that the previous value was None: a second --exclude-libs option discards the libraries of the first, "
                   "whose symbols are then exported", c.file, st.get("l"))
        for bi, t in cflow.calls():
            if (callee_key(t["f"]) or "").endswith("HashSet::insert") and t["args"]:
                at = _decide.atoms_at(P, F, c, bi)
                if any(a[0] == "variant:ExcludeLibs" and a[1] == frozenset({"Some"}) for a in at):
                    n_ins += 1
    rep.floor("exclude-libs-accumulate", "constructions of ExcludeLibs::Some in the option parser", n_some, 1)
    rep.ob("exclude-libs-accumulate", "insert-into-existing", n_ins >= 1, f"{n_ins} insert(s) into the existing set on the ExcludeLibs::Some edge", None, None)

    # ---- STV_* -> Visibility: internal is at least as restrictive as hidden -----------------------------------------------------------
    # Property text: "Hidden or internal symbols ... are never exported". Every export decision above works on libwild's Visibility /
    # Symbol::is_hidden, so the conversion from st_other must send STV_INTERNAL (1) and STV_HIDDEN (2) to Hidden
    # (genuine defect, fixed in /repo fbece2d: STV_INTERNAL became Default and the symbol was listed in .dynsym).
    rep.rule("visibility-conversion", "convert_elf_visibility maps st_other&3 = 0,1,2,3 to Default,Hidden,Hidden,Protected and Symbol::is_hidden / is_interposable of an ELF "
             "symbol agree with it (evaluated over the MIR of each function for all four values)")
    want = {0: "Default", 1: "Hidden", 2: "Hidden", 3: "Protected"}
    cv = F.body("libwild::elf::convert_elf_visibility")
    if cv is None:
        rep.lost("visibility-conversion", "elf::convert_elf_visibility")
    else:
        for v, w in want.items():
            got = _classify_u8(cv, ("param", 1), v)
            rep.ob("visibility-conversion", f"convert:{v}", got is not None and str(got).endswith(w), f"st_visibility {v} -> {got} (expected {w})", cv.file, cv.line)
    for fn, truth in (("libwild::elf::is_hidden", {0: 0, 1: 1, 2: 1, 3: 0}), ("libwild::elf::is_interposable", {0: 1, 1: 0, 2: 0, 3: 0})):
        hb = F.body(fn)
        if hb is None:
            rep.lost("visibility-conversion", fn)
            continue
        for v, w in truth.items():
            got = _classify_u8(hb, ("call", "st_visibility"), v)
            rep.ob("visibility-conversion", f"{fn.split('::')[-1]}:{v}", got == w, f"{fn.split('::')[-1]}(st_visibility={v}) = {got} (expected {w})", hb.file, hb.line)
    users = [b for b, bi, t in P.callers_of(lambda k: k == "libwild::elf::convert_elf_visibility")]
    rep.floor("visibility-conversion", "users of convert_elf_visibility (ELF symbols, LTO plugin symbols)", len(users), 1)

    # ---- imports: references from shared objects are looked up under the right version ----------------------------------
    # A symbol the executable defines must be exported when a shared object references it. resolve_symbols visits an object's symbols in
    # chunks of MAX_SYMBOLS_PER_WORK_ITEM and enumerates each chunk from zero; the version of a shared object's symbol is found by its
    # *absolute* .dynsym index. Passing the chunk-relative index looks the reference up under an unrelated symbol's version, the lookup
    # fails and the definition is not exported (genuine defect, fixed in /repo b9f0e34).
    rep.rule("import-version-index", "in resolve_symbols every symbol index handed to raw_symbol_name (version lookup) is start_symbol_offset + the enumerate index, not the chunk-relative index")
    import chunkidx
    r_ = chunkidx.analyse(F, P)
    if r_ is None:
        rep.lost("import-version-index", "libwild::resolution::resolve_symbols")
    else:
        rep.ob("import-version-index", "site", len(r_["uses"]) >= 1, f"{len(r_['uses'])} use(s) of the enumerate index examined (capture #{r_['cap']}, {'chunk-relative' if r_['relative'] else 'absolute'} index)", "libwild/src/resolution.rs", 0)
        for c_, line, kind, ok, detail in r_["uses"]:
            rep.ob("import-version-index", f"absolute-index:{kind}", ok or r_["relative"] is False, detail + ("" if ok else ": symbols of a shared object beyond the first 5000 are looked up under "
                   "another symbol's identity/version, so references to the executable's definitions are not found and not exported"), c_.file, line)

    # ---- entry contents: which quantity goes into which field ---------------------------------------------------------
    rep.rule("entry-fields", "define_symbol stores st_name <- offset returned by write_str, st_shndx <- the section index, st_value <- value, st_size <- size; the copy functions pass "
             "(is_symtab_local, section, value, st_size(sym), name) in that order and copy st_info/st_other from the input symbol")
    from mir import alternatives, simplify

    def _r(b, o, d=6):
        with alternatives():
            return render(simplify(expr_tree(P, b, o, depth=d, expand_params=0)))
    if ds_ is not None:
        flow = P.flow(ds_)
        sets = {}
        for bi, t in flow.calls():
            k = callee_key(t["f"]) or ""
            if k.startswith("object::U") and k.endswith("::set") and len(t["args"]) >= 3:
                sets.setdefault(_r(ds_, t["args"][0], 5).split(".")[-1], []).append(_r(ds_, t["args"][2], 7))
        want = {"st_name": "write_str(", "st_shndx": ".1", "st_value": "value", "st_size": "size"}
        for f_, w in want.items():
            got = sets.get(f_, [])
            ok = len(got) == 1 and (got[0] == w if w in ("value", "size") else w in got[0])
            rep.ob("entry-fields", f"define_symbol:{f_}", ok, f"{f_} <- {got}", ds_.file, ds_.line)
    for fn, want_args in (("copy_symbol_shndx", {1: "is_symtab_local(", 3: "value", 4: "st_size(sym", 5: "name"}), ("copy_absolute_symbol", {1: "is_symtab_local(", 3: "st_value(sym", 4: "st_size(sym", 5: "name"})):
        b = next((x for x in F.all_bodies if stable(x.key).endswith("SymbolTableWriter::" + fn)), None)
        if b is None:
            continue
        flow = P.flow(b)
        for bi, t in flow.calls():
            if (callee_key(t["f"]) or "").endswith("SymbolTableWriter::define_symbol"):
                args = [_r(b, a) for a in t["args"]]
                for i_, w in want_args.items():
                    ok = i_ < len(args) and (args[i_] == w if w in ("value", "name") else args[i_].startswith(w))
                    rep.ob("entry-fields", f"{fn}:arg{i_}", ok, f"define_symbol argument {i_} = {args[i_] if i_ < len(args) else None} (expected {w}…)", b.file, t["l"])
        stores = {}
        for blk in b.blocks:
            for st in blk["s"]:
                if st["k"] == "assign" and st["p"][1] and st["rv"]["k"] == "use" and any(x in (".st_info", ".st_other") for x in st["p"][1]):
                    stores[[x for x in st["p"][1] if x.startswith(".st_")][-1]] = _r(b, st["rv"]["a"], 5)
        rep.ob("entry-fields", f"{fn}:st_info", stores.get(".st_info", "").startswith("st_info(sym"), f"st_info <- {stores.get('.st_info')} (type and binding of the input symbol)", b.file, b.line)
        rep.ob("entry-fields", f"{fn}:st_other", stores.get(".st_other", "").startswith("st_other(sym"), f"st_other <- {stores.get('.st_other')} (visibility of the input symbol)", b.file, b.line)
    rep.assume("final values, sizes, types and the order of symbol-table entries are runtime quantities: not decided")


def _classify_u8(body, source, v, max_steps=200):
    """Evaluate a loop-free MIR body whose outcome depends only on one u8 (a parameter or the result of a call whose name ends with
    source[1]) for the concrete value v: returns the constant / enum variant stored in _0, or None if anything else is needed."""
    env = {}
    if source[0] == "param":
        env[source[1]] = v

    def val(op):
        if op[0] == "k":
            return op[1].get("val")
        if op[0] in ("c", "m") and not op[1][1]:
            return env.get(op[1][0])
        return None
    bi = 0
    for _ in range(max_steps):
        blk = body.blocks[bi]
        for s in blk["s"]:
            if s["k"] != "assign" or s["p"][1]:
                continue
            rv = s["rv"]
            r = None
            if rv["k"] in ("use", "cast"):
                r = val(rv["a"])
            elif rv["k"] == "bin":
                a, b = val(rv["a"]), val(rv["b"])
                if a is not None and b is not None:
                    r = {"Eq": int(a == b), "Ne": int(a != b), "BitAnd": a & b, "BitOr": a | b, "Lt": int(a < b), "Le": int(a <= b), "Gt": int(a > b), "Ge": int(a >= b)}.get(rv["op"])
            elif rv["k"] == "un" and rv["op"] == "Not":
                a = val(rv["a"])
                r = None if a is None else int(not a)
            elif rv["k"] == "agg" and rv["ak"] == "adt":
                r = rv.get("variant")
            elif rv["k"] == "discr":
                r = env.get(rv["p"][0])
            env[s["p"][0]] = r
        t = blk["t"]
        if t["k"] == "goto":
            bi = t["to"]
        elif t["k"] == "return":
            return env.get(0)
        elif t["k"] == "switch":
            d = val(t["d"])
            if d is None:
                return None
            if isinstance(d, str):
                return None
            bi = next((to for c, to in t["arms"] if c == d), t["else"])
        elif t["k"] == "call":
            ck = callee_key(t["f"]) or ""
            if source[0] == "call" and ck.endswith(source[1]) and not t["dest"][1]:
                env[t["dest"][0]] = v
            else:
                env[t["dest"][0]] = None
            if t.get("to") is None:
                return None
            bi = t["to"]
        else:
            return None
    return None
