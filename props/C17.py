"""C17 — the exit status reflects whether the output was written.

Decided statically (DESIGN.md §5 C17): who may terminate the process and with which status; that the
constant status 0 is only produced after the link returned Ok (child branch, fork-failure branch, parent
branch only on the byte-received edge); that the wait status is decoded with WEXITSTATUS only under
WIFEXITED; that I/O results on the output path are not dropped."""
from mir import (Cfg, Flow, callee_key, declared_key, stable, success_blocks, bool_edge_blocks,
                 uses_of_local, op_place, op_const, is_transparent, direct_call_of_switch)

EXPLANATION = ("who-may-call (process exit), value-flow of the exit status, guarded-call (WEXITSTATUS under "
               "WIFEXITED), must-pass-through (status 0 only after Linker::run returned Ok) and must-use of "
               "io::Result on the output path, over MIR facts of libwild + wild")

EXITS = {"std::process::exit", "std::process::abort", "libc::_exit", "libc::exit", "libc::abort",
         "libwild::error::report_error_and_exit"}

# (stable caller key, callee) -> (expected count, reason, constraint)
EXIT_ALLOW = {
    ("libwild::error::report_error_and_exit", "std::process::exit"): (1, "the error reporter: constant non-zero status", "const-nonzero"),
    ("libwild::subprocess::run_in_subprocess", "libwild::error::report_error_and_exit"): (1, "error of subprocess_result", "on-err:libwild::subprocess::subprocess_result"),
    ("libwild::subprocess::run_in_subprocess", "std::process::exit"): (1, "status computed by subprocess_result", "from-ok:libwild::subprocess::subprocess_result"),
    ("wild::main", "libwild::error::report_error_and_exit"): (1, "error of wild::run", "on-err:wild::run"),
    ("libwild::args::elf::setup_argument_parser::{closure}", "std::process::exit"): (1, "--help: prints help and exits 0 before any link work is started", "const-zero"),
}

LINK_RUN = {"libwild::Linker::run"}


def run(ctx, rep):
    F = ctx.facts()
    P = ctx.program()
    rep.rule("wmc-exit", "every call of process::exit/abort/_exit/report_error_and_exit is a row of the allow table, with the status constraint of its row")
    rep.rule("status-zero", "in subprocess_result/lib::run/wild::run an Ok status is produced only on the success edge of Linker::run (or libwild::run), the parent's 0 only on the fread==1 edge")
    rep.rule("inform-after-run", "inform_parent_done is called only after Linker::run returned Ok")
    rep.rule("wait-status", "WEXITSTATUS(s) is evaluated only under WIFEXITED(s); the other edge yields a non-zero status")
    rep.rule("io-must-use", "no io::Result/crate Result produced in file_writer is dropped, except the listed best-effort rows")

    if ctx.config == "nofork":
        return run_nofork(ctx, rep, F, P)
    # ---- wmc-exit ------------------------------------------------------------------------------
    sites = P.callers_of(lambda k: k in EXITS)
    counts = {}
    for b, bi, t in sites:
        ck = callee_key(t["f"])
        key = (stable(b.key), ck)
        counts[key] = counts.get(key, 0) + 1
        row = EXIT_ALLOW.get(key)
        if row is None:
            # an unlisted termination is harmless for this property iff it cannot yield status 0: process::abort, report_error_and_exit
            # (whose own status is a checked non-zero constant) or exit(<non-zero constant>)
            if ck in ("std::process::abort", "libwild::error::report_error_and_exit"):
                rep.ob("wmc-exit", f"{stable(b.key)}->{ck}", True, "unlisted site, but this call always terminates with a non-zero status", b.file, t["l"])
                continue
            ok, detail = check_exit_constraint(P, b, bi, t, "const-nonzero")
            rep.ob("wmc-exit", f"{stable(b.key)}->{ck}", ok,
                   (f"unlisted site with a non-zero constant status ({detail})" if ok else
                    f"process termination outside the allow table whose status is not a non-zero constant ({detail}): it can exit 0 without an output"), b.file, t["l"])
            continue
        _n, reason, constraint = row
        ok, detail = check_exit_constraint(P, b, bi, t, constraint)
        rep.ob("wmc-exit", f"{stable(b.key)}->{ck}", ok, f"{reason}; constraint {constraint}: {detail}", b.file, t["l"])
    for key, (n, reason, _c) in EXIT_ALLOW.items():
        got = counts.get(key, 0)
        if got != n:
            if got == 0:
                # a row that disappeared is fine only if its caller disappeared: exits may be removed
                rep.note(f"allow row {key} matched 0 sites (expected {n})")
            else:
                rep.ob("wmc-exit", f"count:{key[0]}->{key[1]}", False, f"expected {n} site(s), found {got}")
    rep.floor("wmc-exit", "exit sites", len(sites), 5)

    # ---- status-zero ---------------------------------------------------------------------------
    sub = F.body("libwild::subprocess::subprocess_result")
    if sub is None:
        rep.lost("status-zero", "libwild::subprocess::subprocess_result")
    else:
        check_ok_only_after(rep, P, sub, {"libwild::Linker::run", "libwild::run"}, extra_value_calls={"libwild::subprocess::wait_for_child_done"})
        # inform_parent_done only after Linker::run succeeded
        cfg, flow = P.cfg(sub), P.flow(sub)
        okb, _bad = success_blocks(sub, flow, cfg, lambda k: k in LINK_RUN)
        n = 0
        for bi, t in flow.calls():
            if callee_key(t["f"]) == "libwild::subprocess::inform_parent_done":
                n += 1
                rep.ob("inform-after-run", "subprocess_result", bi in okb,
                       "the success byte is sent to the parent only on the Ok edge of Linker::run", sub.file, t["l"])
        if n == 0:
            rep.lost("inform-after-run", "call of inform_parent_done in subprocess_result")
    # inform_parent_done may be called from nowhere else
    for b, bi, t in P.callers_of(lambda k: k == "libwild::subprocess::inform_parent_done"):
        rep.ob("inform-after-run", f"caller:{stable(b.key)}", b.key == "libwild::subprocess::subprocess_result",
               "only subprocess_result may signal success to the parent", b.file, t["l"])

    librun = F.body("libwild::run")
    if librun is None:
        rep.lost("status-zero", "libwild::run")
    else:
        check_ok_only_after(rep, P, librun, {"libwild::Linker::run"})
    wrun = F.body("wild::run")
    if wrun is None:
        rep.lost("status-zero", "wild::run")
    else:
        check_ok_only_after(rep, P, wrun, {"libwild::run"}, tail_calls={"libwild::run"})

    # ---- wait-status ---------------------------------------------------------------------------
    waiters = [b for b in F.all_bodies if any(callee_key(t["f"]) == "libc::waitpid" for _bi, t in P.flow(b).calls())]
    if not waiters:
        rep.lost("wait-status", "a body calling libc::waitpid")
    for b in waiters:
        cfg, flow = P.cfg(b), P.flow(b)
        tb, fb = bool_edge_blocks(b, flow, cfg, lambda k: k == "libc::WIFEXITED")
        n = 0
        for bi, t in flow.calls():
            if callee_key(t["f"]) == "libc::WEXITSTATUS":
                n += 1
                rep.ob("wait-status", f"{b.key}:WEXITSTATUS", bi in tb,
                       "WEXITSTATUS is meaningful only when WIFEXITED holds; for a child killed by a signal it yields 0 (= success)",
                       b.file, t["l"])
        if n == 0:
            rep.note(f"{b.key}: no WEXITSTATUS call")
        # constant 0 returned only on the byte-received edge
        for bi, si, proj, payload in flow.defs.get(0, []):
            if si == "call":
                continue
            rv = payload
            if rv["k"] == "use" and rv["a"][0] == "k" and rv["a"][1].get("val") == 0:
                ok = received_edge(b, cfg, flow, bi)
                rep.ob("wait-status", f"{b.key}:return-0", ok,
                       "the parent returns 0 only on the edge where fread delivered the child's success byte", b.file, rv.get("l") or b.line)
        # the status word that is decoded: when waitpid's own result is not tested, a failing waitpid (ECHILD under an
        # inherited SIGCHLD=SIG_IGN, EINTR) leaves the initial value in place, so that value must decode as a failure
        for bi, t in flow.calls():
            if callee_key(t["f"]) != "libc::waitpid" or len(t["args"]) < 2:
                continue
            tested = [u for u in uses_of_local(b, t["dest"][0]) if u[1] != "drop"] if not t["dest"][1] else [1]
            root = None
            cur = op_place(t["args"][1])
            for _ in range(8):
                if cur is None:
                    break
                ds = flow.defs.get(cur[0], [])
                if len(ds) == 1 and ds[0][1] != "call" and ds[0][3]["k"] in ("ref", "rawptr"):
                    root = ds[0][3]["p"][0]
                    cur = (root, [])
                    continue
                if len(ds) == 1 and ds[0][1] != "call" and ds[0][3]["k"] in ("use", "cast") and op_place(ds[0][3]["a"]):
                    cur = op_place(ds[0][3]["a"])
                    continue
                break
            if root is None:
                rep.lost("wait-status", f"status word passed to waitpid in {b.key}")
                continue
            inits = []
            for dbi, si, proj, payload in flow.defs.get(root, []):
                if si != "call" and not proj and payload["k"] == "use" and payload["a"][0] == "k":
                    inits.append(payload["a"][1].get("val"))
                elif si != "call" and not proj:
                    inits.append(None)
            for c in inits:
                if tested:
                    rep.ob("wait-status", f"{b.key}:waitpid-result", True, "waitpid's return value is tested", b.file, t["l"])
                    continue
                if c is None:
                    ok, what = False, "initialised from a non-constant"
                else:
                    w = c & 0xFFFFFFFF
                    exited = (w & 0x7F) == 0
                    code = (w >> 8) & 0xFF
                    ok = not (exited and code == 0)
                    what = f"initial value {c}: WIFEXITED={exited}, WEXITSTATUS={code}"
                rep.ob("wait-status", f"{b.key}:unfilled-status", ok,
                       f"waitpid's result is not tested, so when it fails the status word keeps its initial value, which must not decode as `exited with 0` ({what})",
                       b.file, t["l"])
            if not inits:
                rep.ob("wait-status", f"{b.key}:unfilled-status", bool(tested), "status word has no initialiser in this body and waitpid's result is not tested", b.file, t["l"])
        # on the not-exited edge the returned value must not be a zero constant
        for dbi, si, proj, payload in flow.defs.get(0, []):
            if si == "call" or dbi not in fb:
                continue
            rv = payload
            if rv["k"] == "use" and rv["a"][0] == "k":
                rep.ob("wait-status", f"{b.key}:not-exited-status", rv["a"][1].get("val") not in (0, None),
                       f"on the WIFEXITED==false edge the function returns the constant {rv['a'][1].get('val')}", b.file, b.line)
            elif rv["k"] in ("bin", "use", "cast"):
                leaves = flow.origins(rv["a"]) | (flow.origins(rv["b"]) if rv["k"] == "bin" else set())
                nz = any(x[0] == "const" and isinstance(x[1], int) and x[1] != 0 for x in leaves)
                sig = any(x[0] == "call" and x[1] == "libc::WTERMSIG" for x in leaves)
                rep.ob("wait-status", f"{b.key}:not-exited-status", nz and sig,
                       "on the WIFEXITED==false edge the status is a non-zero constant plus WTERMSIG (never 0: WTERMSIG >= 1 there and the constant keeps it non-zero)", b.file, b.line)

    # ---- io-must-use -----------------------------------------------------------------------------
    IGNORE_OK = {
        ("libwild::file_writer::OutputBuffer::new", "std::fs::File::set_len"): "non-mmap path: set_len fails on special files (/dev/null); write errors surface in flush",
        ("libwild::file_writer::SizedOutput::flush", "libwild::fs::make_executable"): "best effort (pipes etc.)",
        ("libwild::file_writer::Output::set_size::{closure}::{closure}", "std::fs::remove_file"): "background delete of the renamed old output",
        ("libwild::file_writer::delete_old_output", "std::fs::remove_file"): "old output may not exist",
        ("<libwild::file_writer::Output as std::ops::Drop>::drop", "std::fs::remove_file"): "cleanup after a failed link: the exit status is already non-zero",
        ("libwild::file_writer::Output::set_size::{closure}", "std::sync::mpsc::Sender::send"): "receiver gone means the link already failed",
    }
    n_calls = 0
    for b in F.all_bodies:
        if not b.key.startswith("libwild::file_writer::") and not b.key.startswith("<libwild::file_writer::"):
            continue
        flow = P.flow(b)
        for bi, t in flow.calls():
            dest = t["dest"]
            ty = b.locals[dest[0]]
            if not ty.startswith("std::result::Result<") or dest[1]:
                continue
            n_calls += 1
            us = [u for u in uses_of_local(b, dest[0]) if u[1] != "drop"]
            ck = callee_key(t["f"])
            if not us:
                row = IGNORE_OK.get((stable(b.key), ck))
                rep.ob("io-must-use", f"{stable(b.key)}->{ck}", row is not None,
                       (row or "a Result on the output path is dropped: an I/O failure would go unnoticed and the exit status stay 0"),
                       b.file, t["l"])
            else:
                rep.ob("io-must-use", f"{stable(b.key)}->{ck}", True, "result is used", b.file, t["l"])
    rep.floor("io-must-use", "Result-returning calls in file_writer", n_calls, 12)
    # partial-transfer APIs: Write::write / Read::read return how many bytes were transferred; `?` only surfaces errors. If the count
    # is never looked at, a short write (file-size limit, full disk, pipe) is reported as success and the exit status stays 0.
    rep.rule("partial-io", "every call of io::Write::write / write_vectored / io::Read::read (the partial-transfer forms) in libwild and wild uses the returned byte count; write_all / read_exact are the complete forms")
    import re as _re
    PART = _re.compile(r"(as std::io::Write>::(write|write_vectored)|as std::io::Read>::(read|read_vectored)|^std::io::Write::(write|write_vectored)|^std::io::Read::(read|read_vectored))$")
    FULL = _re.compile(r"(as std::io::Write>::write_all|as std::io::Read>::read_exact|^std::io::Write::write_all|^std::io::Read::read_exact|std::fs::write$|std::fs::read$)")
    n_full = n_part = 0
    for b in F.all_bodies:
        if not b.key.startswith(("libwild::", "<libwild::", "wild::")):
            continue
        flow = P.flow(b)
        for bi, t in flow.calls():
            ck = callee_key(t["f"]) or ""
            if FULL.search(ck):
                n_full += 1
            if not PART.search(ck):
                continue
            n_part += 1
            used = _count_used(b, t["dest"][0])
            rep.ob("partial-io", f"{stable(b.key)}->{ck.split('::')[-1]}", used,
                   ("the returned byte count is used" if used else
                    "the byte count returned by a partial-transfer call is never looked at: a short write/read is treated as complete (exit status 0 with a truncated output)"), b.file, t["l"])
    rep.ob("partial-io", "matcher-control", n_full >= 3, f"{n_full} complete-transfer calls (write_all/read_exact/fs::write) and {n_part} partial-transfer calls seen", "libwild/src/file_writer.rs", 0)
    rep.assume("WILD_SAVE_SKIP_LINKING (an explicit request to only populate the save directory) makes Linker::run return Ok without an output by design")
    rep.assume("a panic or abort terminates the process with a non-zero status (Rust runtime: 101 / SIGABRT)")
    rep.assume("OOM and SIGSEGV behaviour, and mmap write-back failures, are outside the analysed program")


def received_edge(b, cfg, flow, bi):
    """block bi is only reached on the `== 1` edge of a switch on the result of libc::fread"""
    ef = cfg.edge_facts().get(bi, frozenset())
    for sb, lab in ef:
        if lab == 1 and direct_call_of_switch(b, flow, sb) == "libc::fread":
            return True
    return False


def check_exit_constraint(P, b, bi, t, constraint):
    cfg, flow = P.cfg(b), P.flow(b)
    arg = t["args"][0] if t["args"] else None
    if constraint == "const-nonzero":
        c = op_const(arg) if arg else None
        if c is None:
            origins = flow.origins(arg)
            consts = [o for o in origins if o[0] == "const"]
            ok = bool(consts) and all(o[1] not in (0, None) for o in consts) and all(o[0] == "const" for o in origins)
            return ok, f"status origins {sorted(map(str, origins))}"
        return (c.get("val") not in (0, None)), f"status constant {c.get('val')}"
    if constraint in ("const-zero", "const-zero-env"):
        c = op_const(arg) if arg else None
        ok = c is not None and c.get("val") == 0
        if constraint == "const-zero-env":
            # must be guarded by the is_ok() of std::env::var
            tb, _fb = bool_edge_blocks(b, flow, cfg, lambda k: k == "std::result::Result::is_ok")
            ok = ok and bi in tb
            return ok, "exit(0) under the env-var guard" if ok else "exit not guarded by the env var test"
        return ok, "constant 0"
    if constraint.startswith("on-err:"):
        callee = constraint.split(":", 1)[1]
        _okb, bad = success_blocks(b, flow, cfg, lambda k: k == callee)
        return bi in bad, f"reached only on the Err edge of {callee}" if bi in bad else f"not confined to the Err edge of {callee}"
    if constraint.startswith("from-ok:"):
        callee = constraint.split(":", 1)[1]
        origins = flow.origins(arg)
        calls = {o[1] for o in origins if o[0] == "call" and not is_transparent(o[1])}
        consts = {o[1] for o in origins if o[0] == "const"}
        ok = calls == {callee} and not consts
        return ok, f"status derives from {sorted(calls)} consts {sorted(map(str, consts))}"
    return False, "unknown constraint"


def check_ok_only_after(rep, P, body, run_calls, extra_value_calls=(), tail_calls=()):
    """Every definition of the return place that builds `Ok(..)` lies on the success edge of one of
    `run_calls`; Ok payloads are constant 0/unit or come from `extra_value_calls`."""
    cfg, flow = P.cfg(body), P.flow(body)
    okb, _bad = success_blocks(body, flow, cfg, lambda k: k in run_calls)
    n = 0
    for bi, si, proj, payload in flow.defs.get(0, []):
        if bi not in cfg.reach:
            continue
        if si == "call":
            ck = callee_key(payload["f"])
            if ck in tail_calls:
                n += 1
                rep.ob("status-zero", f"{body.key}:tail:{ck}", True, "status is the callee's result", body.file, payload["l"])
                continue
            if ck and (ck.endswith("FromResidual>::from_residual") or ck.endswith("FromResidual::from_residual")):
                continue  # error propagation
            rep.ob("status-zero", f"{body.key}:ret-call:{ck}", False,
                   "return value produced by an unexpected call", body.file, payload["l"])
            continue
        rv = payload
        if rv["k"] == "agg" and rv.get("ak") == "adt" and rv["adt"].startswith("std::result::Result") and rv["variant"] == "Ok":
            n += 1
            opnd = rv["ops"][0] if rv["ops"] else None
            from_wait = False
            if opnd is not None and opnd[0] != "k":
                calls = {c for c in flow.origin_calls(opnd) if not is_transparent(c)}
                from_wait = bool(calls) and calls <= set(extra_value_calls)
            if from_wait:
                rep.ob("status-zero", f"{body.key}:Ok(child-status)", True, "status of the waited child", body.file, body.line)
            else:
                rep.ob("status-zero", f"{body.key}:Ok@{'after-run' if bi in okb else 'no-run'}", bi in okb,
                       f"Ok is returned only on the success edge of {sorted(run_calls)}", body.file, body.line)
        elif rv["k"] == "agg" and rv.get("variant") == "Err":
            continue
        elif rv["k"] == "use" and rv["a"][0] != "k":
            # returning a stored Result: its origins must be run calls or error propagation
            calls = {c for c in flow.origin_calls(rv["a"]) if not is_transparent(c)}
            n += 1
            rep.ob("status-zero", f"{body.key}:ret-copy", bool(calls) and calls <= set(run_calls) | set(tail_calls),
                   f"returned value derives from {sorted(calls)}", body.file, body.line)
    if n == 0:
        rep.lost("status-zero", f"Ok return in {body.key}")


def run_nofork(ctx, rep, F, P):
    """Build without the `fork` feature (subprocess_unsupported.rs): run_in_subprocess runs the link in-process and exits."""
    import decide
    b = F.body("libwild::subprocess::run_in_subprocess")
    if b is None:
        rep.lost("status-zero", "libwild::subprocess::run_in_subprocess (no-fork build)")
        return
    cfg, flow = P.cfg(b), P.flow(b)
    exits = [(bi, t) for bi, t in flow.calls() if callee_key(t["f"]) in EXITS]
    rep.ob("wmc-exit", "nofork:one-exit", len(exits) == 1, f"{len(exits)} process exit call(s) in the no-fork run_in_subprocess", b.file, b.line)
    n0 = nz = 0
    for bi, blk in enumerate(b.blocks):
        if bi not in cfg.reach or blk.get("cleanup"):
            continue
        for s in blk["s"]:
            if s["k"] == "assign" and s["rv"]["k"] == "use" and s["rv"]["a"][0] == "k" and b.locals[s["p"][0]].strip() == "i32" and not s["p"][1]:
                v = s["rv"]["a"][1].get("val")
                at = decide.atoms_at(P, F, b, bi)
                on_ok = any(a.startswith("variant:Result") and "Ok" in val and "Err" not in val for a, val in at if not isinstance(val, bool))
                on_err = any(a.startswith("variant:Result") and "Err" in val and "Ok" not in val for a, val in at if not isinstance(val, bool))
                if v == 0:
                    n0 += 1
                    rep.ob("status-zero", "nofork:zero-on-ok", on_ok, "status 0 is produced only on the Ok arm of libwild::run", b.file, s["l"])
                else:
                    nz += 1
                    rep.ob("status-zero", "nofork:nonzero-on-err", on_err or not on_ok, f"status {v} on the error arm", b.file, s["l"])
    rep.ob("status-zero", "nofork:both-arms", n0 == 1 and nz >= 1, f"{n0} zero / {nz} non-zero status constant(s)", b.file, b.line)
    runs = [bi for bi, t in flow.calls() if callee_key(t["f"]) in ("libwild::run",)]
    rep.ob("status-zero", "nofork:runs-link", len(runs) == 1 and all(cfg.dominates(r, e[0]) for r in runs for e in exits), "the exit is dominated by the call of libwild::run", b.file, b.line)
    for e, t in exits:
        o = flow.origins(t["args"][0])
        rep.ob("wmc-exit", "nofork:status-flows", {x[1] for x in o if x[0] == "const"} >= {0}, f"exit status derives from constants {sorted(str(x[1]) for x in o if x[0] == 'const')}", b.file, t["l"])
    rep.assume("no-fork build: a panic or abort terminates this (only) process with a non-zero status")


def _reads(body, local):
    """(kind, payload) for every read of `local`: ('stmt', statement) | ('arg', terminator) | ('switch', terminator)"""
    from mir import _operands_of_rvalue
    out = []
    for blk in body.blocks:
        if blk.get("cleanup"):
            continue
        for s in blk["s"]:
            if s["k"] != "assign":
                continue
            rv = s["rv"]
            hit = any(op_place(o) and op_place(o)[0] == local for o in _operands_of_rvalue(rv))
            if rv["k"] in ("ref", "rawptr", "discr") and rv["p"][0] == local:
                hit = True
            if hit:
                out.append(("stmt", s))
        t = blk["t"]
        if t["k"] == "call" and any(op_place(a) and op_place(a)[0] == local for a in t["args"]):
            out.append(("arg", t))
        elif t["k"] == "switch" and op_place(t["d"]) and op_place(t["d"])[0] == local:
            out.append(("switch", t))
        elif t["k"] == "assert" and op_place(t["c"]) and op_place(t["c"])[0] == local:
            out.append(("stmt", None))
    if local == 0:
        out.append(("return", None))
    return out


def _count_used(body, dest):
    """Is the Ok payload (the byte count) of the Result in `dest` ever read? `?`/context adaptors and error propagation do not count."""
    seen, work = set(), [dest]
    while work:
        l = work.pop()
        if l in seen:
            continue
        seen.add(l)
        for kind, x in _reads(body, l):
            if kind == "switch":
                continue
            if kind == "return":
                return True
            if kind == "arg":
                uk = callee_key(x["f"]) or ""
                if uk.endswith("from_residual"):
                    continue
                if is_transparent(uk) or uk.endswith("Try>::branch") or uk.endswith("::with_context") or uk.endswith("::context") or uk.endswith("::map_err"):
                    work.append(x["dest"][0])
                    continue
                return True
            if x is None:
                return True
            rv = x["rv"]
            if rv["k"] == "discr":
                continue
            src = op_place(rv.get("a")) if rv.get("a") else (tuple(rv["p"]) if rv.get("p") else None)
            if src and any(p_ in ("@Break", "@Err") for p_ in src[1]):
                continue
            d = x["p"][0]
            if body.locals[d].strip() in ("usize", "u64", "isize", "i64", "u32"):
                if _int_used(body, d, set()):
                    return True
                continue
            work.append(d)
    return False


def _int_used(body, l, seen):
    """an integer local is `used` when something other than a plain copy into another (unused) local reads it"""
    if l in seen:
        return False
    seen.add(l)
    for kind, x in _reads(body, l):
        if kind in ("arg", "switch", "return") or x is None:
            return True
        rv = x["rv"]
        if rv["k"] in ("use", "cast") and not x["p"][1]:
            if x["p"][0] == 0 or _int_used(body, x["p"][0], seen):
                return True
            continue
        return True
    return False
