"""C30 — constructor and destructor order matches GNU ld.

Order in the output is a runtime matter: not decided. Decided: the priority mapping treats the init
and fini sides symmetrically and both legacy names identically: `.init_array.N` and `.fini_array.N`
map the suffix with the same expression; `.ctors.N` and `.dtors.N` both invert (u16::MAX - N);
the four unsuffixed names map to one constant; content reversal applies to both `.ctors` and
`.dtors` inputs and to both array output sections."""
import fold
import hirq

EXPLANATION = ("structural extraction from HIR of the (name test -> priority expression) pairs of elf::init_fini_priority "
               "and of the name/section tests of elf_writer::should_reverse_contents; sibling-agreement rules")


def run(ctx, rep):
    F = ctx.facts()
    rep.rule("suffix-symmetry", "`.init_array.` and `.fini_array.` prefixes return the same expression of the suffix; `.ctors.` and `.dtors.` return the same expression, which inverts the priority")
    rep.rule("unsuffixed", "`.init_array`, `.fini_array`, `.ctors`, `.dtors` without suffix all map to the same constant")
    rep.rule("reversal", "should_reverse_contents tests both legacy prefixes and both array output sections")
    b = F.hir_body("libwild::elf::init_fini_priority")
    if b is None:
        rep.lost("suffix-symmetry", "elf::init_fini_priority")
        return
    prefix_rules = {}
    equal_rules = {}
    for x in fold.walk(b["body"]):
        if x.get("e") != "if":
            continue
        cond = x["cond"]
        body_sk = hirq.skeleton(x["then"], lambda n: None)
        # strip_prefix literal
        for d, node in hirq.calls(cond, lambda d: d and d.endswith("strip_prefix")):
            lits = [bytes(v).decode() if isinstance(v, list) else v for v in hirq.literals(node)]
            for lit in lits:
                prefix_rules[lit] = body_sk
        # equalities with named constants
        for y in fold.walk(cond):
            if y.get("e") == "bin" and y["op"] == "==":
                for side in (y["a"], y["b"]):
                    s = hirq.strip(side)
                    if s.get("e") == "path" and s.get("res") == "Const":
                        equal_rules[s["def"].split("::")[-1]] = body_sk
    rep.floor("suffix-symmetry", "prefix rules", len(prefix_rules), 4)
    rep.floor("unsuffixed", "equality rules", len(equal_rules), 4)
    pi, pf = prefix_rules.get(".init_array."), prefix_rules.get(".fini_array.")
    pc, pd = prefix_rules.get(".ctors."), prefix_rules.get(".dtors.")
    rep.ob("suffix-symmetry", "init-vs-fini", pi is not None and pi == pf, f".init_array.N -> {pi}; .fini_array.N -> {pf}", b["file"], b["line"])
    rep.ob("suffix-symmetry", "ctors-vs-dtors", pc is not None and pc == pd, f".ctors.N -> {pc}; .dtors.N -> {pd}", b["file"], b["line"])
    rep.ob("suffix-symmetry", "legacy-inverts", pc is not None and ("saturating_sub" in pc or "wrapping_sub" in pc or " - " in pc) and "MAX" in pc,
           f".ctors/.dtors priorities are inverted (u16::MAX - N): {pc}", b["file"], b["line"])
    rep.ob("suffix-symmetry", "modern-does-not-invert", pi is not None and "sub" not in pi, f".init_array/.fini_array priorities are used as they are: {pi}", b["file"], b["line"])
    vals = {k: v for k, v in equal_rules.items() if k in ("INIT_ARRAY_SECTION_NAME", "FINI_ARRAY_SECTION_NAME", "CTORS_SECTION_NAME", "DTORS_SECTION_NAME")}
    rep.ob("unsuffixed", "all-four", len(vals) == 4 and len(set(vals.values())) == 1, f"unsuffixed names -> {sorted(set(vals.values()))} ({sorted(vals)})", b["file"], b["line"])

    r = F.hir_body("libwild::elf_writer::should_reverse_contents")
    if r is None:
        rep.lost("reversal", "elf_writer::should_reverse_contents")
        return
    consts = {y["def"].split("::")[-1] for y in fold.walk(r["body"]) if y.get("e") == "path" and y.get("res") == "Const"}
    starts = set()
    for d, node in hirq.calls(r["body"], lambda d: d and d.endswith("starts_with")):
        for y in fold.walk(node):
            if y.get("e") == "path" and y.get("res") == "Const":
                starts.add(y["def"].split("::")[-1])
    rep.ob("reversal", "both-legacy-names", {"CTORS_SECTION_NAME", "DTORS_SECTION_NAME"} <= starts, f"starts_with tests: {sorted(starts)}", r["file"], r["line"])
    rep.ob("reversal", "both-output-sections", {"INIT_ARRAY", "FINI_ARRAY"} <= consts, f"output sections tested: {sorted(c for c in consts if 'ARRAY' in c)}", r["file"], r["line"])
    priority_pipeline(ctx, rep, F)
    rep.assume("the relative order of entries that share a priority follows the general input-order layout of parts (C06/C08): not decided here")


def priority_pipeline(ctx, rep, F):
    """How a priority reaches the output order: name -> InitFiniSectionDetail.priority -> secondary section keyed (primary, priority) ->
    OutputOrderBuilder::add_section emits the secondaries of a primary in ascending priority with a stable sort."""
    from mir import callee_key, op_const, expr_tree, render
    P = ctx.program()
    OS = "libwild::output_section_id::"
    rep.rule("priority-pipeline", "the priority parsed from the section name is stored in InitFiniSectionDetail under the SortedSection outcome only; "
             "get_or_create_init_fini_secondary keys secondaries by (primary, priority) and tags the new section InitFini{same priority}; "
             "add_section sorts a primary's secondaries by that priority, ascending, with a stable sort, untagged secondaries last (u16::MAX), and emits them in sorted order")
    # (1) detail built from init_section_priority(section_name)
    n_det = 0
    for b in F.all_bodies:
        if not b.key.startswith("libwild::resolution::"):
            continue
        flow = None
        for bi, blk in enumerate(b.blocks):
            if blk.get("cleanup"):
                continue
            for st in blk["s"]:
                if st["k"] == "assign" and st["rv"]["k"] == "agg" and str(st["rv"].get("adt") or "").endswith("InitFiniSectionDetail"):
                    flow = flow or P.flow(b)
                    n_det += 1
                    fields = st["rv"].get("fields") or []
                    ops = st["rv"]["ops"]
                    pri_op = ops[fields.index("priority")] if "priority" in fields else (ops[2] if len(ops) > 2 else None)
                    src = {(x[1] or "").split("::")[-1] for x in flow.deep_origins(pri_op) if x[0] == "call"} if pri_op else set()
                    rep.ob("priority-pipeline", f"detail:{b.key.split('::')[-1]}:priority-source", "init_section_priority" in src,
                           f"InitFiniSectionDetail.priority derives from {sorted(src)}", b.file, st.get("l"))
                    import decide
                    at = {str(a[0]): a[1] for a in decide.atoms_at(P, F, b, bi)}
                    arm = at.get("variant:SectionRuleOutcome")
                    rep.ob("priority-pipeline", f"detail:{b.key.split('::')[-1]}:sorted-outcome", arm == frozenset({"SortedSection"}),
                           f"built on the outcome arm {sorted(arm) if arm else arm}", b.file, st.get("l"))
    rep.floor("priority-pipeline", "constructions of InitFiniSectionDetail", n_det, 1)
    # (2) secondary keyed by (primary, priority) and tagged with the same priority
    g = F.body(OS + "OutputSections::get_or_create_init_fini_secondary")
    if g is None:
        rep.lost("priority-pipeline", "OutputSections::get_or_create_init_fini_secondary")
    else:
        gf = P.flow(g)
        pri_param = next((i for i in range(1, g.d["argc"] + 1) if g.locals[i].strip() == "u16"), None)
        key_ok = tag_ok = False
        for blk in g.blocks:
            for st in blk["s"]:
                if st["k"] != "assign" or st["rv"]["k"] != "agg":
                    continue
                if st["rv"]["ak"] == "tuple" and len(st["rv"]["ops"]) == 2:
                    o = gf.origins(st["rv"]["ops"][1])
                    key_ok = key_ok or o == {("param", pri_param)}
                if str(st["rv"].get("adt") or "").endswith("SecondaryOrder") and st["rv"].get("variant") == "InitFini":
                    o = gf.origins(st["rv"]["ops"][0])
                    tag_ok = tag_ok or o == {("param", pri_param)}
        names = [(callee_key(t["f"]) or "").split("::")[-1] for _bi, t in gf.calls()]
        rep.ob("priority-pipeline", "secondary:key", key_ok and "get" in names and "insert" in names, "the lookup/insert key is (primary, priority)", g.file, g.line)
        rep.ob("priority-pipeline", "secondary:tag", tag_ok, "a new secondary is tagged SecondaryOrder::InitFini { priority } with the priority it was asked for", g.file, g.line)
    # (3) emission order
    a = F.body(OS + "OutputOrderBuilder::add_section")
    if a is None:
        rep.lost("priority-pipeline", "OutputOrderBuilder::add_section")
        return
    af = P.flow(a)
    sorts = [(bi, t) for bi, t in af.calls() if "sort" in (callee_key(t["f"]) or "").split("::")[-1]]
    rep.ob("priority-pipeline", "emit:one-sort", len(sorts) == 1, f"{len(sorts)} sort call(s) in add_section", a.file, a.line)
    for bi, t in sorts:
        tail = (callee_key(t["f"]) or "").split("::")[-1]
        rep.ob("priority-pipeline", "emit:stable", tail in ("sort_by_key", "sort_by", "sort", "sort_by_cached_key"),
               f"{tail}: " + ("stable - sections of equal priority keep their creation order" if "unstable" not in tail else "unstable: equal keys may be permuted"), a.file, t["l"])
    cls = F.closures_of(OS + "OutputOrderBuilder::add_section")
    key_cl = next((c for c in cls if c.locals[0].strip() == "u16"), None)
    cmp_cl = next((c for c in cls if c.locals[0].strip().endswith("cmp::Ordering")), None)
    map_cl = next((c for c in cls if c.locals[0].strip().startswith("(u16")), None)
    if (key_cl is None and cmp_cl is None) or map_cl is None:
        rep.lost("priority-pipeline", "the key closure (-> u16) or comparator (-> Ordering) / the mapping closure (-> (u16, OutputSectionId)) of add_section")
        return
    if key_cl is None:
        # comparator form: sort_by(|a, b| a.0.cmp(&b.0)) - ascending iff the receiver comes from the first parameter and the argument from the second
        from mir import place_chain
        cf = P.flow(cmp_cl)
        cmps = [(bi, t) for bi, t in cf.calls() if (callee_key(t["f"]) or "").split("::")[-1] in ("cmp", "partial_cmp")]
        ok_cmp = False
        detail = f"{len(cmps)} cmp call(s)"
        if len(cmps) == 1 and len(cf_calls := list(cf.calls())) == 1:
            t = cmps[0][1]
            c0, c1 = place_chain(cf, t["args"][0]), place_chain(cf, t["args"][1])
            ok_cmp = c0[1] == {2} and c1[1] == {3} and c0[0][-1:] == ["0"] and c1[0][-1:] == ["0"]
            detail = f"cmp(receiver from parameter {sorted(c0[1])} field {c0[0][-1:]}, argument from parameter {sorted(c1[1])} field {c1[0][-1:]})"
        rep.ob("priority-pipeline", "emit:key", ok_cmp, f"comparator orders by the first component, ascending: {detail}", cmp_cl.file, cmp_cl.line)
    if key_cl is not None:
        ret = render(expr_tree(P, key_cl, ("c", (0, [])), depth=4, expand_params=0))
        asc = True
        for blk in key_cl.blocks:
            for st in blk["s"]:
                if st["k"] == "assign" and st["rv"]["k"] in ("bin", "un"):
                    asc = False
            if blk["t"]["k"] == "call":
                asc = False
        first = any(st["k"] == "assign" and st["rv"]["k"] == "ref" and st["rv"]["p"][1][-1:] == [".0"] for blk in key_cl.blocks for st in blk["s"]) or ".0" in ret
        rep.ob("priority-pipeline", "emit:key", asc and first, f"sort key = the tuple's first component, unmodified (ascending priority): {ret}", key_cl.file, key_cl.line)
    mf = P.flow(map_cl)
    comp0 = None
    for blk in map_cl.blocks:
        for st in blk["s"]:
            if st["k"] == "assign" and st["p"] == [0, []] and st["rv"]["k"] == "agg" and st["rv"]["ak"] == "tuple":
                comp0 = st["rv"]["ops"][0]
    ok_tag = ok_default = False
    if comp0 is not None:
        # every definition of the first component: the InitFini priority, or u16::MAX
        seen = []

        def defs_of(op, depth=0):
            if op[0] == "k":
                seen.append(("const", op[1].get("val")))
                return
            ds = mf.defs.get(op[1][0], [])
            for _bi, si, _proj, payload in ds:
                if si == "call":
                    seen.append(("call", callee_key(payload["f"])))
                elif payload["k"] == "use" and depth < 6:
                    a_ = payload["a"]
                    if a_[0] != "k" and a_[1][1]:
                        seen.append(("place", tuple(a_[1][1])))
                    else:
                        defs_of(a_, depth + 1)
                else:
                    seen.append(("other", payload["k"]))
        defs_of(comp0)
        ok_tag = any(k == "place" and "@InitFini" in v and ".priority" in v for k, v in seen)
        ok_default = any(k == "const" and v == 65535 for k, v in seen) and all(k in ("place", "const") for k, v in seen)
        rep.ob("priority-pipeline", "emit:key-source", ok_tag and ok_default, f"first component = InitFini priority, or u16::MAX for untagged secondaries ({seen})", map_cl.file, map_cl.line)
    else:
        rep.lost("priority-pipeline", "tuple built by the mapping closure")
    # the sorted vector is what gets emitted: the push of Section(sid) inside the loop over `keyed`
    srt = sorts[0][0] if sorts else None
    emitted = False
    for bi, t in af.calls():
        if (callee_key(t["f"]) or "").endswith("::into_iter") and srt is not None:
            o = af.deep_origins(t["args"][0])
            if any(x[0] == "call" and (x[1] or "").split("::")[-1] in ("collect", "from_iter") for x in o) and P.cfg(a).dominates(srt, bi):
                emitted = True
    rep.ob("priority-pipeline", "emit:sorted-vector-is-emitted", emitted, "the loop that pushes OrderEvent::Section iterates the collected vector after it was sorted", a.file, a.line)
