"""C30 — constructor and destructor order matches GNU ld.

Order in the output is a runtime matter: not decided. Decided: the priority mapping treats the init
and fini sides symmetrically and both legacy names identically: `.init_array.N` and `.fini_array.N`
map the suffix with the same expression; `.ctors.N` and `.dtors.N` both invert (u16::MAX - N);
the four unsuffixed names map to one constant; content reversal applies to both `.ctors` and
`.dtors` inputs and to both array output sections."""
import fold
import hirq

EXPLANATION = ("structural extraction from HIR of the (name test -> priority expression) pairs of elf::init_fini_priority "
               "and of the name/section tests of elf_writer::should_reverse_contents; sibling-agreement rules")


def run(ctx, rep):
    F = ctx.facts()
    rep.rule("suffix-symmetry", "`.init_array.` and `.fini_array.` prefixes return the same expression of the suffix; `.ctors.` and `.dtors.` return the same expression, which inverts the priority")
    rep.rule("unsuffixed", "`.init_array`, `.fini_array`, `.ctors`, `.dtors` without suffix all map to the same constant")
    rep.rule("reversal", "should_reverse_contents tests both legacy prefixes and both array output sections")
    b = F.hir_body("libwild::elf::init_fini_priority")
    if b is None:
        rep.lost("suffix-symmetry", "elf::init_fini_priority")
        return
    prefix_rules = {}
    equal_rules = {}
    for x in fold.walk(b["body"]):
        if x.get("e") != "if":
            continue
        cond = x["cond"]
        body_sk = hirq.skeleton(x["then"], lambda n: None)
        # strip_prefix literal
        for d, node in hirq.calls(cond, lambda d: d and d.endswith("strip_prefix")):
            lits = [bytes(v).decode() if isinstance(v, list) else v for v in hirq.literals(node)]
            for lit in lits:
                prefix_rules[lit] = body_sk
        # equalities with named constants
        for y in fold.walk(cond):
            if y.get("e") == "bin" and y["op"] == "==":
                for side in (y["a"], y["b"]):
                    s = hirq.strip(side)
                    if s.get("e") == "path" and s.get("res") == "Const":
                        equal_rules[s["def"].split("::")[-1]] = body_sk
    rep.floor("suffix-symmetry", "prefix rules", len(prefix_rules), 4)
    rep.floor("unsuffixed", "equality rules", len(equal_rules), 4)
    pi, pf = prefix_rules.get(".init_array."), prefix_rules.get(".fini_array.")
    pc, pd = prefix_rules.get(".ctors."), prefix_rules.get(".dtors.")
    rep.ob("suffix-symmetry", "init-vs-fini", pi is not None and pi == pf, f".init_array.N -> {pi}; .fini_array.N -> {pf}", b["file"], b["line"])
    rep.ob("suffix-symmetry", "ctors-vs-dtors", pc is not None and pc == pd, f".ctors.N -> {pc}; .dtors.N -> {pd}", b["file"], b["line"])
    rep.ob("suffix-symmetry", "legacy-inverts", pc is not None and ("saturating_sub" in pc or "wrapping_sub" in pc or " - " in pc) and "MAX" in pc,
           f".ctors/.dtors priorities are inverted (u16::MAX - N): {pc}", b["file"], b["line"])
    rep.ob("suffix-symmetry", "modern-does-not-invert", pi is not None and "sub" not in pi, f".init_array/.fini_array priorities are used as they are: {pi}", b["file"], b["line"])
    vals = {k: v for k, v in equal_rules.items() if k in ("INIT_ARRAY_SECTION_NAME", "FINI_ARRAY_SECTION_NAME", "CTORS_SECTION_NAME", "DTORS_SECTION_NAME")}
    rep.ob("unsuffixed", "all-four", len(vals) == 4 and len(set(vals.values())) == 1, f"unsuffixed names -> {sorted(set(vals.values()))} ({sorted(vals)})", b["file"], b["line"])

    r = F.hir_body("libwild::elf_writer::should_reverse_contents")
    if r is None:
        rep.lost("reversal", "elf_writer::should_reverse_contents")
        return
    consts = {y["def"].split("::")[-1] for y in fold.walk(r["body"]) if y.get("e") == "path" and y.get("res") == "Const"}
    starts = set()
    for d, node in hirq.calls(r["body"], lambda d: d and d.endswith("starts_with")):
        for y in fold.walk(node):
            if y.get("e") == "path" and y.get("res") == "Const":
                starts.add(y["def"].split("::")[-1])
    rep.ob("reversal", "both-legacy-names", {"CTORS_SECTION_NAME", "DTORS_SECTION_NAME"} <= starts, f"starts_with tests: {sorted(starts)}", r["file"], r["line"])
    rep.ob("reversal", "both-output-sections", {"INIT_ARRAY", "FINI_ARRAY"} <= consts, f"output sections tested: {sorted(c for c in consts if 'ARRAY' in c)}", r["file"], r["line"])
    rep.assume("the order of entries in the output depends on layout and input order: not decided")
