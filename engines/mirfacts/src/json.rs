//! Minimal JSON value + writer (the driver has zero dependencies).

pub enum Json {
    Null,
    Bool(bool),
    Int(i128),
    UInt(u128),
    Str(String),
    Arr(Vec<Json>),
    Obj(Vec<(&'static str, Json)>),
}

impl Json {
    pub fn s(v: impl Into<String>) -> Json {
        Json::Str(v.into())
    }
    pub fn write(&self, out: &mut String) {
        match self {
            Json::Null => out.push_str("null"),
            Json::Bool(b) => out.push_str(if *b { "true" } else { "false" }),
            Json::Int(i) => out.push_str(&i.to_string()),
            Json::UInt(i) => out.push_str(&i.to_string()),
            Json::Str(s) => write_str(s, out),
            Json::Arr(v) => {
                out.push('[');
                for (i, x) in v.iter().enumerate() {
                    if i > 0 {
                        out.push(',');
                    }
                    x.write(out);
                }
                out.push(']');
            }
            Json::Obj(v) => {
                out.push('{');
                for (i, (k, x)) in v.iter().enumerate() {
                    if i > 0 {
                        out.push(',');
                    }
                    write_str(k, out);
                    out.push(':');
                    x.write(out);
                }
                out.push('}');
            }
        }
    }
}

fn write_str(s: &str, out: &mut String) {
    out.push('"');
    for c in s.chars() {
        match c {
            '"' => out.push_str("\\\""),
            '\\' => out.push_str("\\\\"),
            '\n' => out.push_str("\\n"),
            '\r' => out.push_str("\\r"),
            '\t' => out.push_str("\\t"),
            c if (c as u32) < 0x20 => out.push_str(&format!("\\u{:04x}", c as u32)),
            c => out.push(c),
        }
    }
    out.push('"');
}

#[macro_export]
macro_rules! obj {
    ($($k:literal : $v:expr),* $(,)?) => {
        $crate::json::Json::Obj(vec![$(($k, $v)),*])
    };
}
