//! mirfacts: a rustc driver that dumps the resolved program (MIR + HIR) of each workspace crate as
//! JSON-lines facts. Injected through RUSTC_WORKSPACE_WRAPPER under `cargo +nightly check`.
//!
//! Output directory: $MIRFACTS_OUT. One `<crate>-<kind>.mir.jsonl` and one `<crate>-<kind>.hir.jsonl`
//! per compiled crate, each written with a single write at the end of analysis.
#![feature(rustc_private)]

extern crate rustc_abi;
extern crate rustc_ast;
extern crate rustc_driver;
extern crate rustc_hir;
extern crate rustc_interface;
extern crate rustc_middle;
extern crate rustc_session;
extern crate rustc_span;

mod hir_dump;
mod json;
mod mir_dump;

use json::Json;
use rustc_driver::Compilation;
use rustc_hir::def::DefKind;
use rustc_hir::def_id::LOCAL_CRATE;
use rustc_interface::interface::Compiler;
use rustc_middle::ty::TyCtxt;

struct Cb;

impl rustc_driver::Callbacks for Cb {
    fn after_analysis<'tcx>(&mut self, _c: &Compiler, tcx: TyCtxt<'tcx>) -> Compilation {
        let Ok(out_dir) = std::env::var("MIRFACTS_OUT") else {
            return Compilation::Continue;
        };
        let crate_name = tcx.crate_name(LOCAL_CRATE).to_string();
        if crate_name.starts_with("build_script") {
            return Compilation::Continue;
        }
        let kind = if tcx
            .crate_types()
            .iter()
            .any(|t| matches!(t, rustc_session::config::CrateType::Executable))
        {
            "bin"
        } else {
            "lib"
        };
        let is_test = tcx.sess.opts.test;
        let stem = format!(
            "{out_dir}/{crate_name}-{kind}{}",
            if is_test { "-test" } else { "" }
        );

        let mut mir_out = String::new();
        let mut hir_out = String::new();
        // Print every path fully qualified: `crate::…` for local items (rewritten to the crate's
        // name below), untrimmed paths for foreign ones.
        let _g1 = rustc_middle::ty::print::CratePrefixGuard::new();
        let _g2 = rustc_middle::ty::print::NoTrimmedGuard::new();

        // Header: ADTs, impls.
        let header = header_facts(tcx, &crate_name);
        header.write(&mut mir_out);
        mir_out.push('\n');

        let mut n_mir = 0usize;
        let mut n_hir = 0usize;
        for def_id in tcx.hir_body_owners() {
            let dk = tcx.def_kind(def_id);
            let did = def_id.to_def_id();
            match dk {
                DefKind::Fn | DefKind::AssocFn | DefKind::Closure => {
                    let body = tcx.optimized_mir(did);
                    let j = mir_dump::dump_body(tcx, did, body, &crate_name);
                    j.write(&mut mir_out);
                    mir_out.push('\n');
                    n_mir += 1;
                }
                _ => {}
            }
            if let Some(j) = hir_dump::dump_body(tcx, def_id, &crate_name) {
                j.write(&mut hir_out);
                hir_out.push('\n');
                n_hir += 1;
            }
        }
        let trailer = obj! {
            "trailer": Json::Bool(true),
            "crate": Json::s(crate_name.clone()),
            "n_mir": Json::UInt(n_mir as u128),
            "n_hir": Json::UInt(n_hir as u128),
        };
        trailer.write(&mut mir_out);
        mir_out.push('\n');
        let prefix = format!("{crate_name}::");
        let mir_out = mir_out.replace("crate::", &prefix);
        let hir_out = hir_out.replace("crate::", &prefix);
        std::fs::write(format!("{stem}.mir.jsonl"), mir_out).expect("write mir facts");
        std::fs::write(format!("{stem}.hir.jsonl"), hir_out).expect("write hir facts");
        Compilation::Continue
    }
}

/// ADT definitions (fields, types, visibility), trait impls, for the local crate.
fn header_facts<'tcx>(tcx: TyCtxt<'tcx>, crate_name: &str) -> Json {
    let mut adts = Vec::new();
    let mut impls = Vec::new();
    let mut consts = Vec::new();
    for id in tcx.hir_crate_items(()).definitions() {
        let did = id.to_def_id();
        match tcx.def_kind(did) {
            DefKind::Struct | DefKind::Enum | DefKind::Union => {
                let adt = tcx.adt_def(did);
                let mut variants = Vec::new();
                for v in adt.variants() {
                    let mut fields = Vec::new();
                    for f in &v.fields {
                        let ty = tcx.type_of(f.did).instantiate_identity().skip_norm_wip();
                        fields.push(obj! {
                            "name": Json::s(f.name.to_string()),
                            "ty": Json::s(ty.to_string()),
                            "vis": Json::s(format!("{:?}", f.vis)),
                        });
                    }
                    variants.push(obj! {
                        "name": Json::s(v.name.to_string()),
                        "fields": Json::Arr(fields),
                    });
                }
                adts.push(obj! {
                    "path": Json::s(tcx.def_path_str(did)),
                    "kind": Json::s(format!("{:?}", tcx.def_kind(did))),
                    "variants": Json::Arr(variants),
                    "line": Json::UInt(mir_dump::line_of(tcx, tcx.def_span(did)) as u128),
                    "file": Json::s(mir_dump::file_of(tcx, tcx.def_span(did))),
                });
            }
            DefKind::Impl { of_trait } => {
                let self_ty = tcx.type_of(did).instantiate_identity().skip_norm_wip();
                let trait_path = if of_trait {
                    let tr = tcx.impl_trait_ref(did).instantiate_identity().skip_norm_wip();
                    Json::s(tcx.def_path_str(tr.def_id))
                } else {
                    Json::Null
                };
                let mut methods = Vec::new();
                for item in tcx.associated_items(did).in_definition_order() {
                    if matches!(item.kind, rustc_middle::ty::AssocKind::Fn { .. }) {
                        let tm = item
                            .trait_item_def_id()
                            .map(|t| Json::s(tcx.def_path_str(t)))
                            .unwrap_or(Json::Null);
                        methods.push(obj! {
                            "name": Json::s(item.name().to_string()),
                            "path": Json::s(tcx.def_path_str(item.def_id)),
                            "trait_item": tm,
                        });
                    }
                }
                impls.push(obj! {
                    "trait": trait_path,
                    "self_ty": Json::s(self_ty.to_string()),
                    "methods": Json::Arr(methods),
                    "expn": Json::Bool(tcx.def_span(did).from_expansion()),
                });
            }
            DefKind::Const { .. } | DefKind::AssocConst { .. } => {
                // Value of simple integer constants (the compiler's own constant evaluation).
                let generics = tcx.generics_of(did);
                if generics.count() == 0 || !generics.requires_monomorphization(tcx) {
                    let ty = tcx.type_of(did).instantiate_identity().skip_norm_wip();
                    if ty.is_integral() || ty.is_bool() || ty.is_char() {
                        if let Ok(val) = tcx.const_eval_poly(did) {
                            if let Some(si) = val.try_to_scalar_int() {
                                let size = si.size();
                                let v = if ty.is_signed() {
                                    Json::Int(si.to_int(size))
                                } else {
                                    Json::UInt(si.to_uint(size))
                                };
                                consts.push(obj! {
                                    "path": Json::s(tcx.def_path_str(did)),
                                    "ty": Json::s(ty.to_string()),
                                    "val": v,
                                });
                            }
                        }
                    }
                }
            }
            _ => {}
        }
    }
    obj! {
        "header": Json::Bool(true),
        "crate": Json::s(crate_name),
        "adts": Json::Arr(adts),
        "impls": Json::Arr(impls),
        "consts": Json::Arr(consts),
    }
}

fn main() {
    let mut args: Vec<String> = std::env::args().collect();
    // As RUSTC_WORKSPACE_WRAPPER we are invoked as `<drv> <rustc> <args…>`.
    if args.len() > 1 && (args[1].ends_with("rustc") || args[1].contains("/rustc")) {
        args.remove(1);
    }
    rustc_driver::run_compiler(&args, &mut Cb);
}
