//! MIR facts: one JSON object per body.

use crate::json::Json;
use crate::obj;
use rustc_hir::def::DefKind;
use rustc_hir::def_id::DefId;
use rustc_middle::mir::*;
use rustc_middle::ty::{self, Ty, TyCtxt};
use rustc_span::Span;

pub fn line_of(tcx: TyCtxt<'_>, span: Span) -> usize {
    let span = span.source_callsite();
    tcx.sess.source_map().lookup_char_pos(span.lo()).line
}

pub fn file_of(tcx: TyCtxt<'_>, span: Span) -> String {
    let span = span.source_callsite();
    let loc = tcx.sess.source_map().lookup_char_pos(span.lo());
    format!("{}", loc.file.name.prefer_local_unconditionally())
}

struct Cx<'a, 'tcx> {
    tcx: TyCtxt<'tcx>,
    body: &'a Body<'tcx>,
    env: ty::TypingEnv<'tcx>,
}

pub fn dump_body<'tcx>(tcx: TyCtxt<'tcx>, did: DefId, body: &Body<'tcx>, crate_name: &str) -> Json {
    let cx = Cx { tcx, body, env: ty::TypingEnv::post_analysis(tcx, did) };
    let dk = tcx.def_kind(did);
    let mut locals = Vec::new();
    for (_l, decl) in body.local_decls.iter_enumerated() {
        locals.push(Json::s(decl.ty.to_string()));
    }
    let mut names = Vec::new();
    for vdi in &body.var_debug_info {
        if let VarDebugInfoContents::Place(p) = &vdi.value {
            names.push(Json::Arr(vec![Json::s(vdi.name.to_string()), cx.place(p)]));
        }
    }
    let mut blocks = Vec::new();
    for (_bb, data) in body.basic_blocks.iter_enumerated() {
        let mut stmts = Vec::new();
        for st in &data.statements {
            if let Some(j) = cx.stmt(st) {
                stmts.push(j);
            }
        }
        let term = cx.term(data.terminator());
        blocks.push(obj! {
            "s": Json::Arr(stmts),
            "t": term,
            "cleanup": Json::Bool(data.is_cleanup),
        });
    }
    // Promoted constants (`&CONST_EXPR` temporaries such as the rhs of `kind == ErrorKind::NotFound`).
    let mut promoted = Vec::new();
    for (_idx, pbody) in tcx.promoted_mir(did).iter_enumerated() {
        let pcx = Cx { tcx, body: pbody, env: ty::TypingEnv::post_analysis(tcx, did) };
        let mut pblocks = Vec::new();
        for (_bb, data) in pbody.basic_blocks.iter_enumerated() {
            let mut stmts = Vec::new();
            for st in &data.statements {
                if let Some(j) = pcx.stmt(st) {
                    stmts.push(j);
                }
            }
            pblocks.push(obj! { "s": Json::Arr(stmts), "t": pcx.term(data.terminator()), "cleanup": Json::Bool(data.is_cleanup) });
        }
        promoted.push(Json::Arr(pblocks));
    }
    let parent = if matches!(dk, DefKind::Closure) {
        Json::s(tcx.def_path_str(tcx.parent(did)))
    } else {
        Json::Null
    };
    let vis = match dk {
        DefKind::Fn | DefKind::AssocFn => Json::s(format!("{:?}", tcx.visibility(did))),
        _ => Json::Null,
    };
    let span = tcx.def_span(did);
    obj! {
        "path": Json::s(tcx.def_path_str(did)),
        "crate": Json::s(crate_name),
        "kind": Json::s(format!("{:?}", dk)),
        "file": Json::s(file_of(tcx, span)),
        "line": Json::UInt(line_of(tcx, span) as u128),
        "expn": Json::Bool(span.from_expansion()),
        "parent": parent,
        "vis": vis,
        "argc": Json::UInt(body.arg_count as u128),
        "locals": Json::Arr(locals),
        "names": Json::Arr(names),
        "blocks": Json::Arr(blocks),
        "promoted": Json::Arr(promoted),
    }
}

impl<'a, 'tcx> Cx<'a, 'tcx> {
    fn place(&self, p: &Place<'tcx>) -> Json {
        let mut proj = Vec::new();
        let mut pty = rustc_middle::mir::PlaceTy::from_ty(self.body.local_decls[p.local].ty);
        for elem in p.projection.iter() {
            let s = match elem {
                ProjectionElem::Deref => "*".to_string(),
                ProjectionElem::Field(f, _) => {
                    let name = match pty.ty.kind() {
                        ty::Adt(def, _) => {
                            let v = pty.variant_index.unwrap_or(rustc_abi::FIRST_VARIANT);
                            if def.is_enum() || def.is_struct() || def.is_union() {
                                def.variant(v).fields[f].name.to_string()
                            } else {
                                f.index().to_string()
                            }
                        }
                        _ => f.index().to_string(),
                    };
                    format!(".{name}")
                }
                ProjectionElem::Downcast(name, idx) => match name {
                    Some(n) => format!("@{n}"),
                    None => format!("@{}", idx.index()),
                },
                ProjectionElem::Index(l) => format!("[_{}]", l.index()),
                ProjectionElem::ConstantIndex { offset, from_end, .. } => {
                    if from_end {
                        format!("[-{offset}]")
                    } else {
                        format!("[{offset}]")
                    }
                }
                ProjectionElem::Subslice { from, to, from_end } => {
                    format!("[{from}..{}{to}]", if from_end { "-" } else { "" })
                }
                ProjectionElem::OpaqueCast(_) => "as_opaque".to_string(),
                ProjectionElem::UnwrapUnsafeBinder(_) => "unwrap_binder".to_string(),
            };
            proj.push(Json::Str(s));
            pty = pty.projection_ty(self.tcx, elem);
        }
        Json::Arr(vec![Json::UInt(p.local.index() as u128), Json::Arr(proj)])
    }

    fn fn_ref(&self, def_id: DefId, args: ty::GenericArgsRef<'tcx>) -> Json {
        let tcx = self.tcx;
        let decl = tcx.def_path_str(def_id);
        let decl_args = tcx.def_path_str_with_args(def_id, args);
        let mut resolved = Json::Null;
        let mut resolved_args = Json::Null;
        // Resolution can fail for calls through a type parameter (Ok(None)).
        let has_infer = args.iter().any(|a| format!("{a:?}").contains("?"));
        if !has_infer {
            if let Ok(Some(inst)) = ty::Instance::try_resolve(tcx, self.env, def_id, args) {
                let rid = inst.def_id();
                resolved = Json::s(tcx.def_path_str(rid));
                resolved_args = Json::s(tcx.def_path_str_with_args(rid, inst.args));
            }
        }
        let trait_of = tcx
            .opt_associated_item(def_id)
            .and_then(|ai| ai.trait_container(tcx))
            .map(|t| Json::s(tcx.def_path_str(t)))
            .unwrap_or(Json::Null);
        obj! {
            "fn": Json::s(decl),
            "fn_args": Json::s(decl_args),
            "res": resolved,
            "res_args": resolved_args,
            "trait": trait_of,
            "krate": Json::s(tcx.crate_name(def_id.krate).to_string()),
        }
    }

    fn constant(&self, c: &ConstOperand<'tcx>) -> Json {
        let ty: Ty<'tcx> = c.const_.ty();
        if let ty::FnDef(def_id, args) = ty.kind() {
            return obj! { "fnref": self.fn_ref(*def_id, args) };
        }
        let mut val = Json::Null;
        if ty.is_integral() || ty.is_bool() || ty.is_char() {
            if let Some(si) = c.const_.try_eval_scalar_int(self.tcx, self.env) {
                let size = si.size();
                val = if ty.is_signed() {
                    Json::Int(si.to_int(size))
                } else {
                    Json::UInt(si.to_uint(size))
                };
            }
        }
        let mut text = format!("{}", c.const_);
        if text.len() > 200 {
            text.truncate(200);
        }
        // Named constant?
        let mut def = Json::Null;
        if let Const::Unevaluated(uv, _) = c.const_ {
            def = Json::s(self.tcx.def_path_str(uv.def));
        }
        obj! { "ty": Json::s(ty.to_string()), "val": val, "text": Json::s(text), "def": def }
    }

    fn operand(&self, o: &Operand<'tcx>) -> Json {
        match o {
            Operand::Copy(p) => Json::Arr(vec![Json::s("c"), self.place(p)]),
            Operand::Move(p) => Json::Arr(vec![Json::s("m"), self.place(p)]),
            Operand::Constant(c) => Json::Arr(vec![Json::s("k"), self.constant(c)]),
            #[allow(unreachable_patterns)]
            _ => Json::Arr(vec![Json::s("?"), Json::s(format!("{o:?}"))]),
        }
    }

    fn rvalue(&self, rv: &Rvalue<'tcx>) -> Json {
        match rv {
            Rvalue::Use(op, ..) => obj! { "k": Json::s("use"), "a": self.operand(op) },
            Rvalue::Repeat(op, _) => obj! { "k": Json::s("repeat"), "a": self.operand(op) },
            Rvalue::Ref(_, bk, p) => obj! {
                "k": Json::s("ref"),
                "mut": Json::Bool(matches!(bk, BorrowKind::Mut { .. })),
                "p": self.place(p),
            },
            Rvalue::RawPtr(k, p) => obj! {
                "k": Json::s("rawptr"),
                "mut": Json::Bool(format!("{k:?}").contains("Mut")),
                "p": self.place(p),
            },
            Rvalue::Cast(kind, op, ty) => obj! {
                "k": Json::s("cast"),
                "ck": Json::s(format!("{kind:?}")),
                "a": self.operand(op),
                "ty": Json::s(ty.to_string()),
            },
            Rvalue::BinaryOp(op, ab) => obj! {
                "k": Json::s("bin"),
                "op": Json::s(format!("{op:?}")),
                "a": self.operand(&ab.0),
                "b": self.operand(&ab.1),
            },
            Rvalue::UnaryOp(op, a) => obj! {
                "k": Json::s("un"),
                "op": Json::s(format!("{op:?}")),
                "a": self.operand(a),
            },
            Rvalue::Discriminant(p) => obj! { "k": Json::s("discr"), "p": self.place(p) },
            Rvalue::Aggregate(kind, ops) => {
                let operands: Vec<Json> = ops.iter().map(|o| self.operand(o)).collect();
                match &**kind {
                    AggregateKind::Adt(did, variant, _, _, active) => {
                        let adt = self.tcx.adt_def(*did);
                        let v = adt.variant(*variant);
                        let fields: Vec<Json> = match active {
                            Some(f) => vec![Json::s(v.fields[*f].name.to_string())],
                            None => v.fields.iter().map(|f| Json::s(f.name.to_string())).collect(),
                        };
                        obj! {
                            "k": Json::s("agg"),
                            "ak": Json::s("adt"),
                            "adt": Json::s(self.tcx.def_path_str(*did)),
                            "variant": Json::s(v.name.to_string()),
                            "fields": Json::Arr(fields),
                            "ops": Json::Arr(operands),
                        }
                    }
                    AggregateKind::Closure(did, _) | AggregateKind::Coroutine(did, _)
                    | AggregateKind::CoroutineClosure(did, _) => obj! {
                        "k": Json::s("agg"),
                        "ak": Json::s("closure"),
                        "closure": Json::s(self.tcx.def_path_str(*did)),
                        "ops": Json::Arr(operands),
                    },
                    AggregateKind::Tuple => obj! {
                        "k": Json::s("agg"), "ak": Json::s("tuple"), "ops": Json::Arr(operands),
                    },
                    AggregateKind::Array(_) => obj! {
                        "k": Json::s("agg"), "ak": Json::s("array"), "ops": Json::Arr(operands),
                    },
                    AggregateKind::RawPtr(..) => obj! {
                        "k": Json::s("agg"), "ak": Json::s("rawptr"), "ops": Json::Arr(operands),
                    },
                }
            }
            Rvalue::CopyForDeref(p) => obj! {
                "k": Json::s("use"),
                "a": Json::Arr(vec![Json::s("c"), self.place(p)]),
            },
            other => obj! { "k": Json::s("other"), "text": Json::s(format!("{other:?}")) },
        }
    }

    fn stmt(&self, st: &Statement<'tcx>) -> Option<Json> {
        let line = line_of(self.tcx, st.source_info.span) as u128;
        match &st.kind {
            StatementKind::Assign(b) => {
                let (p, rv) = &**b;
                Some(obj! {
                    "k": Json::s("assign"),
                    "p": self.place(p),
                    "rv": self.rvalue(rv),
                    "l": Json::UInt(line),
                    "x": Json::Bool(st.source_info.span.from_expansion()),
                })
            }
            StatementKind::SetDiscriminant { place, variant_index } => Some(obj! {
                "k": Json::s("setdiscr"),
                "p": self.place(place),
                "v": Json::UInt(variant_index.index() as u128),
                "l": Json::UInt(line),
            }),
            StatementKind::Intrinsic(i) => Some(obj! {
                "k": Json::s("intrinsic"),
                "text": Json::s(format!("{i:?}")),
                "l": Json::UInt(line),
            }),
            _ => None,
        }
    }

    fn term(&self, t: &Terminator<'tcx>) -> Json {
        let line = Json::UInt(line_of(self.tcx, t.source_info.span) as u128);
        let expn = Json::Bool(t.source_info.span.from_expansion());
        let bb = |b: BasicBlock| Json::UInt(b.index() as u128);
        let unwind_of = |u: &UnwindAction| match u {
            UnwindAction::Cleanup(b) => bb(*b),
            _ => Json::Null,
        };
        match &t.kind {
            TerminatorKind::Goto { target } => obj! { "k": Json::s("goto"), "to": bb(*target) },
            TerminatorKind::SwitchInt { discr, targets } => {
                let mut arms = Vec::new();
                for (v, b) in targets.iter() {
                    arms.push(Json::Arr(vec![Json::UInt(v), bb(b)]));
                }
                obj! {
                    "k": Json::s("switch"),
                    "d": self.operand(discr),
                    "dty": Json::s(discr.ty(&self.body.local_decls, self.tcx).to_string()),
                    "arms": Json::Arr(arms),
                    "else": bb(targets.otherwise()),
                    "l": line,
                    "x": expn,
                }
            }
            TerminatorKind::Return => obj! { "k": Json::s("return"), "l": line },
            TerminatorKind::Unreachable => obj! { "k": Json::s("unreachable") },
            TerminatorKind::UnwindResume => obj! { "k": Json::s("resume") },
            TerminatorKind::UnwindTerminate(_) => obj! { "k": Json::s("terminate") },
            TerminatorKind::Drop { place, target, unwind, .. } => obj! {
                "k": Json::s("drop"),
                "p": self.place(place),
                "to": bb(*target),
                "uw": unwind_of(unwind),
                "l": line,
            },
            TerminatorKind::Call { func, args, destination, target, unwind, .. } => {
                let f = match func {
                    Operand::Constant(c) => match c.const_.ty().kind() {
                        ty::FnDef(def_id, gargs) => self.fn_ref(*def_id, gargs),
                        _ => obj! { "indirect": self.operand(func) },
                    },
                    _ => obj! {
                        "indirect": self.operand(func),
                        "ity": Json::s(func.ty(&self.body.local_decls, self.tcx).to_string()),
                    },
                };
                let a: Vec<Json> = args.iter().map(|a| self.operand(&a.node)).collect();
                obj! {
                    "k": Json::s("call"),
                    "f": f,
                    "args": Json::Arr(a),
                    "dest": self.place(destination),
                    "to": target.map(bb).unwrap_or(Json::Null),
                    "uw": unwind_of(unwind),
                    "l": line,
                    "x": expn,
                }
            }
            TerminatorKind::Assert { cond, expected, target, msg, unwind } => obj! {
                "k": Json::s("assert"),
                "c": self.operand(cond),
                "expected": Json::Bool(*expected),
                "msg": Json::s(format!("{:?}", std::mem::discriminant(&**msg))),
                "desc": Json::s(assert_kind(msg)),
                "to": bb(*target),
                "uw": unwind_of(unwind),
                "l": line,
            },
            TerminatorKind::FalseEdge { real_target, .. } => {
                obj! { "k": Json::s("goto"), "to": bb(*real_target) }
            }
            TerminatorKind::FalseUnwind { real_target, .. } => {
                obj! { "k": Json::s("goto"), "to": bb(*real_target) }
            }
            other => obj! { "k": Json::s("other"), "text": Json::s(format!("{other:?}")) },
        }
    }
}

fn assert_kind<'tcx>(msg: &AssertKind<Operand<'tcx>>) -> String {
    match msg {
        AssertKind::BoundsCheck { .. } => "bounds".into(),
        AssertKind::Overflow(op, ..) => format!("overflow:{op:?}"),
        AssertKind::OverflowNeg(_) => "overflow:Neg".into(),
        AssertKind::DivisionByZero(_) => "divzero".into(),
        AssertKind::RemainderByZero(_) => "remzero".into(),
        AssertKind::MisalignedPointerDereference { .. } => "misaligned".into(),
        AssertKind::NullPointerDereference => "nullptr".into(),
        _ => "other".into(),
    }
}
